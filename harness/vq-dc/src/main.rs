//! vq-dc — runtime monitors for the s2n-quic-dc properties C18, C19, C20.
//!
//!   vq-dc --check c18|c19|c20 --seed S --iters N [--replay file.json] [check-specific knobs]
//!
//! Prints exactly one `SUMMARY {json}` line on stdout; everything else goes to stderr.

mod c18;
mod c19;
mod c20;
mod known;

use vq_util::{parse_args, Summary, Value};

fn main() {
    known::quiet_tracing();
    let args = parse_args();
    let mut sum = Summary::default();

    // `vq-dc c18 ...` and `vq-dc --check c18 ...` are both accepted
    let replay: Option<Value> = args.get("replay").map(|p| {
        let text = std::fs::read_to_string(p).unwrap_or_else(|e| {
            eprintln!("vq-dc: cannot read replay file {p}: {e}");
            std::process::exit(2);
        });
        let v: Value = serde_json_from_str(&text);
        // accept either the bare replay object or a whole violation record
        if v.get("replay").is_some() && v.get("check").is_none() {
            v["replay"].clone()
        } else {
            v
        }
    });
    let check = args
        .get("check")
        .cloned()
        .or_else(|| args.get("_0").cloned())
        .or_else(|| replay.as_ref().and_then(|r| r["check"].as_str().map(|s| s.to_string())))
        .unwrap_or_default()
        .to_lowercase();

    // never let a library panic print a backtrace storm; the monitors catch panics and
    // report them as violations with the message in the signature
    let quiet_panics = args.get("verbose").is_none() && replay.is_none();
    if quiet_panics {
        std::panic::set_hook(Box::new(|_| {}));
    }

    let outcome = std::panic::catch_unwind(std::panic::AssertUnwindSafe(|| {
        let mut sum = Summary::default();
        match (check.as_str(), &replay) {
            ("c18", None) => c18::run(&args, &mut sum),
            ("c18", Some(r)) => c18::replay(r, &mut sum),
            ("c19", None) => c19::run(&args, &mut sum),
            ("c19", Some(r)) => c19::replay(r, &mut sum),
            ("c20", None) => c20::run(&args, &mut sum),
            ("c20", Some(r)) => c20::replay(r, &mut sum),
            _ => {
                eprintln!("usage: vq-dc --check c18|c19|c20 --seed S --iters N [--replay file.json]");
                std::process::exit(2);
            }
        }
        sum
    }));
    match outcome {
        Ok(s) => sum.merge(s),
        Err(p) => {
            // a panic of the harness' own bookkeeping is inconclusive, never a violation
            sum.inconclusive
                .push(format!("harness panic: {}", known::panic_text(p)));
        }
    }
    sum.print();
    // leave without running destructors of background runtimes/threads
    use std::io::Write as _;
    let _ = std::io::stdout().flush();
    std::process::exit(0);
}

fn serde_json_from_str(text: &str) -> Value {
    match text.parse::<Value>() {
        Ok(v) => v,
        Err(e) => {
            eprintln!("vq-dc: replay file is not JSON: {e}");
            std::process::exit(2);
        }
    }
}
