//! Known-secret machinery: insert a path-secret entry whose 32-byte export secret the
//! harness chose itself, **through the public handshake API only** (no hook in /repo):
//!
//! `Map: dc::Endpoint` -> `new_path()` -> `HandshakingPath: dc::Path` ->
//! `on_path_secrets_ready(&impl TlsSession)` (we are the TLS session, so the exporter
//! output is ours) -> `on_peer_stateless_reset_tokens()` (we choose the peer's token) ->
//! `on_dc_handshake_complete()`.
//!
//! The peer side is modelled by building `schedule::Secret` (public, doc-hidden) with the
//! same export secret and the opposite endpoint type, which yields the control sealer that
//! a genuine peer would use for StaleKey / ReplayDetected packets.

use s2n_quic_core::{
    crypto::tls::{ChainError, CipherSuite, TlsExportError, TlsSession},
    dc::{self, Endpoint as _, Path as _},
    endpoint,
    event::IntoEvent as _,
    inet,
    stateless_reset::Token,
};
use s2n_quic_dc::{
    credentials::Id,
    event,
    path::secret::{
        schedule::{Ciphersuite, Secret},
        stateless_reset::Signer,
        Map,
    },
};
use std::{
    net::SocketAddr,
    sync::{
        atomic::{AtomicU64, Ordering},
        Arc, Mutex,
    },
};

pub const TAG_LEN: usize = 16;

#[derive(Clone, Copy, Debug, PartialEq, Eq)]
pub enum Suite {
    Aes128,
    Aes256,
}

impl Suite {
    pub fn name(self) -> &'static str {
        match self {
            Suite::Aes128 => "aes128gcm_sha256",
            Suite::Aes256 => "aes256gcm_sha384",
        }
    }
    pub fn dc(self) -> Ciphersuite {
        match self {
            Suite::Aes128 => Ciphersuite::AES_GCM_128_SHA256,
            Suite::Aes256 => Ciphersuite::AES_GCM_256_SHA384,
        }
    }
    fn tls(self) -> CipherSuite {
        match self {
            Suite::Aes128 => CipherSuite::TLS_AES_128_GCM_SHA256,
            Suite::Aes256 => CipherSuite::TLS_AES_256_GCM_SHA384,
        }
    }
    pub fn pick(i: u64) -> Suite {
        if i & 1 == 0 {
            Suite::Aes128
        } else {
            Suite::Aes256
        }
    }
}

/// A "TLS session" whose exporter returns the harness' bytes.
struct FakeTls {
    secret: [u8; 32],
    suite: Suite,
}

impl TlsSession for FakeTls {
    fn tls_exporter(
        &self,
        _label: &[u8],
        _context: &[u8],
        output: &mut [u8],
    ) -> Result<(), TlsExportError> {
        if output.len() != 32 {
            return Err(TlsExportError::failure());
        }
        output.copy_from_slice(&self.secret);
        Ok(())
    }

    fn cipher_suite(&self) -> CipherSuite {
        self.suite.tls()
    }

    fn peer_cert_chain_der(&self) -> Result<Vec<Vec<u8>>, ChainError> {
        Ok(vec![])
    }

    fn client_cert_chain_der(&self) -> Result<Option<Vec<u8>>, ChainError> {
        Ok(None)
    }
}

pub fn flip(e: endpoint::Type) -> endpoint::Type {
    match e {
        endpoint::Type::Client => endpoint::Type::Server,
        endpoint::Type::Server => endpoint::Type::Client,
    }
}

/// The secret as the *peer* of `local` holds it (for sealing genuine packets to `local`).
pub fn peer_secret(secret: &[u8; 32], suite: Suite, local: endpoint::Type) -> Secret {
    Secret::new(suite.dc(), dc::SUPPORTED_VERSIONS[0], flip(local), secret)
}

pub fn local_secret(secret: &[u8; 32], suite: Suite, local: endpoint::Type) -> Secret {
    Secret::new(suite.dc(), dc::SUPPORTED_VERSIONS[0], local, secret)
}

pub struct Inserted {
    pub id: Id,
    /// what the victim map's signer produced for this id (the tag the victim would put on
    /// UnknownPathSecret packets it sends)
    pub local_token: [u8; TAG_LEN],
}

/// Insert an entry into `map` for `peer` with a caller-chosen export secret.
/// `peer_token` is the stateless-reset token the (simulated) peer announced, i.e. the tag
/// genuine UnknownPathSecret packets from that peer carry.
pub fn insert_known(
    map: &Map,
    peer: SocketAddr,
    secret: &[u8; 32],
    suite: Suite,
    local: endpoint::Type,
    peer_token: [u8; TAG_LEN],
    params: dc::ApplicationParams,
) -> Inserted {
    let addr: inet::SocketAddress = peer.into();
    let endpoint_type = match local {
        endpoint::Type::Client => s2n_quic_core::event::builder::EndpointType::Client,
        endpoint::Type::Server => s2n_quic_core::event::builder::EndpointType::Server,
    }
    .into_event();
    let info = dc::ConnectionInfo::new(&addr, dc::SUPPORTED_VERSIONS[0], params, endpoint_type);
    let mut m = map.clone();
    let mut path = m.new_path(&info).expect("new_path");
    let tokens = path
        .on_path_secrets_ready(&FakeTls {
            secret: *secret,
            suite,
        })
        .expect("on_path_secrets_ready");
    let local_token = tokens[0].into_inner();
    let peer_token = Token::from(peer_token);
    path.on_peer_stateless_reset_tokens([peer_token].iter());
    path.on_dc_handshake_complete();
    let id = *path.entry().expect("entry").id();
    Inserted { id, local_token }
}

/// Event recorder: every endpoint/connection event's NAME (and Debug text) in order.
#[derive(Clone, Default)]
pub struct Recorder {
    pub log: Arc<Mutex<Vec<(&'static str, String)>>>,
    pub total: Arc<AtomicU64>,
    /// keep the Debug text (slower) or just the names
    pub verbose: bool,
}

impl Recorder {
    pub fn new(verbose: bool) -> Self {
        Self {
            verbose,
            ..Default::default()
        }
    }
    pub fn take(&self) -> Vec<(&'static str, String)> {
        std::mem::take(&mut *self.log.lock().unwrap())
    }
    pub fn len(&self) -> usize {
        self.log.lock().unwrap().len()
    }
}

impl event::Subscriber for Recorder {
    type ConnectionContext = ();

    fn create_connection_context(
        &self,
        _meta: &event::api::ConnectionMeta,
        _info: &event::api::ConnectionInfo,
    ) -> Self::ConnectionContext {
    }

    fn on_event<M: event::Meta, E: event::Event>(&self, _meta: &M, event: &E) {
        self.total.fetch_add(1, Ordering::Relaxed);
        let text = if self.verbose {
            format!("{event:?}")
        } else {
            String::new()
        };
        self.log.lock().unwrap().push((E::NAME, text));
    }
}

pub fn new_map(capacity: usize, evict_on_ups: bool, rec: &Recorder, signer_key: &[u8]) -> Map {
    Map::new(
        Signer::new(signer_key),
        capacity,
        evict_on_ups,
        s2n_quic_core::time::StdClock::default(),
        rec.clone(),
    )
}

pub fn test_params() -> dc::ApplicationParams {
    dc::testing::TEST_APPLICATION_PARAMS
}

/// keep s2n-quic-dc's tracing output away from stdout (it installs a fmt subscriber with
/// the test writer = stdout; our stdout carries exactly one SUMMARY line)
pub fn quiet_tracing() {
    if std::env::var_os("S2N_LOG").is_none() {
        std::env::set_var("S2N_LOG", "off");
    }
    std::env::remove_var("CI");
}

pub fn panic_text(p: Box<dyn std::any::Any + Send>) -> String {
    if let Some(s) = p.downcast_ref::<&str>() {
        s.to_string()
    } else if let Some(s) = p.downcast_ref::<String>() {
        s.clone()
    } else {
        "<non-string panic>".to_string()
    }
}

/// short stable text for a panic message (first line, digits collapsed)
pub fn panic_sig(msg: &str) -> String {
    let first = msg.lines().next().unwrap_or("");
    let mut out = String::new();
    let mut last_digit = false;
    for c in first.chars().take(80) {
        if c.is_ascii_digit() {
            if !last_digit {
                out.push('#');
            }
            last_digit = true;
        } else {
            last_digit = false;
            out.push(if c == ' ' { '_' } else { c });
        }
    }
    out
}

/// record a violation, keeping at most `max_per_sig` witnesses per signature in this process
/// (the summary's violation list is capped; a recurring finding must not crowd out others)
pub fn push_violation(sum: &mut vq_util::Summary, v: vq_util::Violation, max_per_sig: usize) {
    let n = sum.violations.iter().filter(|x| x.signature == v.signature).count();
    if n < max_per_sig {
        sum.violation(v);
    } else {
        sum.count("violations_deduplicated", 1);
    }
}
