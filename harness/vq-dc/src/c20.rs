//! C20 — dc: streams deliver bytes exactly, or fail promptly with an error.
//!
//! UDP transport: `stream::testing::{Client, Server}` inside the bach discrete-event
//! simulator with a seeded faulty network (random / burst / k-th packet drops through
//! `bach::net::monitor` = `Command::Drop`, duplication and per-packet jitter reordering
//! through a custom `bach::environment::net::queue::Allocator`).
//! TCP transport: the same `Client`/`Server` over real loopback sockets under tokio.
//!
//! Oracle (independent of the crate's test helpers): every direction of every stream is a
//! position-keyed PRF stream (`vq_util::prf_*`); the reader checks every byte at its
//! absolute position, EOF is only legal at the exact length the writer finished at, and a
//! watchdog flags operations that are still pending after the deadline (virtual time in the
//! simulator).

use crate::known;
use bach::{
    environment::net::{
        ip::{Packet, Segments},
        monitor::List as Monitors,
        pcap,
        queue::{Allocator, Dispatch, PacketQueue},
    },
    ext::*,
    group::Group,
    net::monitor::{Command, Operation},
    queue::vec_deque,
};
use s2n_quic_dc::stream::testing::{Client, Server, Stream};
use std::{
    collections::BTreeMap,
    net::{IpAddr, SocketAddr},
    sync::{Arc, Mutex},
    time::Duration,
};
use tokio::io::{AsyncReadExt, AsyncWriteExt};
use vq_util::{json, mix, prf_check, prf_fill, Rng, Summary, Value, Violation};

const IDLE_TIMEOUT: Duration = Duration::from_secs(30);
const VANISH_SLACK: Duration = Duration::from_secs(5);
const LIVE_DEADLINE: Duration = Duration::from_secs(180);
/// CPU-time budget for one simulated scenario (cooperative: checked from the packet monitor)
const WALL_BUDGET_TAG: &str = "VQ_WALL_BUDGET";
const SIM_DONE_TAG: &str = "VQ_SIM_DONE";
const SIM_OVERRUN_TAG: &str = "VQ_SIM_OVERRUN";

// ---------------------------------------------------------------------------------------
// scenario description (fully serialisable: a replay file carries the whole scenario)
// ---------------------------------------------------------------------------------------

#[derive(Clone, Debug, Default)]
pub struct NetSpec {
    pub loss_ppm: u32,
    /// (first packet index, count): drop a contiguous run of packets
    pub burst: Option<(u64, u64)>,
    /// drop exactly these packet indices (global send order)
    pub drop_kth: Vec<u64>,
    pub dup_ppm: u32,
    /// probability (ppm) that, in addition to the genuine datagram, a copy with a few flipped
    /// header bytes is delivered (an on-path forger that cannot produce a valid tag)
    pub forge_ppm: u32,
    /// 0 = flip 1-3 bits among the first 48 bytes (class `forged_copies`); 1 = targeted
    /// forgeries (class `forged_targeted`): one flipped bit in the tag, in the encrypted
    /// payload / control data, or value bits of the stream-offset field raised so that the copy
    /// still parses as the same stream packet far beyond the receive window
    pub forge_mode: u8,
    /// probability (ppm) that a forged copy is delivered *before* the genuine datagram
    pub forge_first_ppm: u32,
    pub latency_us: u64,
    pub jitter_us: u64,
    pub net_seed: u64,
    /// 1 = blackhole, 2 = mute server: the peer vanishes (no later than the scenario's
    /// vanish_at_us) right behind the first stream packet that announces a final offset
    /// while an earlier packet of the same sender was lost - the receiver then knows the
    /// size of the stream and still has a gap
    pub vanish_on_fin: u8,
}

#[derive(Clone, Copy, Debug, PartialEq, Eq)]
pub enum Finish {
    Shutdown,
    Drop,
}

#[derive(Clone, Debug)]
pub struct HalfPlan {
    /// bytes this side writes
    pub write_len: u64,
    pub write_chunk: usize,
    pub finish: Finish,
    /// stop writing (and finish) after this many bytes instead of write_len
    pub write_stop_at: Option<u64>,
    /// largest single read
    pub max_read: usize,
    /// drop the reader after this many bytes
    pub read_stop_at: Option<u64>,
    /// pause (us) every `pause_every` operations
    pub pause_us: u64,
    pub pause_every: u32,
    /// only start writing once the own reader has finished (request/response server)
    pub write_after_read: bool,
    /// 0: tokio AsyncWrite::write; 1: Writer::write_from on a Bytes buffer; 2: like 1 and the
    /// final chunk carries the FIN (write_all_from_fin) instead of a separate shutdown
    pub write_api: u8,
}

#[derive(Clone, Debug)]
pub struct StreamSpec {
    pub start_us: u64,
    pub client: HalfPlan,
    pub server: HalfPlan,
}

#[derive(Clone, Copy, Debug, PartialEq, Eq)]
pub enum VanishKind {
    None,
    /// nothing gets through in either direction from t0
    Blackhole,
    /// every packet sent by the server is lost from t0
    ServerMute,
    /// the server forgets all path secrets at t0; streams opened afterwards must fail
    DropState,
}

impl VanishKind {
    fn name(self) -> &'static str {
        match self {
            VanishKind::None => "none",
            VanishKind::Blackhole => "blackhole",
            VanishKind::ServerMute => "server_mute",
            VanishKind::DropState => "drop_state",
        }
    }
    fn from_name(s: &str) -> Self {
        match s {
            "blackhole" => VanishKind::Blackhole,
            "server_mute" => VanishKind::ServerMute,
            "drop_state" => VanishKind::DropState,
            _ => VanishKind::None,
        }
    }
}

#[derive(Clone, Debug)]
pub struct Scenario {
    pub transport: &'static str,
    pub class: String,
    pub net: NetSpec,
    pub client_mtu: Option<u16>,
    pub server_mtu: Option<u16>,
    pub streams: Vec<StreamSpec>,
    pub vanish: VanishKind,
    pub vanish_at_us: u64,
    pub key: u64,
}

fn half_json(h: &HalfPlan) -> Value {
    json!({"write_len":h.write_len,"write_chunk":h.write_chunk,"finish": if h.finish==Finish::Shutdown {"shutdown"} else {"drop"},
        "write_stop_at":h.write_stop_at,"max_read":h.max_read,"read_stop_at":h.read_stop_at,"pause_us":h.pause_us,"pause_every":h.pause_every,
        "write_after_read":h.write_after_read,"write_api":h.write_api})
}

fn half_from(v: &Value) -> HalfPlan {
    HalfPlan {
        write_len: v["write_len"].as_u64().unwrap_or(0),
        write_chunk: v["write_chunk"].as_u64().unwrap_or(1024) as usize,
        finish: if v["finish"].as_str() == Some("drop") { Finish::Drop } else { Finish::Shutdown },
        write_stop_at: v["write_stop_at"].as_u64(),
        max_read: v["max_read"].as_u64().unwrap_or(4096) as usize,
        read_stop_at: v["read_stop_at"].as_u64(),
        pause_us: v["pause_us"].as_u64().unwrap_or(0),
        pause_every: v["pause_every"].as_u64().unwrap_or(0) as u32,
        write_api: v["write_api"].as_u64().unwrap_or(0) as u8,
        write_after_read: v["write_after_read"].as_bool().unwrap_or(false),
    }
}

pub fn scenario_json(s: &Scenario) -> Value {
    json!({"transport": s.transport, "class": s.class, "key": s.key,
        "net": {"loss_ppm": s.net.loss_ppm, "burst": s.net.burst.map(|(a,b)| vec![a,b]), "drop_kth": s.net.drop_kth, "dup_ppm": s.net.dup_ppm, "forge_ppm": s.net.forge_ppm, "forge_mode": s.net.forge_mode, "forge_first_ppm": s.net.forge_first_ppm,
                "latency_us": s.net.latency_us, "jitter_us": s.net.jitter_us, "net_seed": s.net.net_seed, "vanish_on_fin": s.net.vanish_on_fin},
        "client_mtu": s.client_mtu, "server_mtu": s.server_mtu,
        "vanish": s.vanish.name(), "vanish_at_us": s.vanish_at_us,
        "streams": s.streams.iter().map(|st| json!({"start_us": st.start_us, "client": half_json(&st.client), "server": half_json(&st.server)})).collect::<Vec<_>>()})
}

pub fn scenario_from(v: &Value) -> Scenario {
    let n = &v["net"];
    Scenario {
        transport: if v["transport"].as_str() == Some("tcp") { "tcp" } else { "udp" },
        class: v["class"].as_str().unwrap_or("replay").to_string(),
        key: v["key"].as_u64().unwrap_or(1),
        net: NetSpec {
            loss_ppm: n["loss_ppm"].as_u64().unwrap_or(0) as u32,
            burst: n["burst"].as_array().and_then(|a| Some((a.first()?.as_u64()?, a.get(1)?.as_u64()?))),
            drop_kth: n["drop_kth"].as_array().map(|a| a.iter().filter_map(|x| x.as_u64()).collect()).unwrap_or_default(),
            dup_ppm: n["dup_ppm"].as_u64().unwrap_or(0) as u32,
            forge_ppm: n["forge_ppm"].as_u64().unwrap_or(0) as u32,
            forge_mode: n["forge_mode"].as_u64().unwrap_or(0) as u8,
            forge_first_ppm: n["forge_first_ppm"].as_u64().unwrap_or(0) as u32,
            latency_us: n["latency_us"].as_u64().unwrap_or(500),
            jitter_us: n["jitter_us"].as_u64().unwrap_or(0),
            net_seed: n["net_seed"].as_u64().unwrap_or(1),
            vanish_on_fin: n["vanish_on_fin"].as_u64().unwrap_or(0) as u8,
        },
        client_mtu: v["client_mtu"].as_u64().map(|x| x as u16),
        server_mtu: v["server_mtu"].as_u64().map(|x| x as u16),
        vanish: VanishKind::from_name(v["vanish"].as_str().unwrap_or("none")),
        vanish_at_us: v["vanish_at_us"].as_u64().unwrap_or(0),
        streams: v["streams"].as_array().map(|a| a.iter().map(|s| StreamSpec {
            start_us: s["start_us"].as_u64().unwrap_or(0), client: half_from(&s["client"]), server: half_from(&s["server"]) }).collect()).unwrap_or_default(),
    }
}

// ---------------------------------------------------------------------------------------
// scenario generation
// ---------------------------------------------------------------------------------------

fn gen_size(rng: &mut Rng, big_ok: bool) -> u64 {
    match rng.below(20) {
        0 => 0,
        1 => 1,
        2..=7 => rng.range(2, 2000),
        8..=13 => rng.range(2000, 40_000),
        14..=17 => rng.range(40_000, 400_000),
        18 => rng.range(400_000, 2_000_000),
        _ => {
            if big_ok {
                rng.range(2_000_000, 10_000_000)
            } else {
                rng.range(400_000, 1_000_000)
            }
        }
    }
}

fn gen_half(rng: &mut Rng, big_ok: bool, faults_ok: bool) -> HalfPlan {
    let write_len = gen_size(rng, big_ok);
    let max_read = match rng.below(5) {
        0 => rng.range(1, 16),
        1 => rng.range(16, 1024),
        2 => rng.range(1024, 9000),
        _ => rng.range(9000, 65536),
    } as usize;
    // tiny reads of a big stream would only burn harness time
    let max_read = if write_len > 200_000 { max_read.max(2048) } else { max_read };
    let write_chunk = match rng.below(4) {
        0 => rng.range(1, 100),
        1 => rng.range(100, 2000),
        2 => rng.range(2000, 20_000),
        _ => rng.range(20_000, 200_000),
    } as usize;
    let write_chunk = if write_len > 200_000 { write_chunk.max(4096) } else { write_chunk };
    let mut h = HalfPlan {
        write_len,
        write_chunk,
        finish: if rng.chance(3, 4) { Finish::Shutdown } else { Finish::Drop },
        write_stop_at: None,
        max_read,
        read_stop_at: None,
        pause_us: if rng.chance(1, 3) { rng.range(1, 3000) } else { 0 },
        pause_every: rng.range(1, 20) as u32,
        write_after_read: false,
        write_api: *rng.pick(&[0u8, 0, 1, 2, 2]),
    };
    if faults_ok && write_len > 0 && rng.chance(1, 10) {
        h.write_stop_at = Some(rng.below(write_len));
        h.finish = Finish::Drop;
    }
    h
}

/// Bound the number of application operations per direction: every tiny write is a packet of
/// its own and every tiny read makes the receiver emit a control packet, so a 6 MB stream read
/// 3 bytes at a time is two million control packets at one virtual instant — legal, but it only
/// measures the simulator. (Tiny operations on small streams stay in the workload.)
fn bound_ops(own: &mut HalfPlan, peer_write_len: u64) {
    own.max_read = own.max_read.max((peer_write_len / 20_000 + 1) as usize);
    own.write_chunk = own.write_chunk.max((own.write_len / 5_000 + 1) as usize);
}

/// Application think-time must stay far below the 30 s idle timeout: a stream on which no
/// packet flows for 30 s (e.g. a flow-blocked sender waiting for a reader that sleeps between
/// 1-byte reads) times out by design — there is no keep-alive — and that is not what C20 is about.
fn cap_think_time(own: &mut HalfPlan, peer_write_len: u64) {
    const BUDGET_US: u64 = 3_000_000;
    if own.pause_us == 0 || own.pause_every == 0 {
        return;
    }
    let read_ops = peer_write_len / own.max_read.max(1) as u64 + 1;
    let write_ops = own.write_len / own.write_chunk.max(1) as u64 + 1;
    let pauses = (read_ops.max(write_ops)) / own.pause_every as u64 + 1;
    if pauses * own.pause_us > BUDGET_US {
        own.pause_us = BUDGET_US / pauses;
    }
}

const SIM_CLASSES: &[&str] = &[
    "clean",
    "random_loss",
    "burst_loss",
    "kth_drop",
    "dup_reorder",
    "loss_dup_reorder",
    "forged_copies",
    "forged_targeted",
    "early_drop",
    "vanish_blackhole",
    "vanish_server_mute",
    "vanish_drop_state",
];

pub fn gen_sim_scenario(seed: u64, case: u64, only: Option<&str>, heavy_reorder: bool) -> Scenario {
    let mut rng = Rng::new(mix(seed, 0x2000_0000 + case));
    let class = match only {
        Some(c) => c.to_string(),
        None => {
            // weights: the fault classes dominate
            let w = [1u64, 5, 2, 4, 2, 3, 3, 4, 2, 2, 1, 1];
            let total: u64 = w.iter().sum();
            let mut x = rng.below(total);
            let mut idx = 0;
            for (i, wi) in w.iter().enumerate() {
                if x < *wi {
                    idx = i;
                    break;
                }
                x -= wi;
            }
            SIM_CLASSES[idx].to_string()
        }
    };
    let mut net = NetSpec { latency_us: 500, net_seed: rng.next(), ..Default::default() };
    let mut vanish = VanishKind::None;
    let mut vanish_at_us = 0;
    let mut n_streams = match rng.below(6) {
        0..=2 => 1,
        3..=4 => rng.range(2, 3),
        _ => rng.range(4, 6),
    } as usize;
    let mut big_ok = true;
    let mut faults_ok = false;
    match class.as_str() {
        "clean" => {}
        "random_loss" => {
            net.loss_ppm = *rng.pick(&[1_000u32, 10_000, 30_000, 50_000, 100_000, 150_000, 200_000, 300_000]);
            big_ok = net.loss_ppm <= 50_000;
        }
        "burst_loss" => {
            net.burst = Some((rng.below(60), rng.range(2, 40)));
            if rng.chance(1, 2) {
                net.loss_ppm = 10_000;
            }
        }
        "kth_drop" => {
            // small flows; `case` enumerates k
            n_streams = 1;
            net.drop_kth = vec![case % 48];
            if rng.chance(1, 4) {
                net.drop_kth.push((case / 48) % 48);
            }
        }
        "forged_copies" => {
            // nothing is lost: every genuine datagram arrives, some accompanied by a forgery
            net.forge_ppm = *rng.pick(&[20_000u32, 100_000, 400_000, 1_000_000]);
            net.jitter_us = *rng.pick(&[0u64, 100, 300]);
        }
        "forged_targeted" => {
            // nothing is lost either; the forgeries are aimed: see NetSpec::forge_mode
            net.forge_mode = 1;
            net.forge_ppm = *rng.pick(&[100_000u32, 400_000, 1_000_000, 1_000_000]);
            net.forge_first_ppm = *rng.pick(&[0u32, 500_000, 1_000_000, 1_000_000]);
            net.jitter_us = *rng.pick(&[0u64, 0, 100, 300]);
        }
        "dup_reorder" => {
            net.dup_ppm = *rng.pick(&[10_000u32, 100_000, 300_000, 1_000_000]);
            // jitter beyond the RTT (1 ms) reorders by many packets; see README "F4" for why
            // that is opt-in (--heavy-reorder 1)
            net.jitter_us = if heavy_reorder { *rng.pick(&[500u64, 2000, 10_000]) } else { *rng.pick(&[0u64, 100, 300, 500]) };
        }
        "loss_dup_reorder" => {
            net.loss_ppm = *rng.pick(&[10_000u32, 50_000, 100_000, 200_000]);
            net.dup_ppm = *rng.pick(&[0u32, 50_000, 200_000]);
            net.jitter_us = if heavy_reorder { *rng.pick(&[1000u64, 5000]) } else { *rng.pick(&[100u64, 300, 500]) };
            big_ok = false;
        }
        "early_drop" => {
            faults_ok = true;
            if rng.chance(1, 2) {
                net.loss_ppm = 20_000;
            }
        }
        "vanish_blackhole" => {
            vanish = VanishKind::Blackhole;
            // the peer disappears while the stream has holes: some packets were lost before
            if rng.chance(1, 2) {
                net.loss_ppm = *rng.pick(&[10_000u32, 50_000, 150_000]);
                if rng.chance(1, 2) {
                    net.vanish_on_fin = 1;
                }
            }
        }
        "vanish_server_mute" => {
            vanish = VanishKind::ServerMute;
            if rng.chance(1, 2) {
                net.loss_ppm = *rng.pick(&[10_000u32, 50_000, 150_000]);
                if rng.chance(1, 2) {
                    net.vanish_on_fin = 2;
                }
            }
        }
        _ => {
            vanish = VanishKind::DropState;
        }
    }
    let mut streams = Vec::new();
    for i in 0..n_streams {
        let mut client = gen_half(&mut rng, big_ok && n_streams == 1, faults_ok);
        let mut server = gen_half(&mut rng, big_ok && n_streams == 1, faults_ok);
        if class == "kth_drop" {
            client.write_len = rng.range(0, 12_000);
            server.write_len = rng.range(0, 12_000);
        }
        server.write_after_read = rng.chance(1, 2);
        if faults_ok && rng.chance(1, 3) {
            // stop reading early and drop the stream half
            if rng.chance(1, 2) && server.write_len > 0 {
                client.read_stop_at = Some(rng.below(server.write_len));
            } else if client.write_len > 0 {
                server.read_stop_at = Some(rng.below(client.write_len));
                server.write_after_read = false;
            }
        }
        if net.jitter_us >= 1000 || net.dup_ppm >= 300_000 {
            // heavy reordering makes every ACK carry hundreds of ranges (~1.1 KB control packets
            // per data packet): correct but very slow to simulate, so keep these flows small
            client.write_len = client.write_len.min(120_000);
            server.write_len = server.write_len.min(120_000);
        }
        if vanish != VanishKind::None {
            // make sure something is still in flight when the peer vanishes
            client.write_len = client.write_len.max(rng.range(200_000, 3_000_000));
            server.write_len = server.write_len.max(rng.range(1000, 3_000_000));
            client.write_chunk = client.write_chunk.max(4096);
            server.write_chunk = server.write_chunk.max(4096);
            client.max_read = client.max_read.max(2048);
            server.max_read = server.max_read.max(2048);
            client.pause_us = 0;
            server.pause_us = 0;
        }
        let (cw, sw) = (client.write_len, server.write_len);
        bound_ops(&mut client, sw);
        bound_ops(&mut server, cw);
        cap_think_time(&mut client, sw);
        cap_think_time(&mut server, cw);
        streams.push(StreamSpec { start_us: if i == 0 { 0 } else { rng.below(5000) }, client, server });
    }
    if vanish != VanishKind::None {
        vanish_at_us = rng.range(500, 6000);
    }
    if net.vanish_on_fin != 0 {
        // transfers short enough to reach their end; the scheduled time is only the backstop
        vanish_at_us = rng.range(50_000, 400_000);
        for s in streams.iter_mut() {
            s.client.write_len = rng.range(3000, 150_000);
            s.server.write_len = rng.range(3000, 150_000);
        }
    }
    let pick_mtu = |rng: &mut Rng| match rng.below(4) {
        0 => None,
        1 => Some(1250u16),
        2 => Some(rng.range(1250, 1500) as u16),
        _ => Some(rng.range(1500, 8940) as u16),
    };
    Scenario {
        transport: "udp",
        class,
        net,
        client_mtu: pick_mtu(&mut rng),
        server_mtu: pick_mtu(&mut rng),
        streams,
        vanish,
        vanish_at_us,
        key: rng.next(),
    }
}

pub fn gen_tcp_scenario(seed: u64, case: u64) -> Scenario {
    let mut rng = Rng::new(mix(seed, 0x2100_0000 + case));
    let class = *rng.pick(&["tcp_clean", "tcp_clean", "tcp_early_drop", "tcp_small_reads"]);
    let n_streams = rng.range(1, 4) as usize;
    let mut streams = Vec::new();
    for _ in 0..n_streams {
        let mut client = gen_half(&mut rng, false, class == "tcp_early_drop");
        let mut server = gen_half(&mut rng, false, class == "tcp_early_drop");
        client.write_len = client.write_len.min(1_000_000);
        server.write_len = server.write_len.min(1_000_000);
        if class == "tcp_small_reads" {
            client.max_read = rng.range(1, 64) as usize;
            server.max_read = rng.range(1, 64) as usize;
            client.write_len = client.write_len.min(20_000);
            server.write_len = server.write_len.min(20_000);
        }
        // real time: tokio timers have ~1 ms granularity and every read is a syscall
        client.pause_us = if client.pause_us > 0 { 1000 } else { 0 };
        server.pause_us = if server.pause_us > 0 { 1000 } else { 0 };
        let max_ops = 8_000u64;
        server.write_len = server.write_len.min(client.max_read as u64 * max_ops);
        client.write_len = client.write_len.min(server.max_read as u64 * max_ops);
        client.pause_every = client.pause_every.max(4);
        server.pause_every = server.pause_every.max(4);
        server.write_after_read = rng.chance(1, 2);
        if class == "tcp_early_drop" && rng.chance(1, 2) && server.write_len > 0 {
            // Time is real here: a writer whose peer stopped reading blocks on TCP flow control
            // until the 30 s idle timeout. Keep the unread remainder small enough for the
            // socket buffers so the scenario stays fast (the long variant runs in the simulator).
            let lo = server.write_len.saturating_sub(16_000);
            client.read_stop_at = Some(rng.range(lo, server.write_len - 1));
        }
        let (cw, sw) = (client.write_len, server.write_len);
        bound_ops(&mut client, sw);
        bound_ops(&mut server, cw);
        cap_think_time(&mut client, sw);
        cap_think_time(&mut server, cw);
        streams.push(StreamSpec { start_us: 0, client, server });
    }
    Scenario {
        transport: "tcp",
        class: class.to_string(),
        net: NetSpec::default(),
        client_mtu: None,
        server_mtu: None,
        streams,
        vanish: VanishKind::None,
        vanish_at_us: 0,
        key: rng.next(),
    }
}

// ---------------------------------------------------------------------------------------
// network control: shared by the bach monitor (drops) and the queue allocator (delay/dup)
// ---------------------------------------------------------------------------------------

#[derive(Default, Debug, Clone)]
pub struct NetStats {
    pub sent: u64,
    pub dropped_random: u64,
    pub dropped_burst: u64,
    pub dropped_kth: u64,
    pub dropped_vanish: u64,
    pub vanished_behind_fin: u64,
    pub duplicated: u64,
    pub forged: u64,
    pub forged_kinds: BTreeMap<&'static str, u64>,
    pub reordered: u64,
    pub bytes: u64,
}

impl NetStats {
    fn count_forgery(&mut self, kind: &'static str) {
        *self.forged_kinds.entry(kind).or_insert(0) += 1;
    }
}

/// What an on-path forger without the key can do best: keep the datagram parseable and change
/// exactly one thing. Returns the kind of forgery made. None of the results can carry a valid
/// tag (AEAD covers header, payload and control data).
fn forge_targeted(bytes: &mut Vec<u8>, r: &mut Rng) -> &'static str {
    use s2n_quic_dc::packet;
    let n = bytes.len();
    if n < 17 {
        if n > 0 {
            bytes[n - 1] ^= 1;
        }
        return "tiny";
    }
    struct Hdr {
        stream: bool,
        key_id: u64,
        pn: u64,
        offset: u64,
        fin: Option<u64>,
        payload: usize,
        ctl: usize,
        retx: bool,
    }
    fn parse(b: &[u8]) -> Option<Hdr> {
        let mut copy = b.to_vec();
        let d = s2n_codec::DecoderBufferMut::new(&mut copy);
        match d.decode_parameterized::<packet::Packet>(16) {
            Ok((packet::Packet::Stream(s), _)) => Some(Hdr {
                stream: true,
                key_id: s.credentials().key_id.as_u64(),
                pn: s.packet_number().as_u64(),
                offset: s.stream_offset().as_u64(),
                fin: s.final_offset().map(|v| v.as_u64()),
                payload: s.payload().len(),
                ctl: s.control_data().len(),
                retx: s.is_retransmission(),
            }),
            Ok((packet::Packet::Control(c), _)) => Some(Hdr { stream: false, key_id: c.credentials().key_id.as_u64(), pn: c.packet_number().as_u64(), offset: 0, fin: None, payload: 0, ctl: c.control_data().len(), retx: false }),
            _ => None,
        }
    }
    let orig = parse(bytes);
    let choice = r.below(4);
    if let Some(h) = &orig {
        if h.stream && choice == 0 {
            // raise value bits of the offset field: same packet, same stream, same packet
            // number, same lengths - only the place in the stream changes
            let mut best: Option<(usize, u8, u64)> = None;
            for i in 1..n.min(64) {
                let old = bytes[i];
                let mut cands = [0u8; 9];
                for b in 0..8 {
                    cands[b] = old ^ (1 << b);
                }
                cands[8] = old | 0x3f;
                for &c in cands.iter() {
                    if c == old {
                        continue;
                    }
                    bytes[i] = c;
                    if let Some(m) = parse(bytes) {
                        if m.stream && m.key_id == h.key_id && m.pn == h.pn && m.fin == h.fin && m.payload == h.payload && m.ctl == h.ctl && m.retx == h.retx && m.offset > h.offset + 100_000 && best.map_or(true, |(_, _, o)| m.offset > o) {
                            best = Some((i, c, m.offset));
                        }
                    }
                }
                bytes[i] = old;
            }
            if let Some((i, c, _)) = best {
                bytes[i] = c;
                return "stream_offset_jump";
            }
        }
        let body = h.payload + h.ctl;
        if choice == 1 && body > 0 && n >= 16 + body {
            // one bit of the encrypted payload / the control data in front of the tag
            let i = n - 16 - 1 - r.below(body as u64) as usize;
            bytes[i] ^= 1 << r.below(8);
            return if h.stream { "stream_body_bit" } else { "control_body_bit" };
        }
        let i = n - 1 - r.below(16) as usize;
        bytes[i] ^= 1 << r.below(8);
        return if h.stream { "stream_tag_bit" } else { "control_tag_bit" };
    }
    let i = n - 1 - r.below(16) as usize;
    bytes[i] ^= 1 << r.below(8);
    "other_tag_bit"
}

pub struct NetCtl {
    spec: NetSpec,
    rng: Rng,
    server_ip: Option<IpAddr>,
    blackhole: bool,
    server_mute: bool,
    index: u64,
    last_delivery_us: BTreeMap<SocketAddr, u64>,
    lost_from: Vec<IpAddr>,
    pub stats: NetStats,
    cpu_start: Duration,
    wall_budget: Duration,
}

impl NetCtl {
    fn new(spec: NetSpec, wall_budget: Duration) -> Self {
        let rng = Rng::new(spec.net_seed);
        NetCtl { spec, rng, server_ip: None, blackhole: false, server_mute: false, index: 0, last_delivery_us: BTreeMap::new(), lost_from: Vec::new(), stats: NetStats::default(), cpu_start: thread_cpu_time(), wall_budget }
    }

    /// monitor decision for one sent packet
    fn on_sent(&mut self, p: &Packet) -> Command {
        let idx = self.index;
        self.index += 1;
        self.stats.sent += 1;
        if idx % 512 == 0 && thread_cpu_time().saturating_sub(self.cpu_start) > self.wall_budget {
            // cooperative abort of a simulation that burns wall-clock time (caught by the
            // scenario runner and reported as inconclusive, never as a violation)
            panic!(
                "{WALL_BUDGET_TAG}: CPU budget of {} s (this scenario's thread) exhausted at virtual {} ms after {} packets (wire_bytes={} bytes on the wire, {} duplicated, {} dropped; last packet: {})",
                self.wall_budget.as_secs(),
                now_us() / 1000,
                self.stats.sent,
                self.stats.bytes,
                self.stats.duplicated,
                self.stats.dropped_random + self.stats.dropped_burst + self.stats.dropped_kth,
                describe_packet(p)
            );
        }
        self.stats.bytes += p.transport.payload().len() as u64;
        let trace = TRACE_PACKETS.load(std::sync::atomic::Ordering::Relaxed);
        let cmd = self.decide(p, idx);
        if trace {
            eprintln!("[pkt] t={}us #{idx} {} {}", now_us(), describe_packet(p), if cmd.is_drop() { "DROPPED" } else { "" });
        }
        cmd
    }

    fn decide(&mut self, p: &Packet, idx: u64) -> Command {
        if self.blackhole || (self.server_mute && Some(p.source().ip()) == self.server_ip) {
            self.stats.dropped_vanish += 1;
            return Command::Drop;
        }
        if self.spec.drop_kth.contains(&idx) {
            self.stats.dropped_kth += 1;
            return Command::Drop;
        }
        if let Some((start, len)) = self.spec.burst {
            if idx >= start && idx < start + len {
                self.stats.dropped_burst += 1;
                return Command::Drop;
            }
        }
        if self.spec.loss_ppm > 0 && self.rng.below(1_000_000) < self.spec.loss_ppm as u64 {
            self.stats.dropped_random += 1;
            if self.spec.vanish_on_fin != 0 && !self.lost_from.contains(&p.source().ip()) {
                self.lost_from.push(p.source().ip());
            }
            return Command::Drop;
        }
        if self.spec.vanish_on_fin != 0 && self.lost_from.contains(&p.source().ip()) && announces_final_offset(p) {
            // this packet still gets through, nothing after it does
            if self.spec.vanish_on_fin == 1 {
                self.blackhole = true;
            } else if Some(p.source().ip()) == self.server_ip {
                self.server_mute = true;
            }
            if self.blackhole || self.server_mute {
                self.stats.vanished_behind_fin += 1;
            }
        }
        Command::Pass
    }

    /// delivery delays (one entry per copy) for a packet that passed the monitor
    fn plan(&mut self, p: &Packet, now_us: u64) -> Vec<(Duration, Option<u64>)> {
        let mut copies = 1;
        if self.spec.dup_ppm > 0 && self.rng.below(1_000_000) < self.spec.dup_ppm as u64 {
            copies = 2;
            self.stats.duplicated += 1;
        }
        let mut forged = None;
        if self.spec.forge_ppm > 0 && self.rng.below(1_000_000) < self.spec.forge_ppm as u64 {
            forged = Some(self.rng.next());
            self.stats.forged += 1;
            copies += 1;
        }
        let mut v = Vec::with_capacity(copies);
        for c in 0..copies {
            let j = if self.spec.jitter_us > 0 { self.rng.below(self.spec.jitter_us + 1) } else { 0 };
            let mut d = self.spec.latency_us + j;
            if c + 1 == copies && forged.is_some() && self.spec.forge_first_ppm > 0 && self.rng.below(1_000_000) < self.spec.forge_first_ppm as u64 {
                // the forger is closer to the receiver than the sender is
                d = self.spec.latency_us / 2;
            }
            let at = now_us + d;
            let last = self.last_delivery_us.entry(p.destination()).or_insert(0);
            if at < *last {
                self.stats.reordered += 1;
            } else {
                *last = at;
            }
            // the last copy is the forgery, if there is one
            v.push((Duration::from_micros(d), if c + 1 == copies { forged } else { None }));
        }
        v
    }
}

type SharedNet = Arc<Mutex<NetCtl>>;

/// CPU time consumed by the calling thread: the per-scenario budget must not depend on how
/// loaded the machine is (16 shards plus other builders share it)
fn thread_cpu_time() -> Duration {
    let mut ts = libc::timespec { tv_sec: 0, tv_nsec: 0 };
    // SAFETY: plain syscall writing into a local
    let rc = unsafe { libc::clock_gettime(libc::CLOCK_THREAD_CPUTIME_ID, &mut ts) };
    if rc != 0 {
        return Duration::ZERO;
    }
    Duration::new(ts.tv_sec as u64, ts.tv_nsec as u32)
}


/// one-line description of a dc packet on the simulated wire (replay / --trace only)
fn announces_final_offset(p: &Packet) -> bool {
    use s2n_quic_dc::packet;
    let mut bytes = p.transport.payload().to_vec();
    let d = s2n_codec::DecoderBufferMut::new(&mut bytes);
    matches!(d.decode_parameterized::<packet::Packet>(16), Ok((packet::Packet::Stream(s), _)) if s.final_offset().is_some())
}

fn describe_packet(p: &Packet) -> String {
    use s2n_quic_dc::packet;
    let mut bytes = p.transport.payload().to_vec();
    let n = bytes.len();
    let d = s2n_codec::DecoderBufferMut::new(&mut bytes);
    let what = match d.decode_parameterized::<packet::Packet>(16) {
        Ok((packet::Packet::Stream(s), _)) => format!(
            "stream q={} key={} pn={} {:?}{} off={} len={} fin={:?} ctl={}",
            s.stream_id().queue_id(), s.credentials().key_id, s.packet_number(), s.tag().packet_space(),
            if s.is_retransmission() { "(retx)" } else { "" }, s.stream_offset(), s.payload().len(), s.final_offset(), s.control_data().len()
        ),
        Ok((packet::Packet::Control(c), _)) => format!("control q={:?} key={} pn={} ctl={}", c.stream_id().map(|i| *i.queue_id()), c.credentials().key_id, c.packet_number(), c.control_data().len()),
        Ok((packet::Packet::Datagram(_), _)) => "datagram".into(),
        Ok((packet::Packet::StaleKey(_), _)) => "stale_key".into(),
        Ok((packet::Packet::ReplayDetected(_), _)) => "replay_detected".into(),
        Ok((packet::Packet::UnknownPathSecret(_), _)) => "unknown_path_secret".into(),
        Err(_) => "undecodable".into(),
    };
    format!("{} -> {} {n}B {what}", p.source(), p.destination())
}


/// queue allocator: every packet gets its own seeded latency (=> reordering) and may be
/// dispatched twice (=> duplication). Drops are decided by the registered bach monitor.
struct FaultyQueues {
    ctl: SharedNet,
}

impl Allocator for FaultyQueues {
    fn for_udp(
        &mut self,
        _group: &Group,
        addr: SocketAddr,
        dispatch: &Dispatch,
        monitors: &Monitors,
        _pcaps: &mut pcap::Registry,
    ) -> PacketQueue {
        let (tx_sender, mut tx_receiver) = vec_deque::Queue::builder()
            .with_capacity(Some(8192))
            .with_overflow(vec_deque::Overflow::PreferOldest)
            .build::<Segments>()
            .mutex()
            .channel();
        let (rx_sender, rx_receiver) = vec_deque::Queue::builder()
            .with_capacity(Some(8192))
            .with_overflow(vec_deque::Overflow::PreferOldest)
            .build::<Packet>()
            .mutex()
            .channel();
        let monitors = monitors.clone();
        let dispatch = dispatch.clone();
        let ctl = self.ctl.clone();
        async move {
            while let Ok(segments) = tx_receiver.recv().await {
                for packet in segments {
                    if monitors.on_packet_sent(&packet).is_drop() {
                        continue;
                    }
                    let now_us = bach::time::Instant::now().elapsed_since_start().as_micros() as u64;
                    let (delays, forge_mode) = {
                        let mut g = ctl.lock().unwrap();
                        (g.plan(&packet, now_us), g.spec.forge_mode)
                    };
                    for (d, forge) in delays {
                        let dispatch = dispatch.clone();
                        let mut packet = packet.clone();
                        if let Some(seed) = forge {
                            // flip 1-3 bytes among the first 48 (tag byte, credentials, packet
                            // number, offsets, lengths): whatever it decodes to, it cannot carry
                            // a valid authentication tag
                            let mut r = Rng::new(seed);
                            let mut bytes = packet.transport.payload().to_vec();
                            let span = bytes.len().min(48);
                            if forge_mode == 1 {
                                let kind = forge_targeted(&mut bytes, &mut r);
                                ctl.lock().unwrap().stats.count_forgery(kind);
                            } else if span > 0 {
                                for _ in 0..r.range(1, 4) {
                                    let i = r.below(span as u64) as usize;
                                    bytes[i] ^= 1 << r.below(8);
                                }
                            }
                            *packet.transport.payload_mut() = bytes.into();
                            packet.update_checksum();
                        }
                        async move {
                            d.sleep().await;
                            dispatch.send(packet).await;
                        }
                        .spawn();
                    }
                }
            }
            let _ = tx_receiver.close();
        }
        .spawn_named(format_args!("udp://{addr}/faulty-net"));
        PacketQueue { local_sender: tx_sender, local_receiver: rx_receiver, remote_sender: rx_sender }
    }
}

// ---------------------------------------------------------------------------------------
// the oracle
// ---------------------------------------------------------------------------------------

#[derive(Default, Debug, Clone)]
pub struct DirState {
    pub key: u64,
    /// bytes accepted by completed write calls
    pub written: u64,
    /// length of the write call in progress
    pub inflight: u64,
    /// set just before the writer finishes (shutdown or drop): the final length
    pub finishing: Option<u64>,
    pub writer_failed: Option<String>,
    pub writer_done: bool,
    pub read: u64,
    pub reader_end: Option<String>,
    pub reader_stopped_early: bool,
    pub intended: u64,
}

#[derive(Debug, Clone)]
pub struct Finding {
    pub sig: String,
    pub what: String,
}

#[derive(Default)]
pub struct Oracle {
    pub dirs: Vec<DirState>,
    pub findings: Vec<Finding>,
    pub pending: BTreeMap<u64, (String, u64)>,
    pub next_op: u64,
    pub errors: Vec<(String, u64, String)>,
    pub ops: u64,
    pub bytes_checked: u64,
    pub connect_errors: Vec<(u64, String)>,
    pub streams_opened: u64,
    pub late_results: Vec<(u64, bool)>,
    /// server-side stream handlers currently running
    pub server_active: i64,
    /// accepted streams whose first 8 bytes (stream index) could not be read
    pub server_preamble_failures: u64,
}

type SharedOracle = Arc<Mutex<Oracle>>;

fn now_us() -> u64 {
    if bach::is_active() {
        bach::time::Instant::now().elapsed_since_start().as_micros() as u64
    } else {
        static START: std::sync::OnceLock<std::time::Instant> = std::sync::OnceLock::new();
        START.get_or_init(std::time::Instant::now).elapsed().as_micros() as u64
    }
}

struct OpGuard {
    o: SharedOracle,
    id: u64,
}

impl OpGuard {
    fn new(o: &SharedOracle, what: String) -> Self {
        let mut g = o.lock().unwrap();
        let id = g.next_op;
        g.next_op += 1;
        g.ops += 1;
        g.pending.insert(id, (what, now_us()));
        OpGuard { o: o.clone(), id }
    }
}

impl Drop for OpGuard {
    fn drop(&mut self) {
        if let Ok(mut g) = self.o.lock() {
            g.pending.remove(&self.id);
        }
    }
}

async fn pause(us: u64) {
    if us > 0 {
        s2n_quic_dc::testing::sleep(Duration::from_micros(us)).await;
    }
}

fn err_class(e: &std::io::Error) -> String {
    format!("{:?}", e.kind())
}

async fn run_writer(mut w: s2n_quic_dc::stream::testing::Writer, plan: HalfPlan, o: SharedOracle, dir: usize, label: String) {
    let key = o.lock().unwrap().dirs[dir].key;
    let target = plan.write_stop_at.unwrap_or(plan.write_len).min(plan.write_len);
    let mut pos = 0u64;
    let mut buf = vec![0u8; plan.write_chunk.max(1)];
    let mut n_ops = 0u32;
    let mut fin_written = false;
    let mut stalls = 0u32;
    while pos < target {
        let n = (target - pos).min(plan.write_chunk.max(1) as u64) as usize;
        prf_fill(key, pos, &mut buf[..n]);
        o.lock().unwrap().dirs[dir].inflight = n as u64;
        let g = OpGuard::new(&o, format!("{label}:write@{pos}+{n}"));
        let with_fin = plan.write_api == 2 && plan.finish == Finish::Shutdown && pos + n as u64 == plan.write_len;
        let r = if with_fin {
            // the FIN travels with this write: the reader may see the end before it returns
            o.lock().unwrap().dirs[dir].finishing = Some(pos + n as u64);
            let mut b = bytes::Bytes::copy_from_slice(&buf[..n]);
            let r = w.write_all_from_fin(&mut b).await;
            fin_written = r.is_ok();
            r.map(|_| n - b.len())
        } else if plan.write_api != 0 {
            // with a buffer::reader::Storage the bytes taken are what left the buffer; the
            // returned count is what was flushed, which may include earlier writes
            let mut b = bytes::Bytes::copy_from_slice(&buf[..n]);
            let r = w.write_from(&mut b).await;
            let took = n - b.len();
            if took == 0 && r.is_ok() {
                stalls += 1;
                if stalls < 10_000 {
                    continue;
                }
            }
            stalls = 0;
            r.map(|_| took)
        } else {
            w.write(&buf[..n]).await
        };
        drop(g);
        match r {
            Ok(k) => {
                pos += k as u64;
                let mut gl = o.lock().unwrap();
                gl.dirs[dir].written = pos;
                gl.dirs[dir].inflight = 0;
                if k == 0 {
                    gl.dirs[dir].writer_failed = Some("write returned 0".into());
                    gl.errors.push((format!("{label}:write"), now_us(), "WriteZero".into()));
                    return;
                }
            }
            Err(e) => {
                let mut gl = o.lock().unwrap();
                gl.dirs[dir].writer_failed = Some(err_class(&e));
                gl.errors.push((format!("{label}:write"), now_us(), err_class(&e)));
                return;
            }
        }
        n_ops += 1;
        if plan.pause_us > 0 && plan.pause_every > 0 && n_ops % plan.pause_every == 0 {
            pause(plan.pause_us).await;
        }
    }
    o.lock().unwrap().dirs[dir].finishing = Some(pos);
    match plan.finish {
        Finish::Shutdown if fin_written => drop(w),
        Finish::Shutdown => {
            let g = OpGuard::new(&o, format!("{label}:shutdown@{pos}"));
            let r = AsyncWriteExt::shutdown(&mut w).await;
            drop(g);
            if let Err(e) = r {
                let mut gl = o.lock().unwrap();
                gl.dirs[dir].writer_failed = Some(err_class(&e));
                gl.errors.push((format!("{label}:shutdown"), now_us(), err_class(&e)));
                return;
            }
        }
        Finish::Drop => drop(w),
    }
    o.lock().unwrap().dirs[dir].writer_done = true;
}

async fn run_reader<R: tokio::io::AsyncRead + Unpin>(mut r: R, plan: HalfPlan, o: SharedOracle, dir: usize, label: String, tcp: bool) {
    let key = o.lock().unwrap().dirs[dir].key;
    let mut pos = 0u64;
    let mut buf = vec![0u8; plan.max_read.max(1)];
    let mut rng = Rng::new(mix(key, 0x7ead));
    let mut n_ops = 0u32;
    loop {
        let m = if rng.chance(1, 4) { rng.range(1, plan.max_read.max(1) as u64) as usize } else { plan.max_read.max(1) };
        let g = OpGuard::new(&o, format!("{label}:read@{pos}"));
        let res = r.read(&mut buf[..m]).await;
        drop(g);
        match res {
            Ok(0) => {
                let mut gl = o.lock().unwrap();
                let d = gl.dirs[dir].clone();
                gl.dirs[dir].reader_end = Some("eof".into());
                gl.dirs[dir].read = pos;
                if d.writer_failed.is_none() {
                    match d.finishing {
                        Some(total) if total == pos => {}
                        Some(total) => gl.findings.push(Finding {
                            sig: format!("c20:{}:eof_truncated", if tcp { "tcp" } else { "udp" }),
                            what: format!("{label}: clean end of stream after {pos} bytes but the writer finished at {total}"),
                        }),
                        // the server side of some stream failed before it had read which stream
                        // it was (counted, and judged as a stream failure of its class) and
                        // dropped the handle without writing: a dropped Writer ends the stream
                        // cleanly, so "no bytes, end of stream" is exactly what was written
                        None if dir % 2 == 1 && pos == 0 && d.written == 0 && d.inflight == 0 && gl.server_preamble_failures > 0 => {
                            gl.dirs[dir].reader_end = Some("eof_after_server_preamble_failure".into());
                        }
                        None => gl.findings.push(Finding {
                            sig: format!("c20:{}:eof_before_writer_finished", if tcp { "tcp" } else { "udp" }),
                            what: format!("{label}: clean end of stream after {pos} bytes while the writer was still open (written {} in flight {})", d.written, d.inflight),
                        }),
                    }
                }
                return;
            }
            Ok(n) => {
                let mut gl = o.lock().unwrap();
                gl.bytes_checked += n as u64;
                if let Some(i) = prf_check(key, pos, &buf[..n]) {
                    gl.findings.push(Finding {
                        sig: format!("c20:{}:wrong_data", if tcp { "tcp" } else { "udp" }),
                        what: format!("{label}: byte at stream position {} is {:#04x}, the writer wrote {:#04x} there (read of {n} at {pos})", pos + i as u64, buf[i], vq_util::prf_byte(key, pos + i as u64)),
                    });
                    gl.dirs[dir].reader_end = Some("wrong_data".into());
                    return;
                }
                let d = &gl.dirs[dir];
                if pos + n as u64 > d.written + d.inflight {
                    let (w, i) = (d.written, d.inflight);
                    gl.findings.push(Finding {
                        sig: format!("c20:{}:read_beyond_written", if tcp { "tcp" } else { "udp" }),
                        what: format!("{label}: read up to position {} but only {w} (+{i} in flight) bytes were ever written", pos + n as u64),
                    });
                }
                pos += n as u64;
                gl.dirs[dir].read = pos;
                if let Some(stop) = plan.read_stop_at {
                    if pos >= stop {
                        gl.dirs[dir].reader_end = Some("stopped_early".into());
                        gl.dirs[dir].reader_stopped_early = true;
                        return; // drops the reader half
                    }
                }
            }
            Err(e) => {
                let mut gl = o.lock().unwrap();
                gl.dirs[dir].reader_end = Some(format!("error:{}", err_class(&e)));
                gl.dirs[dir].read = pos;
                gl.errors.push((format!("{label}:read"), now_us(), err_class(&e)));
                return;
            }
        }
        n_ops += 1;
        if plan.pause_us > 0 && plan.pause_every > 0 && n_ops % plan.pause_every == 0 {
            pause(plan.pause_us).await;
        }
    }
}

/// drive both halves of one endpoint of one stream
async fn run_endpoint(stream: Stream, plan: HalfPlan, o: SharedOracle, write_dir: usize, read_dir: usize, label: String, tcp: bool) {
    let (r, w) = stream.into_split();
    let gate = Arc::new(tokio::sync::Notify::new());
    let reader = {
        let gate = gate.clone();
        let o = o.clone();
        let plan = plan.clone();
        let label = format!("{label}.rx");
        async move {
            run_reader(r, plan, o, read_dir, label, tcp).await;
            gate.notify_one();
        }
    };
    let writer = {
        let plan2 = plan.clone();
        let label = format!("{label}.tx");
        async move {
            if plan2.write_after_read {
                gate.notified().await;
            }
            run_writer(w, plan2, o, write_dir, label).await;
        }
    };
    tokio::join!(reader, writer);
}

// ---------------------------------------------------------------------------------------
// verdict for one finished scenario
// ---------------------------------------------------------------------------------------

pub struct Outcome {
    pub findings: Vec<Finding>,
    pub features: Vec<String>,
    pub net: NetStats,
    pub ops: u64,
    pub bytes_checked: u64,
    pub errors: Vec<(String, u64, String)>,
    pub complete_dirs: u64,
    pub error_dirs: u64,
    pub virtual_ms: u64,
    pub vanish_resolution_ms: Option<u64>,
    pub harness_problem: Option<String>,
}

fn judge(sc: &Scenario, o: &Oracle, hanging: Vec<String>, vanish_t0_us: Option<u64>, end_us: u64, net: NetStats) -> Outcome {
    let timed_out = !hanging.is_empty();
    let t = if sc.transport == "tcp" { "tcp" } else { "udp" };
    let mut findings = o.findings.clone();
    let mut features = vec![format!("class={}", sc.class)];
    let vanished = sc.vanish != VanishKind::None;

    if timed_out {
        let mut ops = hanging.clone();
        ops.truncate(6);
        let kind = hanging.first().map(|w| {
            // "s0.client.rx:read@123 (pending ...)" -> "client.rx:read"
            let w = w.split('@').next().unwrap_or("");
            let w = w.split(' ').next().unwrap_or("");
            w.split_once('.').map(|x| x.1).unwrap_or(w).to_string()
        }).unwrap_or_else(|| "none".into());
        findings.push(Finding {
            sig: format!("c20:{t}:hang:{}:{kind}", if vanished { sc.vanish.name() } else { "peer_alive" }),
            what: format!(
                "operations still pending at {} ms ({}): {ops:?}",
                end_us / 1000,
                match vanish_t0_us { Some(t0) => format!("peer vanished at {} ms; deadline = t0 + idle timeout 30 s + 5 s", t0 / 1000), None => "no peer failure injected; deadline 180 s".into() }
            ),
        });
    }

    let mut complete = 0;
    let mut errored = 0;
    for (i, d) in o.dirs.iter().enumerate() {
        let who = if i % 2 == 0 { "c2s" } else { "s2c" };
        match d.reader_end.as_deref() {
            Some("eof") => {
                complete += 1;
                features.push(format!("{who}=complete"));
            }
            Some("stopped_early") => features.push(format!("{who}=reader_dropped")),
            Some(e) if e.starts_with("error") => {
                errored += 1;
                features.push(format!("{who}=error"));
            }
            _ => {}
        }
    }
    // "bytes are delivered exactly and completely" unless a peer failure / early drop was injected
    let early = sc.streams.iter().any(|s| s.client.read_stop_at.is_some() || s.server.read_stop_at.is_some());
    if !vanished && !timed_out {
        for (i, d) in o.dirs.iter().enumerate() {
            let si = i / 2;
            let st = &sc.streams[si];
            // a direction is "clean" if neither endpoint of this stream dropped a reader early
            let stream_early = st.client.read_stop_at.is_some() || st.server.read_stop_at.is_some();
            if stream_early {
                continue;
            }
            let bad = d.writer_failed.is_some() || d.reader_end.as_deref().map_or(true, |e| e.starts_with("error"));
            if bad {
                // one signature per transport and per "were packets lost at all": the class and
                // the loss rate only say how the stall was provoked (they are in `what`/replay)
                let lossy = net.dropped_random + net.dropped_burst + net.dropped_kth > 0;
                findings.push(Finding {
                    sig: format!("c20:{t}:unexpected_error:{}", if lossy { "lossy_network" } else { "lossless_network" }),
                    what: format!(
                        "class {} ({}): stream {si} direction {}: both endpoints alive and no early drop, but writer result {:?} / reader result {:?} after {}/{} bytes (loss {} ppm)",
                        sc.class, loss_bucket(&sc.net),
                        if i % 2 == 0 { "client->server" } else { "server->client" }, d.writer_failed, d.reader_end, d.read, d.intended, sc.net.loss_ppm
                    ),
                });
            }
        }
    }
    let _ = early;
    // With forged copies on the wire the server also "accepts" streams nobody opened (a forgery
    // whose flipped bits name another queue / stream is handed to the acceptor and only fails
    // authentication when it is read): those die before their preamble and are not streams
    // of the scenario.
    if sc.net.forge_ppm > 0 && sc.net.forge_mode == 0 && o.server_preamble_failures > 0 {
        features.push("phantom_streams=true".into());
    }
    if (sc.net.forge_ppm == 0 || sc.net.forge_mode == 1) && !vanished && !timed_out && o.server_preamble_failures > 0 && !sc.streams.iter().any(|s| s.client.read_stop_at.is_some() || s.client.write_stop_at.is_some()) {
        // Targeted forgeries change no queue or stream id, yet a forged copy that arrives after
        // its stream has completed and been freed (jitter) is handed to the acceptor as the
        // first packet of a *new* stream, which the server application then accepts and which
        // dies of its idle timeout 30 s later: an unauthenticated packet is acted upon. When
        // every stream of the scenario itself completed, that is what happened and it gets a
        // signature of its own; otherwise a real stream failed.
        let phantom = sc.net.forge_mode == 1 && findings.is_empty();
        findings.push(Finding {
            sig: if phantom { format!("c20:{t}:phantom_stream_accepted_from_forged_packet") } else { format!("c20:{t}:unexpected_error:{}", if net.dropped_random + net.dropped_burst + net.dropped_kth > 0 { "lossy_network" } else { "lossless_network" }) },
            what: format!("{} accepted stream(s) failed on the server before the first 8 bytes could be read although both endpoints are alive: {:?}", o.server_preamble_failures, o.errors.iter().filter(|e| e.0.starts_with("server:preamble")).collect::<Vec<_>>()),
        });
    }
    for (t_us, e) in &o.connect_errors {
        if sc.vanish == VanishKind::None {
            findings.push(Finding { sig: format!("c20:{t}:connect_failed:{}", sc.class), what: format!("connect failed at {} ms: {e}", t_us / 1000) });
        }
    }
    // drop_state: every stream opened after the server forgot its secrets must have failed
    for (t_us, ok) in &o.late_results {
        if *ok {
            findings.push(Finding {
                sig: "c20:udp:unknown_path_secret_stream_succeeded".into(),
                what: format!("a stream opened at {} ms, after the server dropped all path secrets, completed a request/response", t_us / 1000),
            });
        }
    }
    let vanish_resolution_ms = vanish_t0_us.and_then(|t0| {
        o.errors.iter().map(|e| e.1).filter(|t| *t >= t0).max().map(|t| (t - t0) / 1000)
    });
    features.push(format!("loss={}", loss_bucket(&sc.net)));
    features.push(format!("dup={}", sc.net.dup_ppm > 0));
    features.push(format!("forged={}", if sc.net.forge_ppm == 0 { "no" } else if sc.net.forge_mode == 1 { "targeted" } else { "header_bits" }));
    if sc.net.forge_mode == 1 {
        features.push(format!("forged_first={}", sc.net.forge_first_ppm > 0));
        features.push(format!("offset_jump={}", net.forged_kinds.get("stream_offset_jump").copied().unwrap_or(0) > 0));
    }
    features.push(format!("jitter={}", match sc.net.jitter_us { 0 => "0", 1..=500 => "small", _ => "large" }));
    features.push(format!("streams={}", sc.streams.len().min(4)));
    let max_size = sc.streams.iter().map(|s| s.client.write_len.max(s.server.write_len)).max().unwrap_or(0);
    features.push(format!("size={}", match max_size { 0 => "0", 1..=2000 => "small", 2001..=100_000 => "medium", 100_001..=1_000_000 => "large", _ => "huge" }));
    let min_read = sc.streams.iter().map(|s| s.client.max_read.min(s.server.max_read)).min().unwrap_or(0);
    features.push(format!("read={}", match min_read { 0..=15 => "tiny", 16..=1023 => "small", 1024..=8999 => "mtu", _ => "big" }));
    features.push(format!("mtu={}/{}", mtu_bucket(sc.client_mtu), mtu_bucket(sc.server_mtu)));
    features.push(format!("interleave={}", sc.streams.iter().map(|s| format!("{}{}{}{}",
        if s.server.write_after_read { "R" } else { "P" },
        if s.client.finish == Finish::Drop { "d" } else { "s" },
        if s.server.finish == Finish::Drop { "d" } else { "s" },
        if s.client.write_stop_at.is_some() || s.server.write_stop_at.is_some() { "w" } else if s.client.read_stop_at.is_some() || s.server.read_stop_at.is_some() { "r" } else { "-" })).take(2).collect::<Vec<_>>().join(",")));
    {
        let mut apis: Vec<u8> = sc.streams.iter().flat_map(|s| [s.client.write_api, s.server.write_api]).collect();
        apis.sort();
        apis.dedup();
        features.push(format!("write_api={}", apis.iter().map(|a| match a { 0 => "async_write", 1 => "write_from", _ => "write_from_fin" }).collect::<Vec<_>>().join("+")));
    }
    features.push(format!("dropped={}", net.dropped_random + net.dropped_burst + net.dropped_kth > 0));
    features.push(format!("vanish={}", sc.vanish.name()));
    if sc.class == "kth_enum" {
        features.push(format!("k={:?}", sc.net.drop_kth));
    }

    Outcome {
        findings,
        features,
        net,
        ops: o.ops,
        bytes_checked: o.bytes_checked,
        errors: o.errors.clone(),
        complete_dirs: complete,
        error_dirs: errored,
        virtual_ms: end_us / 1000,
        vanish_resolution_ms,
        harness_problem: None,
    }
}

fn loss_bucket(n: &NetSpec) -> &'static str {
    if !n.drop_kth.is_empty() {
        return "kth";
    }
    if n.burst.is_some() {
        return "burst";
    }
    match n.loss_ppm {
        0 => "none",
        1..=10_000 => "le1pct",
        10_001..=50_000 => "le5pct",
        50_001..=150_000 => "le15pct",
        _ => "le30pct",
    }
}

fn mtu_bucket(m: Option<u16>) -> &'static str {
    match m {
        None => "default",
        Some(0..=1250) => "1250",
        Some(1251..=1500) => "eth",
        _ => "jumbo",
    }
}

// ---------------------------------------------------------------------------------------
// simulator run (UDP)
// ---------------------------------------------------------------------------------------

pub fn run_sim(sc: &Scenario, wall_budget: Duration) -> Outcome {
    let ctl: SharedNet = Arc::new(Mutex::new(NetCtl::new(sc.net.clone(), wall_budget)));
    let oracle: SharedOracle = Arc::new(Mutex::new(Oracle::default()));
    {
        let mut o = oracle.lock().unwrap();
        for (i, st) in sc.streams.iter().enumerate() {
            // direction 2i: client -> server, 2i+1: server -> client
            o.dirs.push(DirState { key: mix(sc.key, 2 * i as u64), intended: st.client.write_stop_at.unwrap_or(st.client.write_len), ..Default::default() });
            o.dirs.push(DirState { key: mix(sc.key, 2 * i as u64 + 1), intended: st.server.write_stop_at.unwrap_or(st.server.write_len), ..Default::default() });
        }
    }
    let result: Arc<Mutex<(Vec<String>, Option<u64>, u64)>> = Arc::new(Mutex::new((Vec::new(), None, 0)));

    let queues = FaultyQueues { ctl: ctl.clone() };
    let mut rt = bach::environment::default::Runtime::new()
        .with_seed(sc.net.net_seed)
        .with_net_queues(Some(Box::new(queues)));

    let sc2 = sc.clone();
    let ctl2 = ctl.clone();
    let oracle2 = oracle.clone();
    let result2 = result.clone();
    let run_result = std::panic::catch_unwind(std::panic::AssertUnwindSafe(|| rt.run(move || {
        let sc = sc2;
        // s2n-quic-dc spawns its stream workers as *primary* bach tasks, so the simulation does
        // not end with our controller: a worker that never finishes keeps it running. The
        // controller therefore unwinds out of the runtime (tagged panic, caught below) when it
        // hits its deadline, and a reaper does the same if workers outlive every application
        // operation by more than 120 s of virtual time.
        {
            let last_deadline = match sc.vanish {
                VanishKind::None => LIVE_DEADLINE,
                _ => Duration::from_micros(sc.vanish_at_us) + 2 * (IDLE_TIMEOUT + VANISH_SLACK) + Duration::from_secs(60),
            };
            async move {
                (last_deadline + Duration::from_secs(120)).sleep().await;
                panic!("{SIM_OVERRUN_TAG}");
            }
            .spawn();
        }
        // drops: the official bach monitor hook (needs bach's `net-monitor` feature)
        {
            let ctl = ctl2.clone();
            bach::net::monitor::on_packet(move |packet, op| match op {
                Operation::Send => ctl.lock().unwrap().on_sent(packet),
                Operation::Receive => Command::Pass,
            });
        }

        // server
        let n_streams = sc.streams.len();
        let late_expected = if sc.vanish == VanishKind::DropState { 3 } else { 0 };
        {
            let sc = sc.clone();
            let oracle = oracle2.clone();
            let ctl = ctl2.clone();
            async move {
                let mut b = Server::udp().port(443);
                if let Some(m) = sc.server_mtu {
                    b = b.mtu(m);
                }
                let server = b.build();
                ctl.lock().unwrap().server_ip = Some(server.local_addr().ip());
                if sc.vanish == VanishKind::DropState {
                    let server = server.clone();
                    let t0 = sc.vanish_at_us;
                    async move {
                        Duration::from_micros(t0).sleep().await;
                        server.map().drop_state();
                    }
                    .spawn();
                }
                let mut idx = 0usize;
                while let Ok((stream, _addr)) = server.accept().await {
                    if idx < n_streams {
                        // streams are accepted in connect order only if nothing is lost; the
                        // client announces its stream index in the first 8 bytes instead
                    }
                    let oracle = oracle.clone();
                    let sc = sc.clone();
                    async move {
                        serve(stream, sc, oracle).await;
                    }
                    .spawn();
                    idx += 1;
                }
            }
            .group("server")
            .spawn();
        }

        // clients + controller (the only primary task)
        let oracle = oracle2.clone();
        let ctl = ctl2.clone();
        let result = result2.clone();
        async move {
            let mut b = Client::builder();
            if let Some(m) = sc.client_mtu {
                b = b.mtu(m);
            }
            let client = b.build();
            let mut handles = Vec::new();
            for (i, st) in sc.streams.iter().enumerate() {
                let client = client.clone();
                let oracle = oracle.clone();
                let st = st.clone();
                handles.push(
                    async move {
                        Duration::from_micros(st.start_us).sleep().await;
                        let g = OpGuard::new(&oracle, format!("s{i}.client:connect"));
                        let r = client.connect_sim("server:443").await;
                        drop(g);
                        match r {
                            Ok(mut stream) => {
                                oracle.lock().unwrap().streams_opened += 1;
                                // stream index preamble (outside the PRF stream)
                                let g = OpGuard::new(&oracle, format!("s{i}.client:preamble"));
                                let r = stream.write_all(&(i as u64).to_be_bytes()).await;
                                drop(g);
                                if let Err(e) = r {
                                    let mut gl = oracle.lock().unwrap();
                                    gl.errors.push((format!("s{i}.client:preamble"), now_us(), err_class(&e)));
                                    gl.dirs[2 * i].writer_failed = Some(err_class(&e));
                                    gl.dirs[2 * i + 1].reader_end = Some(format!("error:{}", err_class(&e)));
                                    return;
                                }
                                run_endpoint(stream, st.client.clone(), oracle, 2 * i, 2 * i + 1, format!("s{i}.client"), false).await;
                            }
                            Err(e) => {
                                let mut gl = oracle.lock().unwrap();
                                gl.connect_errors.push((now_us(), err_class(&e)));
                                gl.dirs[2 * i].writer_failed = Some("connect".into());
                                gl.dirs[2 * i + 1].reader_end = Some("error:connect".into());
                            }
                        }
                    }
                    .group("client")
                    .spawn(),
                );
            }

            let mut vanish_t0 = None;
            let oracle_q = oracle.clone();
            let mut all = Box::pin(async move {
                for h in handles {
                    let _ = h.await;
                }
                server_quiesce(&oracle_q).await;
            });
            let pending_ops = |oracle: &SharedOracle, only_client: bool| -> Vec<String> {
                let o = oracle.lock().unwrap();
                o.pending
                    .values()
                    .filter(|(w, _)| !only_client || w.contains("client"))
                    .map(|(w, since)| format!("{w} (pending since {} ms)", since / 1000))
                    .collect()
            };
            let mut hanging: Vec<String> = Vec::new();
            match sc.vanish {
                VanishKind::None => {
                    if bach::time::timeout(LIVE_DEADLINE, &mut all).await.is_err() {
                        hanging = pending_ops(&oracle, false);
                    }
                }
                VanishKind::Blackhole | VanishKind::ServerMute => {
                    let t0 = sc.vanish_at_us;
                    let flip = {
                        let ctl = ctl.clone();
                        let kind = sc.vanish;
                        async move {
                            Duration::from_micros(t0).sleep().await;
                            let mut c = ctl.lock().unwrap();
                            if kind == VanishKind::Blackhole {
                                c.blackhole = true;
                            } else {
                                c.server_mute = true;
                            }
                        }
                    };
                    flip.spawn();
                    vanish_t0 = Some(t0);
                    // phase 1: whoever lost its peer at t0 must be done by t0 + idle + slack.
                    // With a mute server only the client lost its peer at t0; the server keeps
                    // hearing the client until the client gives up, so the server gets a
                    // second idle period.
                    let deadline = Duration::from_micros(t0) + IDLE_TIMEOUT + VANISH_SLACK;
                    if bach::time::timeout(deadline, &mut all).await.is_err() {
                        hanging = pending_ops(&oracle, sc.vanish == VanishKind::ServerMute);
                        if hanging.is_empty() {
                            // phase 2 (server side of a mute-server scenario)
                            if bach::time::timeout(IDLE_TIMEOUT + VANISH_SLACK, &mut all).await.is_err() {
                                hanging = pending_ops(&oracle, false);
                            }
                        }
                    }
                }
                VanishKind::DropState => {
                    let t0 = sc.vanish_at_us;
                    vanish_t0 = Some(t0);
                    // streams opened before t0 keep working (the server only forgot the map
                    // entry); streams opened afterwards must fail, promptly
                    let late = {
                        let client = client.clone();
                        let oracle = oracle.clone();
                        async move {
                            Duration::from_micros(t0 + 100).sleep().await;
                            for j in 0..late_expected {
                                let started = now_us();
                                let g = OpGuard::new(&oracle, format!("late{j}.client:request_response"));
                                let ok = late_stream(&client, j).await;
                                drop(g);
                                let mut gl = oracle.lock().unwrap();
                                gl.late_results.push((started, ok));
                                if !ok {
                                    gl.errors.push((format!("late{j}.client:stream"), now_us(), "failed".into()));
                                }
                            }
                        }
                    };
                    let both = async {
                        tokio::join!(&mut all, late);
                    };
                    let deadline = Duration::from_micros(t0) + IDLE_TIMEOUT + VANISH_SLACK;
                    if bach::time::timeout(deadline.max(Duration::from_secs(60)), both).await.is_err() {
                        hanging = pending_ops(&oracle, false);
                    }
                }
            }
            let stop = !hanging.is_empty();
            *result.lock().unwrap() = (hanging, vanish_t0, now_us());
            if stop {
                // operations are hanging: do not simulate on until the stream workers give up
                panic!("{SIM_DONE_TAG}");
            }
        }
        .group("client")
        .primary()
        .spawn();
    })));
    drop(rt);
    let mut overrun = false;
    if let Err(p) = run_result {
        let msg = known::panic_text(p);
        if msg.contains(SIM_DONE_TAG) {
            // expected: the controller stopped the simulation at its deadline
        } else if msg.contains(SIM_OVERRUN_TAG) {
            overrun = true;
        } else {
            // library panic or wall budget: let the scenario runner classify it
            std::panic::resume_unwind(Box::new(msg));
        }
    }

    let (hanging, vanish_t0, end_us) = result.lock().unwrap().clone();
    let net = ctl.lock().unwrap().stats.clone();
    let o = oracle.lock().unwrap();
    let mut out = judge(sc, &o, hanging, vanish_t0, end_us, net);
    if overrun {
        out.harness_problem = Some("stream worker tasks were still running 120 s (virtual) after the last application deadline".into());
    } else if end_us == 0 {
        out.harness_problem = Some("the controller task never finished (simulation ended early)".into());
    }
    out
}

/// a small request/response on a fresh stream; true iff it completed with the right bytes
async fn late_stream(client: &Client, j: u64) -> bool {
    let Ok(mut stream) = client.connect_sim("server:443").await else {
        return false;
    };
    // preamble: stream index u64::MAX - j tells the server to echo
    if stream.write_all(&(u64::MAX - j).to_be_bytes()).await.is_err() {
        return false;
    }
    let req = vec![0x5au8; 2000];
    if stream.write_all(&req).await.is_err() {
        return false;
    }
    if stream.shutdown().await.is_err() {
        return false;
    }
    let mut resp = Vec::new();
    match stream.read_to_end(&mut resp).await {
        Ok(_) => resp == req,
        Err(_) => false,
    }
}

/// server side of one accepted stream: read the index preamble, then run the server plan
async fn serve(stream: Stream, sc: Scenario, oracle: SharedOracle) {
    oracle.lock().unwrap().server_active += 1;
    serve_inner(stream, sc, oracle.clone()).await;
    oracle.lock().unwrap().server_active -= 1;
}

/// wait until no server-side handler is running (checked over a quiet period, so handlers
/// of streams whose first packet is still in flight get a chance to start)
async fn server_quiesce(oracle: &SharedOracle) {
    let mut quiet = 0;
    while quiet < 20 {
        s2n_quic_dc::testing::sleep(Duration::from_millis(1)).await;
        if oracle.lock().unwrap().server_active == 0 {
            quiet += 1;
        } else {
            quiet = 0;
        }
    }
}

async fn serve_inner(mut stream: Stream, sc: Scenario, oracle: SharedOracle) {
    let mut pre = [0u8; 8];
    let g = OpGuard::new(&oracle, "server:preamble".into());
    let r = stream.read_exact(&mut pre).await;
    drop(g);
    if let Err(e) = r {
        let mut gl = oracle.lock().unwrap();
        gl.errors.push(("server:preamble".into(), now_us(), err_class(&e)));
        gl.server_preamble_failures += 1;
        return;
    }
    let idx = u64::from_be_bytes(pre);
    if idx > u64::MAX - 16 {
        // echo service for the late streams of the drop_state class
        let mut req = Vec::new();
        if stream.read_to_end(&mut req).await.is_ok() {
            let _ = stream.write_all(&req).await;
            let _ = stream.shutdown().await;
        }
        return;
    }
    let i = idx as usize;
    if i >= sc.streams.len() {
        oracle.lock().unwrap().findings.push(Finding { sig: "c20:udp:wrong_data".into(), what: format!("server received stream preamble {idx:#x}, no such stream") });
        return;
    }
    let plan = sc.streams[i].server.clone();
    run_endpoint(stream, plan, oracle, 2 * i + 1, 2 * i, format!("s{i}.server"), sc.transport == "tcp").await;
}

// ---------------------------------------------------------------------------------------
// tokio run (TCP over real loopback)
// ---------------------------------------------------------------------------------------

pub fn run_tcp(sc: &Scenario) -> Outcome {
    let oracle: SharedOracle = Arc::new(Mutex::new(Oracle::default()));
    {
        let mut o = oracle.lock().unwrap();
        for (i, st) in sc.streams.iter().enumerate() {
            o.dirs.push(DirState { key: mix(sc.key, 2 * i as u64), intended: st.client.write_stop_at.unwrap_or(st.client.write_len), ..Default::default() });
            o.dirs.push(DirState { key: mix(sc.key, 2 * i as u64 + 1), intended: st.server.write_stop_at.unwrap_or(st.server.write_len), ..Default::default() });
        }
    }
    let rt = tokio::runtime::Builder::new_multi_thread().worker_threads(2).enable_all().build().expect("tokio runtime");
    let sc2 = sc.clone();
    let oracle2 = oracle.clone();
    let started = std::time::Instant::now();
    let timed_out = rt.block_on(async move {
        let sc = sc2;
        let oracle = oracle2;
        let server = Server::tcp().build();
        let client = Client::builder().build();
        {
            let server = server.clone();
            let sc = sc.clone();
            let oracle = oracle.clone();
            tokio::spawn(async move {
                while let Ok((stream, _)) = server.accept().await {
                    let sc = sc.clone();
                    let oracle = oracle.clone();
                    tokio::spawn(async move { serve(stream, sc, oracle).await });
                }
            });
        }
        let mut set = tokio::task::JoinSet::new();
        for (i, st) in sc.streams.iter().enumerate() {
            let client = client.clone();
            let server = server.clone();
            let oracle = oracle.clone();
            let st = st.clone();
            set.spawn(async move {
                match client.connect_to(&server).await {
                    Ok(mut stream) => {
                        oracle.lock().unwrap().streams_opened += 1;
                        if let Err(e) = stream.write_all(&(i as u64).to_be_bytes()).await {
                            let mut gl = oracle.lock().unwrap();
                            gl.errors.push((format!("s{i}.client:preamble"), now_us(), err_class(&e)));
                            gl.dirs[2 * i].writer_failed = Some(err_class(&e));
                            gl.dirs[2 * i + 1].reader_end = Some(format!("error:{}", err_class(&e)));
                            return;
                        }
                        run_endpoint(stream, st.client.clone(), oracle, 2 * i, 2 * i + 1, format!("s{i}.client"), true).await;
                    }
                    Err(e) => {
                        let mut gl = oracle.lock().unwrap();
                        gl.connect_errors.push((now_us(), err_class(&e)));
                        gl.dirs[2 * i].writer_failed = Some("connect".into());
                        gl.dirs[2 * i + 1].reader_end = Some("error:connect".into());
                    }
                }
            });
        }
        let oracle_q = oracle.clone();
        let all = async move {
            while let Some(r) = set.join_next().await {
                let _ = r;
            }
            server_quiesce(&oracle_q).await;
        };
        // real time: the stream idle timeout is 30 s; nothing here should take even 1 s
        tokio::time::timeout(IDLE_TIMEOUT + VANISH_SLACK, all).await.is_err()
    });
    rt.shutdown_background();
    let end_us = started.elapsed().as_micros() as u64;
    let o = oracle.lock().unwrap();
    let hanging: Vec<String> = if timed_out {
        o.pending.values().map(|(w, since)| format!("{w} (pending since {} ms)", since / 1000)).collect::<Vec<_>>()
    } else {
        Vec::new()
    };
    let no_op_pending = timed_out && hanging.is_empty();
    let mut out = judge(sc, &o, hanging, None, end_us, NetStats::default());
    if no_op_pending {
        // the scenario was merely slow (application think time, machine load): undecided
        out.findings.clear();
        out.harness_problem = Some("tcp scenario exceeded its real-time budget although no stream operation was pending".into());
    }
    out
}

// ---------------------------------------------------------------------------------------

fn account(sum: &mut Summary, sc: &Scenario, out: &Outcome, seed: u64, case: u64) {
    sum.evaluations += 1;
    let t = sc.transport;
    sum.count(&format!("{t}_scenarios"), 1);
    sum.count(&format!("{t}_class_{}", sc.class), 1);
    sum.count(&format!("{t}_streams"), sc.streams.len() as u64);
    sum.count(&format!("{t}_ops"), out.ops);
    sum.count(&format!("{t}_bytes_checked"), out.bytes_checked);
    sum.count(&format!("{t}_directions_complete"), out.complete_dirs);
    sum.count(&format!("{t}_directions_error"), out.error_dirs);
    sum.count("packets_sent", out.net.sent);
    sum.count("packets_dropped_random", out.net.dropped_random);
    sum.count("packets_dropped_burst", out.net.dropped_burst);
    sum.count("packets_dropped_kth", out.net.dropped_kth);
    sum.count("packets_dropped_vanish", out.net.dropped_vanish);
    sum.count("vanished_behind_a_final_offset_with_a_gap", out.net.vanished_behind_fin);
    sum.count("packets_duplicated", out.net.duplicated);
    sum.count("packets_forged", out.net.forged);
    for (k, v) in &out.net.forged_kinds {
        sum.count(&format!("forged_targeted.{k}"), *v);
    }
    sum.count("packets_reordered", out.net.reordered);
    sum.count(&format!("{t}_error_resolutions"), out.errors.len() as u64);
    sum.max(&format!("{t}_max_virtual_ms"), out.virtual_ms as i64);
    if let Some(ms) = out.vanish_resolution_ms {
        sum.max(&format!("vanish_resolution_ms_max_{}", sc.vanish.name()), ms as i64);
        sum.min(&format!("vanish_resolution_ms_min_{}", sc.vanish.name()), ms as i64);
        sum.count("vanish_resolutions_timed", 1);
    }
    for e in &out.errors {
        sum.set("error_kinds", format!("{}:{}", e.0.split(':').nth(1).unwrap_or(""), e.2));
    }
    if let Some(p) = &out.harness_problem {
        sum.inconclusive.push(format!("c20: {p} (seed {seed} case {case} class {})", sc.class));
    }
    let faulty = out.net.dropped_random + out.net.dropped_burst + out.net.dropped_kth + out.net.dropped_vanish + out.net.duplicated + out.net.reordered > 0
        || sc.streams.iter().any(|s| s.client.read_stop_at.is_some() || s.server.read_stop_at.is_some() || s.client.write_stop_at.is_some() || s.server.write_stop_at.is_some())
        || sc.vanish != VanishKind::None
        || sc.transport == "tcp";
    if faulty && out.bytes_checked + out.errors.len() as u64 > 0 {
        sum.signatures.insert(vq_util::hash_str(&out.features.join("|")));
    } else {
        sum.trivial += 1;
    }
    if case < 2 {
        sum.sample(json!({"transport": t, "class": sc.class, "features": out.features, "virtual_ms": out.virtual_ms,
            "net": format!("{:?}", out.net), "errors": out.errors.iter().take(4).map(|e| format!("{} @{}ms {}", e.0, e.1/1000, e.2)).collect::<Vec<_>>()}));
    }
    let mut seen = std::collections::BTreeSet::new();
    for f in &out.findings {
        if !seen.insert(f.sig.clone()) {
            continue;
        }
        // C20 promises exact delivery or a prompt error, not delivery: a stream that reports
        // an error while its peer is alive (seen under heavy loss: a retransmission and the
        // covering ACK both lost, the stream idles out) is an observation, not a violation.
        // Not so when the faults were finite: exactly one or two datagrams dropped (classes
        // kth_drop / kth_enum, no random loss, nobody vanished) on an otherwise perfect network,
        // or no loss at all. Then nothing stands between the stream and delivery but its own
        // recovery, and an error (or an idle timeout 30 s later) is not "failing promptly".
        let finite_faults = sc.net.loss_ppm == 0 && sc.net.burst.is_none() && sc.net.drop_kth.len() <= 2;
        if (f.sig.contains(":unexpected_error:") || f.sig.contains(":connect_failed:")) && !finite_faults {
            let kind = f.sig.splitn(3, ':').nth(2).unwrap_or("error").replace(':', ".");
            sum.count(&format!("c20.observed.{kind}"), 1);
            continue;
        }
        // forged copies (loss-free by construction) have signatures of their own: what goes wrong
        // there goes wrong because an unauthenticated datagram was acted upon
        // (targeted forgeries - NetSpec::forge_mode 1 - keep a name of their own: the known
        // findings of the random-header class do not cover them)
        let fm = if sc.net.forge_mode == 1 { "targeted_forgery" } else { "forgery" };
        let signature = if sc.net.forge_ppm > 0 && f.sig.contains(":unexpected_error:") {
            format!("c20:{t}:stream_failed_under_{fm}")
        } else if sc.net.forge_ppm > 0 && f.sig.contains("traffic_storm") {
            format!("c20:{t}:traffic_storm_under_{fm}")
        } else if sc.net.forge_ppm > 0 && f.sig.contains(":hang:peer_alive") {
            format!("c20:{t}:hang_under_{fm}")
        } else {
            f.sig.clone()
        };
        known::push_violation(sum, Violation {
            property: "C20".into(),
            signature,
            what: f.what.clone(),
            replay: json!({"check":"c20","seed":seed,"case":case,"scenario":scenario_json(sc)}),
        }, 3);
    }
}

static WALL_BUDGET_MS: std::sync::atomic::AtomicU64 = std::sync::atomic::AtomicU64::new(30_000);
static TRACE_PACKETS: std::sync::atomic::AtomicBool = std::sync::atomic::AtomicBool::new(false);

/// run one scenario on its own thread (fresh thread-locals for bach and for the crate's
/// simulated-server registry, and a panic cannot poison the next scenario)
fn run_one(sc: &Scenario) -> Result<Outcome, String> {
    let sc = sc.clone();
    let budget = Duration::from_millis(WALL_BUDGET_MS.load(std::sync::atomic::Ordering::Relaxed));
    let h = std::thread::Builder::new()
        .name("vq-dc-scenario".into())
        .stack_size(32 << 20)
        .spawn(move || if sc.transport == "tcp" { run_tcp(&sc) } else { run_sim(&sc, budget) })
        .map_err(|e| format!("cannot spawn scenario thread: {e}"))?;
    h.join().map_err(known::panic_text)
}

/// a scenario that did not return an outcome: library panic (violation) or wall budget (inconclusive)
fn account_failure(sum: &mut Summary, sc: &Scenario, msg: String, seed: u64, case: u64) {
    sum.evaluations += 1;
    sum.count(&format!("{}_scenarios_aborted", sc.transport), 1);
    if msg.contains(WALL_BUDGET_TAG) {
        sum.count("scenarios_over_wall_budget", 1);
        // A simulation that cannot be advanced because the library emits an unbounded amount of
        // traffic per unit of virtual time is a livelock, not a slow test: if the bytes on the
        // wire exceed 30x everything the applications could ever write (+10 MB), report the
        // retransmission/ACK storm as a violation of "never a hang" (the operations cannot
        // resolve by any deadline); otherwise the scenario was just too big: inconclusive.
        let wire: u64 = msg.split("wire_bytes=").nth(1).and_then(|t| t.split(' ').next()).and_then(|v| v.parse().ok()).unwrap_or(0);
        let intended: u64 = sc.streams.iter().map(|s| s.client.write_len + s.server.write_len + 16).sum();
        if wire > 30 * intended + 10_000_000 {
            sum.count("retransmission_storms", 1);
            known::push_violation(sum, Violation {
                property: "C20".into(),
                signature: if sc.net.forge_ppm > 0 {
                    format!("c20:{}:traffic_storm_under_{}", sc.transport, if sc.net.forge_mode == 1 { "targeted_forgery" } else { "forgery" })
                } else {
                    format!("c20:{}:traffic_storm_no_progress", sc.transport)
                },
                what: format!("class {}: {wire} bytes on the wire for at most {intended} application bytes and the simulation still cannot reach the deadline: {msg}", sc.class),
                replay: json!({"check":"c20","seed":seed,"case":case,"scenario":scenario_json(sc)}),
            }, 3);
            return;
        }
        sum.inconclusive.push(format!("c20: {msg} (seed {seed} case {case} class {}); replay with --replay on {}", sc.class, scenario_json(sc)));
        return;
    }
    known::push_violation(sum, Violation {
        property: "C20".into(),
        signature: format!("c20:{}:panic:{}", sc.transport, known::panic_sig(&msg)),
        what: format!("panic inside the stream scenario: {msg}"),
        replay: json!({"check":"c20","seed":seed,"case":case,"scenario":scenario_json(sc)}),
    }, 3);
}

/// Fault enumeration for small flows: run the flow once without loss to learn how many
/// packets it takes (N), then once per k in 0..N with exactly the k-th packet dropped.
fn kth_enumeration(seed: u64, start: u64, flows: u64, verbose: bool, sum: &mut Summary) {
    const MAX_K: u64 = 96;
    for f in start..start + flows {
        let mut rng = Rng::new(mix(seed, 0x2200_0000 + f));
        let half = |rng: &mut Rng| HalfPlan {
            write_len: *rng.pick(&[0u64, 1, 700, 3000, 9000, 20_000, 40_000]),
            write_chunk: *rng.pick(&[1000usize, 4000, 65_536]),
            finish: if rng.chance(2, 3) { Finish::Shutdown } else { Finish::Drop },
            write_stop_at: None,
            max_read: *rng.pick(&[100usize, 1500, 65_536]),
            read_stop_at: None,
            pause_us: 0,
            pause_every: 0,
            write_api: *rng.pick(&[0u8, 1, 2, 2]),
            write_after_read: false,
        };
        let client = half(&mut rng);
        let mut server = half(&mut rng);
        server.write_after_read = rng.chance(1, 2);
        let base = Scenario {
            transport: "udp",
            class: "kth_enum".into(),
            net: NetSpec { latency_us: 500, net_seed: rng.next(), ..Default::default() },
            client_mtu: *rng.pick(&[None, Some(1250u16), Some(4000)]),
            server_mtu: *rng.pick(&[None, Some(1250u16), Some(4000)]),
            streams: vec![StreamSpec { start_us: 0, client, server }],
            vanish: VanishKind::None,
            vanish_at_us: 0,
            key: rng.next(),
        };
        let case_id = 1_000_000 + f * 1000;
        let clean = match run_one(&base) {
            Ok(c) => c,
            Err(msg) => {
                account_failure(sum, &base, msg, seed, case_id);
                continue;
            }
        };
        account(sum, &base, &clean, seed, case_id);
        let n = clean.net.sent;
        sum.count("kth_flows", 1);
        sum.max("kth_flow_packets_max", n as i64);
        if n <= MAX_K {
            sum.count("kth_flows_fully_enumerated", 1);
        }
        for k in 0..n.min(MAX_K) {
            let mut sc = base.clone();
            sc.net.drop_kth = vec![k];
            match run_one(&sc) {
                Ok(out) => {
                    if verbose {
                        eprintln!("[c20] kth flow {f} k={k}/{n}: dropped {} sent {} virtual {} ms findings {}", out.net.dropped_kth, out.net.sent, out.virtual_ms, out.findings.len());
                    }
                    sum.count("kth_runs", 1);
                    sum.max("kth_recovery_virtual_ms_max", out.virtual_ms as i64);
                    account(sum, &sc, &out, seed, case_id + 1 + k);
                }
                Err(msg) => account_failure(sum, &sc, msg, seed, case_id + 1 + k),
            }
        }
    }
}

pub fn run(args: &BTreeMap<String, String>, sum: &mut Summary) {
    let seed = vq_util::arg_u64(args, "seed", 1);
    let iters = vq_util::arg_u64(args, "iters", 20);
    let transport = vq_util::arg_str(args, "transport", "both").to_string();
    let tcp_iters = vq_util::arg_u64(args, "tcp-iters", (iters / 6).max(1));
    let start = vq_util::arg_u64(args, "start", 0);
    let only = args.get("class").cloned();
    let verbose = args.contains_key("verbose");
    let heavy_reorder = vq_util::arg_u64(args, "heavy-reorder", 0) == 1;
    WALL_BUDGET_MS.store(vq_util::arg_u64(args, "scenario-cpu-ms", vq_util::arg_u64(args, "scenario-wall-ms", 30_000)), std::sync::atomic::Ordering::Relaxed);
    TRACE_PACKETS.store(args.contains_key("trace"), std::sync::atomic::Ordering::Relaxed);
    let kth_flows = vq_util::arg_u64(args, "kth-flows", if only.is_none() { (iters / 25).max(1) } else { 0 });
    if (transport == "udp" || transport == "both") && kth_flows > 0 {
        kth_enumeration(seed, start, kth_flows, verbose, sum);
    }
    if transport == "udp" || transport == "both" {
        for case in start..start + iters {
            let sc = gen_sim_scenario(seed, case, only.as_deref(), heavy_reorder);
            let t0 = std::time::Instant::now();
            match run_one(&sc) {
                Ok(out) => {
                    if verbose {
                        eprintln!("[c20] case {case} {} virtual {} ms wall {} ms net {:?} findings {}", sc.class, out.virtual_ms, t0.elapsed().as_millis(), out.net, out.findings.len());
                    }
                    account(sum, &sc, &out, seed, case);
                }
                Err(msg) => account_failure(sum, &sc, msg, seed, case),
            }
        }
    }
    if transport == "tcp" || transport == "both" {
        for case in start..start + tcp_iters {
            let sc = gen_tcp_scenario(seed, case);
            match run_one(&sc) {
                Ok(out) => account(sum, &sc, &out, seed, case),
                Err(msg) => account_failure(sum, &sc, msg, seed, case),
            }
        }
    }
    if sum.evaluations == 0 {
        sum.inconclusive.push("c20: nothing was run".into());
    }
}

pub fn replay(r: &Value, sum: &mut Summary) {
    let sc = scenario_from(&r["scenario"]);
    TRACE_PACKETS.store(std::env::args().any(|a| a == "--trace"), std::sync::atomic::Ordering::Relaxed);
    if let Some(ms) = std::env::args().skip_while(|a| a != "--scenario-cpu-ms" && a != "--scenario-wall-ms").nth(1).and_then(|v| v.parse::<u64>().ok()) {
        WALL_BUDGET_MS.store(ms, std::sync::atomic::Ordering::Relaxed);
    }
    eprintln!("[c20 replay] {}", scenario_json(&sc));
    match run_one(&sc) {
        Ok(out) => {
            eprintln!("[c20 replay] virtual {} ms, net {:?}", out.virtual_ms, out.net);
            for e in &out.errors {
                eprintln!("[c20 replay] error {} at {} ms: {}", e.0, e.1 / 1000, e.2);
            }
            for f in &out.findings {
                eprintln!("[c20 replay] FINDING {}: {}", f.sig, f.what);
            }
            account(sum, &sc, &out, r["seed"].as_u64().unwrap_or(0), r["case"].as_u64().unwrap_or(0));
        }
        Err(msg) => account_failure(sum, &sc, msg, r["seed"].as_u64().unwrap_or(0), r["case"].as_u64().unwrap_or(0)),
    }
}
