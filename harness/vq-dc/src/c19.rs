//! C19 — dc: a key ID is accepted at most once and issued at most once.
//!
//! (a) `path::secret::receiver::State` against an exact {accepted set, max} model,
//! (b) concurrent receivers on one shared `State` (history monitor),
//! (c) concurrent sealers vs. genuine StaleKey deliveries on one path secret.
//!
//! The model is written from the property text only:
//!   Ok is REQUIRED  iff id != MAX, id not yet accepted, and (id > max or max - id < 896);
//!   Ok is FORBIDDEN iff id was accepted before (or id == MAX: "the reserved maximum ID
//!                   excepted" — accepting it is counted, not flagged, see below);
//!   otherwise (unseen id at distance >= 896 below max) either outcome is allowed.

use crate::known::{self, Recorder, Suite};
use s2n_codec::{DecoderBufferMut, EncoderBuffer};
use s2n_quic_core::{endpoint, varint::VarInt};
use s2n_quic_dc::{
    credentials::{Credentials, Id},
    packet::{secret_control as control, WireVersion},
    path::secret::receiver::{Error as RxError, State},
    stream::TransportFeatures,
};
use std::{
    collections::{BTreeMap, BTreeSet, HashMap, HashSet},
    net::SocketAddr,
    sync::{
        atomic::{AtomicU64, Ordering},
        Arc, Barrier,
    },
};
use vq_util::{json, mix, Rng, Summary, Value, Violation};

pub const WINDOW: u64 = 896;
const MAX_ID: u64 = (1u64 << 62) - 1;

fn creds(id: u64) -> Credentials {
    Credentials {
        id: Id::from([7u8; 16]),
        key_id: VarInt::new(id).expect("id fits a varint"),
    }
}

// ---------------------------------------------------------------------------------------
// (a) sequential model
// ---------------------------------------------------------------------------------------

#[derive(Default)]
struct Model {
    accepted: HashSet<u64>,
    max: Option<u64>,
}

#[derive(Clone, Copy, PartialEq, Eq, Debug)]
enum Expect {
    MustAccept,
    MustReject,
    Either,
}

impl Model {
    fn expect(&self, id: u64) -> Expect {
        if self.accepted.contains(&id) {
            return Expect::MustReject;
        }
        if id == MAX_ID {
            // "the reserved maximum ID excepted": not required to be accepted
            return Expect::Either;
        }
        match self.max {
            None => Expect::MustAccept,
            Some(m) if id > m || m - id < WINDOW => Expect::MustAccept,
            _ => Expect::Either,
        }
    }
    fn on_ok(&mut self, id: u64) {
        self.accepted.insert(id);
        self.max = Some(self.max.map_or(id, |m| m.max(id)));
    }
}

const F_OK_NEW_MAX: u32 = 1 << 0;
const F_OK_REORDER: u32 = 1 << 1;
const F_DUP_IN_WINDOW: u32 = 1 << 2;
const F_DUP_OUT_WINDOW: u32 = 1 << 3;
const F_OLD_UNSEEN: u32 = 1 << 4;
const F_EDGE_895: u32 = 1 << 5;
const F_EDGE_896: u32 = 1 << 6;
const F_EDGE_897: u32 = 1 << 7;
const F_JUMP_GT_WINDOW: u32 = 1 << 8;
const F_JUMP_HUGE: u32 = 1 << 9;
const F_MAX_ID: u32 = 1 << 10;
const F_FIRST_NONZERO: u32 = 1 << 11;
const F_JUMP_EXACT_WINDOW: u32 = 1 << 12;
const F_OLD_UNSEEN_ACCEPTED: u32 = 1 << 13;

const CLASSES: &[&str] = &[
    "dense_perm",
    "edges",
    "jumps",
    "max_id",
    "sorted",
    "reversed",
    "random",
    "replays",
];

/// generate one segment of ids of class `class`, given the model's current max
fn gen_segment(rng: &mut Rng, class: usize, cur_max: Option<u64>, out: &mut Vec<u64>) {
    let base = cur_max.unwrap_or_else(|| match rng.below(4) {
        0 => 0,
        1 => rng.below(2000),
        2 => 1 << 40,
        _ => rng.below(1 << 61),
    });
    let cap = |v: u64| v.min(MAX_ID - 1);
    match class {
        0 => {
            // dense permutation within +-1000 of a moving max
            let mut m = base;
            for _ in 0..rng.range(1, 6) {
                let lo = m.saturating_sub(1000);
                let hi = cap(m + 1000);
                let n = rng.range(50, 600) as usize;
                let mut ids: Vec<u64> = (0..n).map(|_| rng.range(lo, hi)).collect();
                if rng.chance(1, 2) {
                    // a real permutation of a contiguous block
                    let start = rng.range(lo, hi);
                    let len = rng.range(1, 400);
                    ids = (start..=cap(start + len)).collect();
                    rng.shuffle(&mut ids);
                }
                m = ids.iter().copied().max().unwrap_or(m).max(m);
                out.extend(ids);
            }
        }
        1 => {
            // exact window edges around a known max
            let m = cap(base.max(rng.range(897, 5000)) + rng.below(3000));
            out.push(m);
            let mut ds = vec![893u64, 894, 895, 896, 897, 898, 1, 0, 2, 1791, 1792, 1793];
            rng.shuffle(&mut ds);
            for d in &ds {
                if m >= *d {
                    out.push(m - d);
                }
            }
            // now move the max by small steps and re-probe the same distances
            let step = rng.range(1, 3);
            let m2 = cap(m + step);
            out.push(m2);
            for d in [895u64, 896, 897, 894] {
                if m2 >= d {
                    out.push(m2 - d);
                }
            }
            // jump by exactly WINDOW / WINDOW +- 1 and look back
            let j = *rng.pick(&[895u64, 896, 897]);
            let m3 = cap(m2 + j);
            out.push(m3);
            for d in [895u64, 896, 897, j, j + 1, j.saturating_sub(1)] {
                if m3 >= d {
                    out.push(m3 - d);
                }
            }
        }
        2 => {
            // huge jumps, then ids far below
            let mut m = base;
            for _ in 0..rng.range(1, 5) {
                let j = match rng.below(5) {
                    0 => rng.range(897, 5000),
                    1 => 1 << 20,
                    2 => 1 << 40,
                    3 => rng.below(1 << 50),
                    _ => (MAX_ID - 1).saturating_sub(m).min(rng.below(1 << 61)),
                };
                let prev = m;
                m = cap(m.saturating_add(j));
                out.push(m);
                // look back at the old neighbourhood and the new one
                for _ in 0..rng.range(2, 30) {
                    match rng.below(3) {
                        0 => out.push(prev.saturating_sub(rng.below(10))),
                        1 => out.push(m.saturating_sub(rng.below(1000))),
                        _ => out.push(m.saturating_sub(rng.range(890, 900))),
                    }
                }
            }
        }
        3 => {
            // the reserved maximum id
            out.push(MAX_ID);
            if rng.chance(1, 2) {
                out.push(base);
            }
            out.push(MAX_ID);
            if rng.chance(1, 3) {
                out.push(MAX_ID - 1);
                out.push(MAX_ID);
                out.push(MAX_ID - 1);
                out.push(MAX_ID - 2);
                out.push(MAX_ID - 896);
                out.push(MAX_ID - 897);
            }
        }
        4 => {
            let start = base.saturating_sub(rng.below(500));
            let n = rng.range(10, 2500);
            let stride = *rng.pick(&[1u64, 1, 1, 2, 3, 7]);
            let mut v = start;
            for _ in 0..n {
                out.push(cap(v));
                v += stride;
            }
        }
        5 => {
            let start = cap(base + rng.below(2500));
            let n = rng.range(10, 2500);
            for i in 0..n {
                if start >= i {
                    out.push(start - i);
                }
            }
        }
        6 => {
            let n = rng.range(5, 300);
            for _ in 0..n {
                out.push(match rng.below(4) {
                    0 => rng.below(1 << 62).min(MAX_ID),
                    1 => rng.below(4096),
                    2 => cap(base.saturating_add(rng.below(2000))).saturating_sub(rng.below(2000)),
                    _ => rng.below(1 << 32),
                });
            }
        }
        _ => {
            // replay what was already submitted (whole or shuffled suffix)
            if out.is_empty() {
                out.push(base);
                out.push(base);
                return;
            }
            let k = rng.range(1, out.len().min(1500) as u64) as usize;
            let mut tail: Vec<u64> = out[out.len() - k..].to_vec();
            if rng.chance(1, 2) {
                rng.shuffle(&mut tail);
            }
            out.extend(tail);
        }
    }
}

pub struct SeqOutcome {
    pub features: u32,
    pub violation: Option<(String, String, usize)>,
    pub ids_checked: u64,
    pub counters: BTreeMap<&'static str, u64>,
}

/// run one id sequence against the real receiver::State and the model
pub fn run_sequence(ids: &[u64], verbose: bool) -> SeqOutcome {
    let state = State::new();
    let mut model = Model::default();
    let mut features = 0u32;
    let mut counters: BTreeMap<&'static str, u64> = BTreeMap::new();
    let mut bump = |k: &'static str| *counters.entry(k).or_insert(0) += 1;
    let mut violation = None;
    let mut checked = 0u64;

    for (i, &id) in ids.iter().enumerate() {
        let c = creds(id);
        let expect = model.expect(id);
        let dist = model.max.and_then(|m| m.checked_sub(id));
        let pre = state.pre_authentication(&c);
        let post = state.post_authentication(&c);
        checked += 1;
        if verbose {
            eprintln!(
                "[c19a] #{i} id={id} max={:?} dist={:?} expect={:?} pre={:?} post={:?}",
                model.max, dist, expect, pre, post
            );
        }

        // classification (for signatures / counters)
        if i == 0 && id != 0 {
            features |= F_FIRST_NONZERO;
        }
        if id == MAX_ID {
            features |= F_MAX_ID;
            bump("ids_max_id");
        }
        if let Some(m) = model.max {
            if id > m {
                let j = id - m;
                if j == WINDOW {
                    features |= F_JUMP_EXACT_WINDOW;
                }
                if j > WINDOW {
                    features |= F_JUMP_GT_WINDOW;
                    bump("ids_jump_gt_window");
                }
                if j >= 1 << 32 {
                    features |= F_JUMP_HUGE;
                    bump("ids_jump_huge");
                }
            }
        }
        match dist {
            Some(895) => {
                features |= F_EDGE_895;
                bump("ids_edge_895");
            }
            Some(896) => {
                features |= F_EDGE_896;
                bump("ids_edge_896");
            }
            Some(897) => {
                features |= F_EDGE_897;
                bump("ids_edge_897");
            }
            _ => {}
        }

        match (expect, post) {
            (Expect::MustAccept, Ok(())) => {
                if model.max.map_or(true, |m| id > m) {
                    features |= F_OK_NEW_MAX;
                    bump("ok_new_max");
                } else {
                    features |= F_OK_REORDER;
                    bump("ok_in_window_reorder");
                }
                if pre.is_err() {
                    violation = Some((
                        "c19a:pre_rejects_acceptable".to_string(),
                        format!("pre_authentication rejected id {id} ({pre:?}) that post_authentication accepts"),
                        i,
                    ));
                }
                model.on_ok(id);
            }
            (Expect::MustAccept, Err(e)) => {
                let edge = match dist {
                    Some(d) if d >= 890 => format!("dist{d}"),
                    Some(_) => "in_window".to_string(),
                    None => "above_max".to_string(),
                };
                violation = Some((
                    format!("c19a:fresh_id_rejected:{edge}:{e:?}"),
                    format!(
                        "id {id} was never accepted and is {} the highest accepted id {:?}, but post_authentication returned {e:?}",
                        match dist { Some(d) => format!("{d} (< 896) below"), None => "above".into() },
                        model.max
                    ),
                    i,
                ));
            }
            (Expect::MustReject, Ok(())) => {
                violation = Some((
                    format!(
                        "c19a:accepted_twice:{}",
                        match dist {
                            Some(d) if d < WINDOW => "in_window".to_string(),
                            Some(_) => "out_of_window".to_string(),
                            None => "above_max".to_string(),
                        }
                    ),
                    format!("id {id} accepted a second time (max {:?}, distance {:?})", model.max, dist),
                    i,
                ));
            }
            (Expect::MustReject, Err(e)) => {
                match dist {
                    Some(d) if d < WINDOW => {
                        features |= F_DUP_IN_WINDOW;
                        bump("dup_in_window_rejected");
                        if e == RxError::Unknown {
                            bump("dup_in_window_reported_unknown");
                        }
                    }
                    _ => {
                        features |= F_DUP_OUT_WINDOW;
                        bump("dup_out_of_window_rejected");
                    }
                }
            }
            (Expect::Either, Ok(())) => {
                if id == MAX_ID {
                    bump("max_id_accepted");
                } else {
                    features |= F_OLD_UNSEEN_ACCEPTED;
                    bump("old_unseen_accepted");
                }
                model.on_ok(id);
            }
            (Expect::Either, Err(_)) => {
                if id == MAX_ID {
                    bump("max_id_rejected");
                } else {
                    features |= F_OLD_UNSEEN;
                    bump("old_unseen_rejected");
                }
            }
        }
        // soft consistency: the advertised "minimum unseen" id is above everything accepted
        if let Some(m) = model.max {
            let mu = *state.minimum_unseen_key_id();
            if mu <= m && m != MAX_ID {
                bump("min_unseen_not_above_max");
            }
        }
        if violation.is_some() {
            break;
        }
    }
    SeqOutcome {
        features,
        violation,
        ids_checked: checked,
        counters,
    }
}

fn gen_sequence(rng: &mut Rng) -> (Vec<u64>, Vec<usize>) {
    let mut ids = Vec::new();
    let mut classes = Vec::new();
    let segs = rng.range(1, 4);
    // track the max the *model* would have: approximate by the max of submitted ids != MAX
    for _ in 0..segs {
        let class = rng.below(CLASSES.len() as u64) as usize;
        let cur_max = ids.iter().copied().filter(|v| *v != MAX_ID).max();
        // keep away from the very top unless the class wants it
        let cur_max = cur_max.filter(|m| *m < MAX_ID - 10_000);
        let cur_max = if cur_max.is_none() && !ids.is_empty() {
            // we are at the top of the id space: only classes that look back make sense
            Some(MAX_ID - 5000)
        } else {
            cur_max
        };
        gen_segment(rng, class, cur_max, &mut ids);
        classes.push(class);
        if ids.len() > 6000 {
            break;
        }
    }
    (ids, classes)
}

pub fn run_a(seed: u64, iters: u64, sum: &mut Summary) {
    for case in 0..iters {
        let mut rng = Rng::new(mix(seed, 0xA000 + case));
        let (ids, classes) = gen_sequence(&mut rng);
        let out = match std::panic::catch_unwind(|| run_sequence(&ids, false)) {
            Ok(o) => o,
            Err(p) => {
                let msg = known::panic_text(p);
                known::push_violation(sum, Violation {
                    property: "C19".into(),
                    signature: format!("c19a:panic:{}", known::panic_sig(&msg)),
                    what: format!("receiver::State panicked: {msg}"),
                    replay: json!({"check":"c19","mode":"a","seed":seed,"case":case,"ids":ids}),
                }, 3);
                continue;
            }
        };
        sum.evaluations += 1;
        sum.count("a_sequences", 1);
        sum.count("a_ids_checked", out.ids_checked);
        for (k, v) in &out.counters {
            sum.count(&format!("a_{k}"), *v);
        }
        for c in &classes {
            sum.count(&format!("a_class_{}", CLASSES[*c]), 1);
        }
        let nontrivial = out.features
            & (F_OK_REORDER | F_DUP_IN_WINDOW | F_EDGE_895 | F_EDGE_896 | F_EDGE_897 | F_JUMP_GT_WINDOW | F_MAX_ID)
            != 0;
        if nontrivial {
            let mut cm = 0u64;
            for c in &classes {
                cm |= 1 << c;
            }
            sum.signatures.insert(mix(0xC19A, (cm << 32) | out.features as u64));
        } else {
            sum.trivial += 1;
        }
        if case < 3 {
            sum.sample(json!({"mode":"a","classes":classes.iter().map(|c| CLASSES[*c]).collect::<Vec<_>>(),
                "len":ids.len(),"head":ids.iter().take(12).collect::<Vec<_>>(),"features":format!("{:#x}", out.features)}));
        }
        if let Some((sig, what, at)) = out.violation {
            let upto: Vec<u64> = ids[..=at].to_vec();
            known::push_violation(sum, Violation {
                property: "C19".into(),
                signature: sig,
                what: format!("{what} (sequence index {at})"),
                replay: json!({"check":"c19","mode":"a","seed":seed,"case":case,"ids":upto}),
            }, 3);
        }
    }
}

// ---------------------------------------------------------------------------------------
// (b) concurrent receivers on one State
// ---------------------------------------------------------------------------------------

pub struct RoundB {
    pub preseed: Vec<u64>,
    pub lists: Vec<Vec<u64>>,
}

fn gen_round_b(rng: &mut Rng, threads: usize) -> RoundB {
    let base = match rng.below(4) {
        0 => rng.range(0, 200),
        1 => rng.range(900, 5000),
        2 => 1 << 33,
        _ => rng.below(1 << 60),
    };
    let mut preseed = Vec::new();
    if rng.chance(1, 2) {
        let n = rng.range(1, 200);
        for i in 0..n {
            preseed.push(base + i);
        }
    }
    let pre_max = preseed.last().copied().unwrap_or(base);
    // the pool the threads draw from: overlapping, mostly within one window
    let span = *rng.pick(&[8u64, 64, 300, 895, 896, 897, 1500, 3000]);
    let lo = pre_max.saturating_sub(span / 3);
    let hi = pre_max + span;
    let per_thread = rng.range(4, 400) as usize;
    let mut lists = Vec::new();
    let shape = rng.below(4);
    for t in 0..threads {
        let mut l: Vec<u64> = match shape {
            0 => (0..per_thread).map(|_| rng.range(lo, hi)).collect(),
            1 => {
                // everyone submits the same block, in different orders
                let mut v: Vec<u64> = (lo..=hi).take(per_thread.max(8)).collect();
                rng.shuffle(&mut v);
                v
            }
            2 => {
                // ascending interleaved stripes with overlap
                (0..per_thread as u64)
                    .map(|i| lo + i * (threads as u64) / 2 + t as u64 % 2)
                    .collect()
            }
            _ => {
                // one thread races ahead by more than a window, the others fill in behind
                if t == 0 {
                    (0..per_thread as u64).map(|i| hi + i * 300).collect()
                } else {
                    (0..per_thread).map(|_| rng.range(lo, hi)).collect()
                }
            }
        };
        if rng.chance(1, 8) {
            l.push(MAX_ID);
        }
        lists.push(l);
    }
    RoundB { preseed, lists }
}

/// returns (violation, features, counters)
pub fn run_round_b(round: &RoundB, verbose: bool) -> (Option<(String, String)>, u64, BTreeMap<&'static str, u64>) {
    let state = Arc::new(State::new());
    let mut pre_ok: HashSet<u64> = HashSet::new();
    for id in &round.preseed {
        if state.post_authentication(&creds(*id)).is_ok() {
            pre_ok.insert(*id);
        }
    }
    let n = round.lists.len();
    let barrier = Arc::new(Barrier::new(n));
    let results: Vec<Vec<(u64, bool)>> = std::thread::scope(|s| {
        let handles: Vec<_> = round
            .lists
            .iter()
            .map(|list| {
                let state = state.clone();
                let barrier = barrier.clone();
                s.spawn(move || {
                    let mut out = Vec::with_capacity(list.len());
                    barrier.wait();
                    for id in list {
                        let r = state.post_authentication(&creds(*id));
                        out.push((*id, r.is_ok()));
                    }
                    out
                })
            })
            .collect();
        handles.into_iter().map(|h| h.join().expect("receiver thread")).collect()
    });

    let mut counters: BTreeMap<&'static str, u64> = BTreeMap::new();
    let mut ok_count: HashMap<u64, u32> = HashMap::new();
    let mut submitted: BTreeSet<u64> = BTreeSet::new();
    let mut submit_count: HashMap<u64, u32> = HashMap::new();
    let mut calls = 0u64;
    for (t, l) in results.iter().enumerate() {
        for (id, ok) in l {
            calls += 1;
            submitted.insert(*id);
            *submit_count.entry(*id).or_insert(0) += 1;
            if *ok {
                *ok_count.entry(*id).or_insert(0) += 1;
            }
            if verbose {
                eprintln!("[c19b] thread {t} id {id} -> {}", if *ok { "Ok" } else { "Err" });
            }
        }
    }
    *counters.entry("calls").or_insert(0) += calls;
    let global_max = submitted
        .iter()
        .copied()
        .filter(|v| *v != MAX_ID)
        .chain(round.preseed.iter().copied())
        .max()
        .unwrap_or(0);
    let mut features = 0u64;
    let mut violation = None;
    let mut contended = 0u64;
    let mut must = 0u64;
    let mut optional_ok = 0u64;
    for id in &submitted {
        let oks = ok_count.get(id).copied().unwrap_or(0);
        let subs = submit_count[id];
        if subs > 1 {
            contended += 1;
        }
        let total_ok = oks + pre_ok.contains(id) as u32;
        if total_ok > 1 {
            violation = Some((
                "c19b:accepted_twice".to_string(),
                format!("id {id} was accepted {total_ok} times ({} during pre-seed) across {n} threads", pre_ok.contains(id) as u32),
            ));
        }
        if *id != MAX_ID && !pre_ok.contains(id) && global_max.saturating_sub(*id) < WINDOW {
            must += 1;
            if oks == 0 && violation.is_none() {
                violation = Some((
                    "c19b:fresh_id_never_accepted".to_string(),
                    format!(
                        "id {id} (submitted {subs}x) lies within 896 of every possible max (global max {global_max}) and was never accepted before, yet no caller got Ok"
                    ),
                ));
            }
        } else if oks > 0 {
            optional_ok += 1;
        }
    }
    *counters.entry("ids_distinct").or_insert(0) += submitted.len() as u64;
    *counters.entry("ids_contended").or_insert(0) += contended;
    *counters.entry("ids_must_accept").or_insert(0) += must;
    *counters.entry("ids_optional_accepted").or_insert(0) += optional_ok;
    if contended > 0 {
        features |= 1;
    }
    if must > 0 {
        features |= 2;
    }
    if optional_ok > 0 {
        features |= 4;
    }
    if !round.preseed.is_empty() {
        features |= 8;
    }
    let span = submitted.iter().filter(|v| **v != MAX_ID).max().copied().unwrap_or(0)
        - submitted.iter().min().copied().unwrap_or(0);
    features |= (match span {
        0..=63 => 1u64,
        64..=894 => 2,
        895..=897 => 3,
        898..=2000 => 4,
        _ => 5,
    }) << 8;
    features |= (n as u64) << 16;
    (violation, features, counters)
}

fn round_b_json(r: &RoundB) -> Value {
    json!({"preseed": r.preseed, "lists": r.lists})
}

pub fn run_b(seed: u64, rounds: u64, threads_arg: u64, sum: &mut Summary) {
    for case in 0..rounds {
        let mut rng = Rng::new(mix(seed, 0xB000 + case));
        let threads = if threads_arg > 0 { threads_arg } else { rng.range(2, 8) } as usize;
        let round = gen_round_b(&mut rng, threads);
        let res = std::panic::catch_unwind(|| run_round_b(&round, false));
        sum.evaluations += 1;
        sum.count("b_rounds", 1);
        sum.count(&format!("b_threads_{threads}"), 1);
        match res {
            Ok((v, features, counters)) => {
                for (k, c) in counters {
                    sum.count(&format!("b_{k}"), c);
                }
                if features & 1 != 0 {
                    sum.signatures.insert(mix(0xC19B, features));
                } else {
                    sum.trivial += 1;
                }
                if let Some((sig, what)) = v {
                    known::push_violation(sum, Violation {
                        property: "C19".into(),
                        signature: sig,
                        what,
                        replay: json!({"check":"c19","mode":"b","seed":seed,"case":case,"round":round_b_json(&round),
                            "note":"thread interleaving is not reproducible; replay repeats the round 2000 times"}),
                    }, 3);
                }
            }
            Err(p) => {
                let msg = known::panic_text(p);
                known::push_violation(sum, Violation {
                    property: "C19".into(),
                    signature: format!("c19b:panic:{}", known::panic_sig(&msg)),
                    what: format!("panic in concurrent receiver round: {msg}"),
                    replay: json!({"check":"c19","mode":"b","seed":seed,"case":case,"round":round_b_json(&round)}),
                }, 3);
            }
        }
    }
}

// ---------------------------------------------------------------------------------------
// (c) sender uniqueness vs. genuine StaleKey
// ---------------------------------------------------------------------------------------

pub struct RoundC {
    pub suite: Suite,
    pub secret: [u8; 32],
    pub sealers: Vec<Vec<u8>>,     // per thread: api selector per call (0 peer.seal_once, 1 map.seal_once_id, 2 peer.pair)
    pub deliverers: Vec<Vec<u64>>, // per thread: min_key_id values of genuine StaleKey packets
}

fn gen_round_c(rng: &mut Rng, threads: usize) -> RoundC {
    let mut secret = [0u8; 32];
    rng.fill(&mut secret);
    let n_deliver = if threads <= 2 { 1 } else { rng.range(1, (threads as u64 / 2).max(1)) as usize };
    let n_seal = threads - n_deliver;
    let calls = rng.range(20, 400) as usize;
    let sealers = (0..n_seal.max(1))
        .map(|_| (0..calls).map(|_| rng.below(3) as u8).collect())
        .collect();
    let shape = rng.below(4);
    let deliverers = (0..n_deliver)
        .map(|_| {
            let k = rng.range(1, 40);
            let mut cur = 0u64;
            (0..k)
                .map(|_| {
                    match shape {
                        // near the live counter (races with fetch_add)
                        0 => rng.below((calls * n_seal.max(1)) as u64 + 8),
                        // monotone growing jumps
                        1 => {
                            cur += rng.range(1, 5000);
                            cur
                        }
                        // big jumps then values far below (must never lower the counter)
                        2 => {
                            if rng.chance(1, 3) {
                                cur = cur.max(rng.below(1 << 40));
                                cur
                            } else {
                                rng.below(cur + 10)
                            }
                        }
                        _ => *rng.pick(&[0u64, 1, 2, 895, 896, 897, 1 << 20, (1 << 32) + 5, 1 << 45]),
                    }
                })
                .collect()
        })
        .collect();
    RoundC {
        suite: Suite::pick(rng.next()),
        secret,
        sealers,
        deliverers,
    }
}

fn round_c_json(r: &RoundC) -> Value {
    json!({"suite": r.suite.name(), "secret": r.secret.to_vec(), "sealers": r.sealers, "deliverers": r.deliverers})
}

pub fn seal_stale_key(peer_secret: &s2n_quic_dc::path::secret::schedule::Secret, id: Id, min_key_id: u64, queue_id: Option<u64>) -> Vec<u8> {
    let mut buf = [0u8; control::MAX_PACKET_SIZE];
    let len = control::StaleKey {
        wire_version: WireVersion::ZERO,
        credential_id: id,
        queue_id: queue_id.map(|q| VarInt::new(q).unwrap()),
        min_key_id: VarInt::new(min_key_id).unwrap(),
    }
    .encode(EncoderBuffer::new(&mut buf), &peer_secret.control_sealer());
    buf[..len].to_vec()
}

struct SealRec {
    start: u64,
    key_id: u64,
    api: u8,
}
struct StaleRec {
    ret: u64,
    min: u64,
    accepted: bool,
}

pub fn run_round_c(round: &RoundC, map: &s2n_quic_dc::path::secret::Map, peer_addr: SocketAddr, verbose: bool)
    -> (Option<(String, String)>, u64, BTreeMap<&'static str, u64>)
{
    let local = endpoint::Type::Client;
    let ins = known::insert_known(map, peer_addr, &round.secret, round.suite, local, [0x5a; 16], known::test_params());
    let peer_secret = known::peer_secret(&round.secret, round.suite, local);
    let clock = Arc::new(AtomicU64::new(1));
    let n = round.sealers.len() + round.deliverers.len();
    let barrier = Arc::new(Barrier::new(n));
    let id = ins.id;

    let (seals, stales): (Vec<Vec<SealRec>>, Vec<Vec<StaleRec>>) = std::thread::scope(|s| {
        let mut sh = Vec::new();
        for calls in &round.sealers {
            let map = map.clone();
            let clock = clock.clone();
            let barrier = barrier.clone();
            sh.push(s.spawn(move || {
                let mut out = Vec::with_capacity(calls.len());
                let peer = map.get_untracked(peer_addr).expect("entry present");
                barrier.wait();
                for api in calls {
                    let start = clock.fetch_add(1, Ordering::SeqCst);
                    let key_id = match api {
                        0 => *peer.seal_once().1.key_id,
                        1 => *map.seal_once_id(id).expect("id present").1.key_id,
                        _ => *peer.pair(&TransportFeatures::UDP).0.credentials.key_id,
                    };
                    out.push(SealRec { start, key_id, api: *api });
                }
                out
            }));
        }
        let mut dh = Vec::new();
        for mins in &round.deliverers {
            let map = map.clone();
            let clock = clock.clone();
            let barrier = barrier.clone();
            let peer_secret = &peer_secret;
            dh.push(s.spawn(move || {
                let mut out = Vec::with_capacity(mins.len());
                let packets: Vec<Vec<u8>> = mins.iter().map(|m| seal_stale_key(peer_secret, id, *m, None)).collect();
                barrier.wait();
                for (m, mut bytes) in mins.iter().zip(packets) {
                    let (pkt, _) = control::Packet::decode(DecoderBufferMut::new(&mut bytes)).expect("genuine packet decodes");
                    let accepted = match &pkt {
                        control::Packet::StaleKey(p) => map.handle_stale_key_packet(p, &peer_addr).is_some(),
                        _ => unreachable!(),
                    };
                    let ret = clock.fetch_add(1, Ordering::SeqCst);
                    out.push(StaleRec { ret, min: *m, accepted });
                    std::thread::yield_now();
                }
                out
            }));
        }
        (
            sh.into_iter().map(|h| h.join().expect("sealer thread")).collect(),
            dh.into_iter().map(|h| h.join().expect("deliverer thread")).collect(),
        )
    });

    let mut counters: BTreeMap<&'static str, u64> = BTreeMap::new();
    let mut violation = None;
    // uniqueness
    let mut seen: HashMap<u64, (usize, u8)> = HashMap::new();
    let mut total = 0u64;
    for (t, l) in seals.iter().enumerate() {
        for r in l {
            total += 1;
            if verbose {
                eprintln!("[c19c] sealer {t} api {} start {} -> key_id {}", r.api, r.start, r.key_id);
            }
            if let Some((t0, api0)) = seen.insert(r.key_id, (t, r.api)) {
                violation = Some((
                    "c19c:key_id_issued_twice".to_string(),
                    format!("key id {} was issued twice for one path secret (thread {t0} api {api0} and thread {t} api {})", r.key_id, r.api),
                ));
            }
        }
    }
    *counters.entry("key_ids_issued").or_insert(0) += total;
    // lower bound after accepted StaleKey
    let mut acc: Vec<(u64, u64)> = Vec::new();
    let mut delivered = 0u64;
    let mut accepted = 0u64;
    for l in &stales {
        for r in l {
            delivered += 1;
            if verbose {
                eprintln!("[c19c] stale_key min {} accepted {} ret {}", r.min, r.accepted, r.ret);
            }
            if r.accepted {
                accepted += 1;
                acc.push((r.ret, r.min));
            } else if violation.is_none() {
                violation = Some((
                    "c19c:genuine_stale_key_rejected".to_string(),
                    format!("a genuine StaleKey(min_key_id={}) sealed with the path's control key was not accepted", r.min),
                ));
            }
        }
    }
    *counters.entry("stale_key_delivered").or_insert(0) += delivered;
    *counters.entry("stale_key_accepted").or_insert(0) += accepted;
    acc.sort();
    let mut prefix: Vec<(u64, u64)> = Vec::with_capacity(acc.len());
    let mut m = 0u64;
    for (ret, min) in &acc {
        m = m.max(*min);
        prefix.push((*ret, m));
    }
    let mut bounded = 0u64;
    let mut lowered = 0u64;
    for l in &seals {
        for r in l {
            // largest accepted-return stamp strictly before this call's start
            let idx = prefix.partition_point(|(ret, _)| *ret < r.start);
            if idx > 0 {
                let need = prefix[idx - 1].1;
                bounded += 1;
                if r.key_id < need {
                    lowered += 1;
                    if violation.is_none() {
                        violation = Some((
                            "c19c:key_id_below_stale_key_min".to_string(),
                            format!(
                                "key id {} issued after a StaleKey(min_key_id={need}) had been accepted (call started at logical time {}, accept returned at {})",
                                r.key_id, r.start, prefix[idx - 1].0
                            ),
                        ));
                    }
                }
            }
        }
    }
    *counters.entry("key_ids_checked_against_min").or_insert(0) += bounded;
    *counters.entry("key_ids_below_min").or_insert(0) += lowered;
    let mut features = 0u64;
    if accepted > 0 {
        features |= 1;
    }
    if bounded > 0 {
        features |= 2;
    }
    // did any accepted StaleKey carry a min below the counter at that time (backward value)?
    let max_issued = seen.keys().copied().max().unwrap_or(0);
    if acc.iter().any(|(_, min)| *min < max_issued) {
        features |= 4;
    }
    if acc.iter().any(|(_, min)| *min >= 1 << 20) {
        features |= 8;
    }
    features |= (round.sealers.len() as u64) << 8 | (round.deliverers.len() as u64) << 12;
    features |= (round.suite as u64) << 16;
    (violation, features, counters)
}

pub fn run_c(seed: u64, rounds: u64, threads_arg: u64, sum: &mut Summary) {
    let rec = Recorder::new(false);
    let map = known::new_map(64, false, &rec, b"vq-dc-c19");
    for case in 0..rounds {
        let mut rng = Rng::new(mix(seed, 0xC000 + case));
        let threads = if threads_arg > 0 { threads_arg.max(2) } else { rng.range(2, 8) } as usize;
        let round = gen_round_c(&mut rng, threads);
        let peer_addr: SocketAddr = format!("127.0.{}.{}:{}", (case >> 8) & 0xff, case & 0xff, 20000 + (case % 30000)).parse().unwrap();
        let res = std::panic::catch_unwind(std::panic::AssertUnwindSafe(|| run_round_c(&round, &map, peer_addr, false)));
        rec.take();
        sum.evaluations += 1;
        sum.count("c_rounds", 1);
        sum.count(&format!("c_threads_{threads}"), 1);
        match res {
            Ok((v, features, counters)) => {
                for (k, c) in counters {
                    sum.count(&format!("c_{k}"), c);
                }
                if features & 3 == 3 {
                    sum.signatures.insert(mix(0xC19C, features));
                } else {
                    sum.trivial += 1;
                }
                if let Some((sig, what)) = v {
                    known::push_violation(sum, Violation {
                        property: "C19".into(),
                        signature: sig,
                        what,
                        replay: json!({"check":"c19","mode":"c","seed":seed,"case":case,"round":round_c_json(&round),
                            "note":"thread interleaving is not reproducible; replay repeats the round 2000 times"}),
                    }, 3);
                }
            }
            Err(p) => {
                let msg = known::panic_text(p);
                known::push_violation(sum, Violation {
                    property: "C19".into(),
                    signature: format!("c19c:panic:{}", known::panic_sig(&msg)),
                    what: format!("panic in sender round: {msg}"),
                    replay: json!({"check":"c19","mode":"c","seed":seed,"case":case,"round":round_c_json(&round)}),
                }, 3);
            }
        }
    }
}

// ---------------------------------------------------------------------------------------

pub fn run(args: &BTreeMap<String, String>, sum: &mut Summary) {
    let seed = vq_util::arg_u64(args, "seed", 1);
    let iters = vq_util::arg_u64(args, "iters", 2000);
    let threads = vq_util::arg_u64(args, "threads", 0);
    let mode = vq_util::arg_str(args, "mode", "all").to_string();
    if mode == "a" || mode == "all" {
        run_a(seed, vq_util::arg_u64(args, "a-iters", iters), sum);
    }
    if mode == "b" || mode == "all" {
        run_b(seed, vq_util::arg_u64(args, "b-iters", iters), threads, sum);
    }
    if mode == "c" || mode == "all" {
        run_c(seed, vq_util::arg_u64(args, "c-iters", (iters / 2).max(1)), threads, sum);
    }
    if sum.evaluations == 0 {
        sum.inconclusive.push("c19: nothing was run".into());
    }
}

pub fn replay(r: &Value, sum: &mut Summary) {
    let mode = r["mode"].as_str().unwrap_or("a");
    let u64s = |v: &Value| -> Vec<u64> { v.as_array().map(|a| a.iter().filter_map(|x| x.as_u64()).collect()).unwrap_or_default() };
    match mode {
        "a" => {
            let ids = u64s(&r["ids"]);
            let out = run_sequence(&ids, true);
            sum.evaluations += 1;
            if let Some((sig, what, at)) = out.violation {
                known::push_violation(sum, Violation { property: "C19".into(), signature: sig, what: format!("{what} (sequence index {at})"), replay: r.clone() }, 3);
            }
        }
        "b" => {
            let round = RoundB {
                preseed: u64s(&r["round"]["preseed"]),
                lists: r["round"]["lists"].as_array().map(|a| a.iter().map(&u64s).collect()).unwrap_or_default(),
            };
            for i in 0..2000 {
                let (v, _, _) = run_round_b(&round, i == 0);
                sum.evaluations += 1;
                if let Some((sig, what)) = v {
                    known::push_violation(sum, Violation { property: "C19".into(), signature: sig, what: format!("{what} (repeat {i})"), replay: r.clone() }, 3);
                    break;
                }
            }
        }
        _ => {
            let rc = &r["round"];
            let mut secret = [0u8; 32];
            for (i, b) in u64s(&rc["secret"]).iter().take(32).enumerate() {
                secret[i] = *b as u8;
            }
            let round = RoundC {
                suite: if rc["suite"].as_str() == Some(Suite::Aes256.name()) { Suite::Aes256 } else { Suite::Aes128 },
                secret,
                sealers: rc["sealers"].as_array().map(|a| a.iter().map(|l| u64s(l).iter().map(|x| *x as u8).collect()).collect()).unwrap_or_default(),
                deliverers: rc["deliverers"].as_array().map(|a| a.iter().map(&u64s).collect()).unwrap_or_default(),
            };
            for i in 0..2000u64 {
                // a fresh map each time: the same secret cannot be inserted twice into one map
                let rec = Recorder::new(false);
                let map = known::new_map(8, false, &rec, b"vq-dc-c19");
                let peer_addr: SocketAddr = "127.0.0.9:20009".parse().unwrap();
                let (v, _, _) = run_round_c(&round, &map, peer_addr, i == 0);
                sum.evaluations += 1;
                if let Some((sig, what)) = v {
                    known::push_violation(sum, Violation { property: "C19".into(), signature: sig, what: format!("{what} (repeat {i})"), replay: r.clone() }, 3);
                    break;
                }
            }
        }
    }
}
