//! C18 — dc: packets round-trip and only authenticated packets are acted upon.
//!
//! (a) round trip / totality of the six packet forms with real aws-lc keys derived from a
//!     harness-chosen export secret (both cipher suites),
//! (b1) tamper rejection at the codec + crypto boundary (every byte position x masks,
//!      truncations, extensions, splices, insert/delete),
//! (b2) tamper rejection at the `path::secret::Map` for the three secret-control packets:
//!      the map is observed only through its public API and its event subscriber,
//! (b3) tamper rejection for datagram/stream packets opened with keys obtained from the map
//!      (`open_once`, `pair_for_credentials`): replay-window state untouched.
//!
//! Genuine packets sealed with the known secret are the positive controls.

use crate::known::{self, Recorder, Suite};
use s2n_codec::{DecoderBufferMut, EncoderBuffer};
use s2n_quic_core::{
    buffer::reader::incremental::Incremental,
    dc::{self, Endpoint as _},
    endpoint, inet,
    varint::VarInt,
};
use s2n_quic_dc::{
    credentials::{Credentials, Id},
    crypto::{
        open::{Application as _, Control as _},
        UninitSlice,
    },
    packet::{self, secret_control as control, stream::PacketSpace, WireVersion},
    path::secret::{
        schedule::{Initiator, Secret},
        Map,
    },
    psk::io::HandshakeReason,
    stream::TransportFeatures,
};
use std::{
    collections::{BTreeMap, BTreeSet},
    net::SocketAddr,
    panic::{catch_unwind, AssertUnwindSafe},
    sync::{
        atomic::{AtomicU64, Ordering},
        Arc,
    },
    time::{Duration, Instant},
};
use vq_util::{json, mix, prf_vec, Rng, Summary, Value, Violation};

const TAG_LEN: usize = 16;

// ---------------------------------------------------------------------------------------
// specimens
// ---------------------------------------------------------------------------------------

#[derive(Clone, Copy, Debug, PartialEq, Eq, PartialOrd, Ord)]
pub enum Kind {
    Stream,
    StreamRecovery,
    StreamRetransmit,
    Datagram,
    Control,
    StaleKey,
    ReplayDetected,
    UnknownPathSecret,
}

impl Kind {
    pub fn name(self) -> &'static str {
        match self {
            Kind::Stream => "stream",
            Kind::StreamRecovery => "stream_recovery",
            Kind::StreamRetransmit => "stream_retransmit",
            Kind::Datagram => "datagram",
            Kind::Control => "control",
            Kind::StaleKey => "stale_key",
            Kind::ReplayDetected => "replay_detected",
            Kind::UnknownPathSecret => "unknown_path_secret",
        }
    }
    fn from_name(s: &str) -> Kind {
        for k in ALL_KINDS {
            if k.name() == s {
                return *k;
            }
        }
        Kind::Stream
    }
    fn is_secret_control(self) -> bool {
        matches!(self, Kind::StaleKey | Kind::ReplayDetected | Kind::UnknownPathSecret)
    }
}

const ALL_KINDS: &[Kind] = &[
    Kind::Stream,
    Kind::StreamRecovery,
    Kind::StreamRetransmit,
    Kind::Datagram,
    Kind::Control,
    Kind::StaleKey,
    Kind::ReplayDetected,
    Kind::UnknownPathSecret,
];

/// everything a decoded packet tells us, in one comparable record
#[derive(Clone, Debug, PartialEq, Eq, Default)]
pub struct Fields {
    pub kind: &'static str,
    pub tag_byte: u8,
    pub credential_id: [u8; 16],
    pub key_id: Option<u64>,
    pub wire_version: u32,
    pub source_queue_id: Option<u64>,
    pub stream_id: Option<(u64, bool, bool)>,
    pub packet_number: Option<u64>,
    pub is_retransmission: bool,
    pub next_expected_control_packet: Option<u64>,
    pub stream_offset: Option<u64>,
    pub final_offset: Option<u64>,
    pub source_control_port: Option<u16>,
    pub application_header: Vec<u8>,
    pub control_data: Vec<u8>,
    pub payload: Vec<u8>,
    /// StaleKey.min_key_id / ReplayDetected.rejected_key_id
    pub control_value: Option<u64>,
}

#[derive(Clone)]
pub struct KeyCtx {
    pub suite: Suite,
    pub secret: [u8; 32],
    /// credential id derived from the secret (what genuine packets carry)
    pub id: Id,
    /// endpoint type of the *sender* of data packets / *receiver (victim)* of secret-control
    /// packets; the other side is the flip
    pub sender: endpoint::Type,
    /// stateless-reset tag the victim expects on UnknownPathSecret packets
    pub ups_token: [u8; TAG_LEN],
}

impl KeyCtx {
    pub fn new(secret: [u8; 32], suite: Suite, ups_token: [u8; TAG_LEN]) -> Self {
        let sender = endpoint::Type::Server;
        let s = known::local_secret(&secret, suite, sender);
        KeyCtx {
            suite,
            secret,
            id: *s.id(),
            sender,
            ups_token,
        }
    }
    /// the secret as held by the party that SEALS (data packets and secret-control packets
    /// both travel peer -> victim in this harness)
    fn sealing(&self) -> Secret {
        known::local_secret(&self.secret, self.suite, self.sender)
    }
    /// the secret as held by the party that OPENS (the victim)
    fn opening(&self) -> Secret {
        known::local_secret(&self.secret, self.suite, known::flip(self.sender))
    }
}

#[derive(Clone)]
pub struct Specimen {
    pub kind: Kind,
    pub bytes: Vec<u8>,
    pub fields: Fields,
    pub header_len: usize,
    pub payload_len: usize,
}

impl Specimen {
    /// which region of the packet does byte `pos` belong to
    pub fn region(&self, pos: usize) -> &'static str {
        if pos == 0 {
            return "tag_byte";
        }
        if self.kind.is_secret_control() {
            // tag | credential id (16) | wire version (1) | [queue id] | [value] | auth tag
            let auth_start = self.bytes.len() - TAG_LEN;
            return if pos >= auth_start {
                "auth_tag"
            } else if pos <= 16 {
                "credential_id"
            } else if pos == 17 {
                "wire_version"
            } else {
                let q = self.fields.source_queue_id.map(varint_len).unwrap_or(0);
                if pos < 18 + q {
                    "queue_id"
                } else {
                    "key_id_field"
                }
            };
        }
        if pos < self.header_len {
            if pos <= 16 {
                "header_credential_id"
            } else {
                "header"
            }
        } else if pos < self.header_len + self.payload_len {
            "payload"
        } else {
            "auth_tag"
        }
    }
}

fn varint_len(v: u64) -> usize {
    match v {
        0..=63 => 1,
        64..=16383 => 2,
        16384..=1073741823 => 4,
        _ => 8,
    }
}

fn vi(v: u64) -> VarInt {
    VarInt::new(v).expect("varint")
}

fn gen_varint(rng: &mut Rng) -> u64 {
    match rng.below(10) {
        0 => 0,
        1 => 1,
        2 => 63,
        3 => 64,
        4 => 16383,
        5 => 16384,
        6 => (1 << 30) - 1,
        7 => 1 << 30,
        8 => (1 << 62) - 1,
        _ => rng.next() >> (2 + rng.below(60)),
    }
}

fn gen_small_bytes(rng: &mut Rng, max: usize) -> Vec<u8> {
    let n = match rng.below(4) {
        0 => 0,
        1 => rng.range(1, 8) as usize,
        _ => rng.below(max as u64 + 1) as usize,
    };
    let mut v = vec![0u8; n];
    rng.fill(&mut v);
    v
}

fn gen_payload_len(rng: &mut Rng, cap: usize) -> usize {
    (match rng.below(16) {
        0 => 0,
        1 => 1,
        2 => rng.range(2, 16),
        3..=9 => rng.range(16, 300),
        10..=13 => rng.range(300, 1500),
        14 => rng.range(1500, 4000),
        _ => rng.range(4000, 8900),
    } as usize)
        .min(cap)
}

/// build one valid packet of `kind` sealed with keys from `ctx`
pub fn make_specimen(rng: &mut Rng, kind: Kind, ctx: &KeyCtx, payload_cap: usize) -> Specimen {
    let sealing = ctx.sealing();
    match kind {
        Kind::Stream | Kind::StreamRecovery | Kind::StreamRetransmit => {
            let key_id = gen_varint(rng).min((1 << 62) - 2);
            let creds = Credentials { id: ctx.id, key_id: vi(key_id) };
            let (sealer, _, _, _) = sealing.application_pair(vi(key_id), Initiator::Local);
            let (ctl_sealer, _) = sealing.control_pair(vi(key_id), Initiator::Local);
            let mut sid = packet::stream::Id::default()
                .with_queue_id(vi(gen_varint(rng) % (1 << 60)))
                .expect("queue id");
            if rng.chance(1, 2) || kind == Kind::StreamRetransmit {
                sid = sid.reliable();
            }
            if rng.chance(1, 2) {
                sid = sid.bidirectional();
            }
            let source_queue_id = if rng.chance(1, 2) { Some(gen_varint(rng)) } else { None };
            // retransmission needs pn + relative offset (u32) to stay a varint
            let pn = if kind == Kind::StreamRetransmit { gen_varint(rng) >> 2 } else { gen_varint(rng) };
            let next_ctl = gen_varint(rng);
            let app_header = gen_small_bytes(rng, 40);
            let control_data = gen_small_bytes(rng, 60);
            let payload_len = if kind == Kind::StreamRecovery { 0 } else { gen_payload_len(rng, payload_cap) };
            let offset = gen_varint(rng) >> 1;
            let payload = prf_vec(rng.next(), offset, payload_len);
            let is_fin = rng.chance(1, 3);
            let cap = 256 + app_header.len() + control_data.len() + payload_len + TAG_LEN;
            let mut buf = vec![0u8; cap];
            let mut inc = Incremental::new(vi(offset));
            let mut storage: &[u8] = &payload;
            let mut reader = inc.with_storage(&mut storage, is_fin).expect("reader");
            let mut hdr: &[u8] = &app_header;
            let cd: &[u8] = &control_data;
            let len = if kind == Kind::StreamRecovery {
                packet::stream::encoder::probe(
                    EncoderBuffer::new(&mut buf),
                    source_queue_id.map(vi),
                    sid,
                    vi(pn),
                    vi(next_ctl),
                    vi(app_header.len() as u64),
                    &mut hdr,
                    vi(control_data.len() as u64),
                    &cd,
                    &mut reader,
                    &ctl_sealer,
                    &creds,
                )
            } else {
                packet::stream::encoder::encode(
                    EncoderBuffer::new(&mut buf),
                    source_queue_id.map(vi),
                    sid,
                    vi(pn),
                    vi(next_ctl),
                    vi(app_header.len() as u64),
                    &mut hdr,
                    vi(control_data.len() as u64),
                    &cd,
                    &mut reader,
                    &sealer,
                    &creds,
                )
            };
            buf.truncate(len);
            let mut fields = Fields {
                kind: "stream",
                tag_byte: buf[0],
                credential_id: *ctx.id,
                key_id: Some(key_id),
                source_queue_id,
                stream_id: Some((*sid.queue_id(), sid.is_reliable, sid.is_bidirectional)),
                packet_number: Some(pn),
                next_expected_control_packet: Some(next_ctl),
                stream_offset: Some(offset),
                final_offset: if is_fin { Some(offset + payload_len as u64) } else { None },
                application_header: app_header.clone(),
                control_data: control_data.clone(),
                payload: payload.clone(),
                ..Default::default()
            };
            if kind == Kind::StreamRetransmit {
                let rel = rng.range(1, u32::MAX as u64);
                let space = if rng.chance(1, 2) { PacketSpace::Stream } else { PacketSpace::Recovery };
                packet::stream::decoder::Packet::retransmit(DecoderBufferMut::new(&mut buf), space, vi(pn + rel), &ctl_sealer)
                    .expect("retransmit");
                fields.packet_number = Some(pn + rel);
                fields.is_retransmission = true;
                fields.tag_byte = buf[0];
            }
            let header_len = len - payload_len - TAG_LEN;
            Specimen { kind, bytes: buf, fields, header_len, payload_len }
        }
        Kind::Datagram => {
            let key_id = gen_varint(rng).min((1 << 62) - 2);
            let creds = Credentials { id: ctx.id, key_id: vi(key_id) };
            let sealer = sealing.application_sealer(vi(key_id));
            let port = rng.next() as u16;
            let (pn, next_ctl) = match rng.below(3) {
                0 => (None, None),
                1 => (Some(gen_varint(rng)), None),
                _ => (Some(gen_varint(rng)), Some(gen_varint(rng))),
            };
            let app_header = gen_small_bytes(rng, 40);
            let control_data = if next_ctl.is_some() { gen_small_bytes(rng, 60) } else { vec![] };
            let payload_len = gen_payload_len(rng, payload_cap);
            let payload = prf_vec(rng.next(), 0, payload_len);
            let cap = 256 + app_header.len() + control_data.len() + payload_len + TAG_LEN;
            let mut buf = vec![0u8; cap];
            let mut hdr: &[u8] = &app_header;
            let cd: &[u8] = &control_data;
            let mut pl: &[u8] = &payload;
            let len = packet::datagram::encoder::encode(
                EncoderBuffer::new(&mut buf),
                port,
                pn.map(vi),
                next_ctl.map(vi),
                vi(app_header.len() as u64),
                &mut hdr,
                &cd,
                vi(payload_len as u64),
                &mut pl,
                &sealer,
                &creds,
            );
            buf.truncate(len);
            let fields = Fields {
                kind: "datagram",
                tag_byte: buf[0],
                credential_id: *ctx.id,
                key_id: Some(key_id),
                source_control_port: Some(port),
                // the decoder reports packet number 0 for unconnected datagrams
                packet_number: Some(pn.unwrap_or(0)),
                next_expected_control_packet: next_ctl,
                application_header: app_header,
                control_data,
                payload,
                ..Default::default()
            };
            let header_len = len - payload_len - TAG_LEN;
            Specimen { kind, bytes: buf, fields, header_len, payload_len }
        }
        Kind::Control => {
            let key_id = gen_varint(rng).min((1 << 62) - 2);
            let creds = Credentials { id: ctx.id, key_id: vi(key_id) };
            let (ctl_sealer, _) = sealing.control_pair(vi(key_id), Initiator::Local);
            let sid = if rng.chance(2, 3) {
                let mut s = packet::stream::Id::default().with_queue_id(vi(gen_varint(rng) % (1 << 60))).expect("qid");
                if rng.chance(1, 2) {
                    s = s.reliable();
                }
                if rng.chance(1, 2) {
                    s = s.bidirectional();
                }
                Some(s)
            } else {
                None
            };
            let source_queue_id = if rng.chance(1, 2) { Some(gen_varint(rng)) } else { None };
            let pn = gen_varint(rng);
            let app_header = gen_small_bytes(rng, 40);
            let control_data = gen_small_bytes(rng, 400);
            let mut buf = vec![0u8; 256 + app_header.len() + control_data.len() + TAG_LEN];
            let mut hdr: &[u8] = &app_header;
            let cd: &[u8] = &control_data;
            let len = packet::control::encoder::encode(
                EncoderBuffer::new(&mut buf),
                source_queue_id.map(vi),
                sid,
                vi(pn),
                vi(app_header.len() as u64),
                &mut hdr,
                vi(control_data.len() as u64),
                &cd,
                &ctl_sealer,
                &creds,
            );
            buf.truncate(len);
            let fields = Fields {
                kind: "control",
                tag_byte: buf[0],
                credential_id: *ctx.id,
                key_id: Some(key_id),
                source_queue_id,
                stream_id: sid.map(|s| (*s.queue_id(), s.is_reliable, s.is_bidirectional)),
                packet_number: Some(pn),
                application_header: app_header,
                control_data,
                ..Default::default()
            };
            Specimen { kind, bytes: buf, fields, header_len: len - TAG_LEN, payload_len: 0 }
        }
        Kind::StaleKey | Kind::ReplayDetected => {
            let queue_id = if rng.chance(1, 2) { Some(gen_varint(rng)) } else { None };
            let value = gen_varint(rng);
            let mut buf = [0u8; control::MAX_PACKET_SIZE];
            let sealer = sealing.control_sealer();
            let len = if kind == Kind::StaleKey {
                control::StaleKey { wire_version: WireVersion::ZERO, credential_id: ctx.id, queue_id: queue_id.map(vi), min_key_id: vi(value) }
                    .encode(EncoderBuffer::new(&mut buf), &sealer)
            } else {
                control::ReplayDetected { wire_version: WireVersion::ZERO, credential_id: ctx.id, queue_id: queue_id.map(vi), rejected_key_id: vi(value) }
                    .encode(EncoderBuffer::new(&mut buf), &sealer)
            };
            let fields = Fields {
                kind: kind.name(),
                tag_byte: buf[0],
                credential_id: *ctx.id,
                source_queue_id: queue_id,
                control_value: Some(value),
                ..Default::default()
            };
            Specimen { kind, bytes: buf[..len].to_vec(), fields, header_len: len - TAG_LEN, payload_len: 0 }
        }
        Kind::UnknownPathSecret => {
            let queue_id = if rng.chance(1, 2) { Some(gen_varint(rng)) } else { None };
            let mut buf = [0u8; control::MAX_PACKET_SIZE];
            let len = control::UnknownPathSecret { wire_version: WireVersion::ZERO, credential_id: ctx.id, queue_id: queue_id.map(vi) }
                .encode(EncoderBuffer::new(&mut buf), &ctx.ups_token);
            let fields = Fields {
                kind: kind.name(),
                tag_byte: buf[0],
                credential_id: *ctx.id,
                source_queue_id: queue_id,
                ..Default::default()
            };
            Specimen { kind, bytes: buf[..len].to_vec(), fields, header_len: len - TAG_LEN, payload_len: 0 }
        }
    }
}

// ---------------------------------------------------------------------------------------
// opening a byte string the way a receiver holding the path secret would
// ---------------------------------------------------------------------------------------

#[derive(Debug, Clone, PartialEq, Eq)]
pub enum Opened {
    DecodeErr,
    /// decoded, but names a path secret the receiver does not hold
    UnknownCredentials,
    AuthErr(String),
    Ok { fields: Box<Fields>, consumed: usize },
}

/// decode `bytes` with the generic packet decoder and authenticate/decrypt with keys
/// derived from the receiver's copy of the secret **for the credentials the packet names**
pub fn open(bytes: &[u8], ctx: &KeyCtx, alt_decrypt: bool) -> Opened {
    let mut buf = bytes.to_vec();
    let total = buf.len();
    let opening = ctx.opening();
    let decoder = DecoderBufferMut::new(&mut buf);
    let (pkt, rest) = match decoder.decode_parameterized::<packet::Packet>(TAG_LEN) {
        Ok(v) => v,
        Err(_) => return Opened::DecodeErr,
    };
    let consumed = total - rest.len();
    match pkt {
        packet::Packet::Stream(mut p) => {
            let c = *p.credentials();
            if c.id != ctx.id {
                return Opened::UnknownCredentials;
            }
            let (_, _, opener, _) = opening.application_pair(c.key_id, Initiator::Remote);
            let (_, ctl_opener) = opening.control_pair(c.key_id, Initiator::Remote);
            let mut out = vec![0u8; p.payload().len()];
            let res = if alt_decrypt {
                p.decrypt(&opener, &ctl_opener, UninitSlice::new(&mut out))
            } else {
                let r = p.decrypt_in_place(&opener, &ctl_opener);
                if r.is_ok() {
                    out.copy_from_slice(p.payload());
                }
                r
            };
            if let Err(e) = res {
                return Opened::AuthErr(format!("{e:?}"));
            }
            let sid = *p.stream_id();
            let fields = Fields {
                kind: "stream",
                tag_byte: p.header()[0] | (u8::from(p.tag()) & 0),
                credential_id: *c.id,
                key_id: Some(*c.key_id),
                wire_version: p.wire_version().0,
                source_queue_id: p.source_queue_id().map(|v| *v),
                stream_id: Some((*sid.queue_id(), sid.is_reliable, sid.is_bidirectional)),
                packet_number: Some(*p.packet_number()),
                is_retransmission: p.is_retransmission(),
                next_expected_control_packet: Some(*p.next_expected_control_packet()),
                stream_offset: Some(*p.stream_offset()),
                final_offset: p.final_offset().map(|v| *v),
                application_header: p.application_header().to_vec(),
                control_data: p.control_data().to_vec(),
                payload: out,
                ..Default::default()
            };
            Opened::Ok { fields: Box::new(fields), consumed }
        }
        packet::Packet::Datagram(p) => {
            let c = *p.credentials();
            if c.id != ctx.id {
                return Opened::UnknownCredentials;
            }
            let opener = opening.application_opener(c.key_id);
            let mut out = vec![0u8; p.payload().len()];
            if let Err(e) = opener.decrypt(
                p.tag().key_phase(),
                p.crypto_nonce(),
                p.header(),
                p.payload(),
                p.auth_tag(),
                UninitSlice::new(&mut out),
            ) {
                return Opened::AuthErr(format!("{e:?}"));
            }
            let fields = Fields {
                kind: "datagram",
                tag_byte: u8::from(p.tag()),
                credential_id: *c.id,
                key_id: Some(*c.key_id),
                wire_version: p.wire_version().0,
                source_control_port: Some(p.source_control_port()),
                packet_number: Some(*p.packet_number()),
                next_expected_control_packet: p.next_expected_control_packet().map(|v| *v),
                application_header: p.application_header().to_vec(),
                control_data: p.control_data().to_vec(),
                payload: out,
                ..Default::default()
            };
            Opened::Ok { fields: Box::new(fields), consumed }
        }
        packet::Packet::Control(p) => {
            let c = *p.credentials();
            if c.id != ctx.id {
                return Opened::UnknownCredentials;
            }
            let (_, ctl_opener) = opening.control_pair(c.key_id, Initiator::Remote);
            if let Err(e) = ctl_opener.verify(p.header(), p.auth_tag()) {
                return Opened::AuthErr(format!("{e:?}"));
            }
            let fields = Fields {
                kind: "control",
                tag_byte: u8::from(p.tag()),
                credential_id: *c.id,
                key_id: Some(*c.key_id),
                wire_version: p.wire_version().0,
                source_queue_id: p.source_queue_id().map(|v| *v),
                stream_id: p.stream_id().map(|s| (*s.queue_id(), s.is_reliable, s.is_bidirectional)),
                packet_number: Some(*p.packet_number()),
                application_header: p.application_header().to_vec(),
                control_data: p.control_data().to_vec(),
                ..Default::default()
            };
            Opened::Ok { fields: Box::new(fields), consumed }
        }
        packet::Packet::StaleKey(p) => {
            if *p.credential_id() != ctx.id {
                return Opened::UnknownCredentials;
            }
            match p.authenticate(&opening.control_opener()) {
                None => Opened::AuthErr("InvalidTag".into()),
                Some(v) => Opened::Ok {
                    fields: Box::new(Fields {
                        kind: "stale_key",
                        tag_byte: bytes[0],
                        credential_id: *v.credential_id,
                        wire_version: v.wire_version.0,
                        source_queue_id: v.queue_id.map(|q| *q),
                        control_value: Some(*v.min_key_id),
                        ..Default::default()
                    }),
                    consumed,
                },
            }
        }
        packet::Packet::ReplayDetected(p) => {
            if *p.credential_id() != ctx.id {
                return Opened::UnknownCredentials;
            }
            match p.authenticate(&opening.control_opener()) {
                None => Opened::AuthErr("InvalidTag".into()),
                Some(v) => Opened::Ok {
                    fields: Box::new(Fields {
                        kind: "replay_detected",
                        tag_byte: bytes[0],
                        credential_id: *v.credential_id,
                        wire_version: v.wire_version.0,
                        source_queue_id: v.queue_id.map(|q| *q),
                        control_value: Some(*v.rejected_key_id),
                        ..Default::default()
                    }),
                    consumed,
                },
            }
        }
        packet::Packet::UnknownPathSecret(p) => {
            if *p.credential_id() != ctx.id {
                return Opened::UnknownCredentials;
            }
            match p.authenticate(&ctx.ups_token) {
                None => Opened::AuthErr("InvalidTag".into()),
                Some(v) => Opened::Ok {
                    fields: Box::new(Fields {
                        kind: "unknown_path_secret",
                        tag_byte: bytes[0],
                        credential_id: *v.credential_id,
                        wire_version: v.wire_version.0,
                        source_queue_id: v.queue_id.map(|q| *q),
                        ..Default::default()
                    }),
                    consumed,
                },
            }
        }
    }
}

fn open_caught(bytes: &[u8], ctx: &KeyCtx, alt: bool) -> Result<Opened, String> {
    catch_unwind(AssertUnwindSafe(|| open(bytes, ctx, alt))).map_err(known::panic_text)
}

// ---------------------------------------------------------------------------------------
// mutation catalogue
// ---------------------------------------------------------------------------------------

#[derive(Clone, Debug)]
pub struct Mutant {
    pub class: &'static str,
    pub region: &'static str,
    pub bytes: Vec<u8>,
    pub detail: String,
}

/// Re-class mutants that merely *start with* a complete genuine packet (an insert that
/// duplicates the last byte, a splice whose head happens to be a whole packet, ...): to a
/// receiver that decodes one packet and hands back the rest these are the genuine packet
/// followed by garbage, i.e. extensions, not forgeries.
fn mark_genuine_prefixes(mutants: &mut [Mutant], genuine: &[&[u8]]) {
    for m in mutants.iter_mut() {
        if m.class == "extend" {
            continue;
        }
        if genuine.iter().any(|g| m.bytes.len() > g.len() && m.bytes[..g.len()] == **g) {
            m.class = "extend";
            m.region = "length";
        }
    }
}

/// the specimen's fields as the generic decoder reports them
fn expected_fields(s: &Specimen) -> Fields {
    let mut expect = s.fields.clone();
    if expect.kind.starts_with("stream") {
        expect.kind = "stream";
    }
    expect
}

/// which decoded field of an accepted mutant differs from the genuine packet it was made from
/// (for splices: from whichever of the genuine packets involved it is closest to)
fn accepted_field(s: &Specimen, siblings: &[Specimen], m: &Mutant, ctx: &KeyCtx) -> &'static str {
    let first = accepted_field_one(s, m, ctx);
    if m.class != "splice" {
        return first;
    }
    let mut best = first;
    let rank = |f: &str| match f {
        "recovery_bit" => 0,
        "source_queue_id" => 1,
        "no_field(non_canonical_encoding)" => 2,
        _ => 3,
    };
    for sib in siblings {
        if sib.kind == s.kind {
            let f = accepted_field_one(sib, m, ctx);
            if rank(f) < rank(best) {
                best = f;
            }
        }
    }
    best
}

fn accepted_field_one(s: &Specimen, m: &Mutant, ctx: &KeyCtx) -> &'static str {
    match open_caught(&m.bytes, ctx, false) {
        Ok(Opened::Ok { fields, .. }) => {
            let mut got = *fields;
            let mut expect = expected_fields(s);
            if s.kind == Kind::StreamRetransmit {
                // the recovery bit is reported through the region name (tag_byte)
                if (got.tag_byte ^ expect.tag_byte) & !packet::stream::Tag::IS_RECOVERY_PACKET == 0 {
                    got.tag_byte = expect.tag_byte;
                    if got == expect {
                        return "recovery_bit";
                    }
                }
                expect.tag_byte = got.tag_byte;
            }
            match diff_field(&got, &expect) {
                "consumed_len" => "no_field(non_canonical_encoding)",
                // a changed first byte that only toggles the presence of the queue id shows up
                // as a queue id difference as well: name the field
                "tag_byte" if got.source_queue_id != expect.source_queue_id => "source_queue_id",
                f => f,
            }
        }
        _ => m.region,
    }
}

/// positions to sweep for a packet: every position if it is small, otherwise every header
/// and tag byte plus a sample of payload bytes
fn sweep_positions(rng: &mut Rng, s: &Specimen, full_limit: usize) -> Vec<usize> {
    let n = s.bytes.len();
    if n <= full_limit {
        return (0..n).collect();
    }
    let mut v: Vec<usize> = (0..s.header_len).collect();
    v.extend(n - TAG_LEN..n);
    let pstart = s.header_len;
    let pend = n - TAG_LEN;
    v.push(pstart);
    v.push(pend - 1);
    for _ in 0..256 {
        v.push(rng.range(pstart as u64, pend as u64 - 1) as usize);
    }
    v.sort_unstable();
    v.dedup();
    v
}

fn xor_mutants(rng: &mut Rng, s: &Specimen, positions: &[usize], out: &mut Vec<Mutant>) {
    for &pos in positions {
        let r = loop {
            let r = rng.next() as u8;
            if r != 0 {
                break r;
            }
        };
        // the first byte carries the packet-kind / flag bits: try every single bit there
        let masks: Vec<u8> = if pos == 0 {
            vec![0x01, 0x02, 0x04, 0x08, 0x10, 0x20, 0x40, 0x80, 0xff, r]
        } else {
            vec![0x01, 0x80, 0xff, r]
        };
        for mask in masks {
            let mut b = s.bytes.clone();
            b[pos] ^= mask;
            out.push(Mutant {
                class: "xor",
                region: s.region(pos),
                bytes: b,
                detail: format!("pos={pos} mask={mask:#04x}"),
            });
        }
    }
}

fn length_mutants(rng: &mut Rng, s: &Specimen, out: &mut Vec<Mutant>) {
    let n = s.bytes.len();
    // truncations: every length for small packets, sampled otherwise
    let lens: Vec<usize> = if n <= 160 {
        (0..n).collect()
    } else {
        let mut v: Vec<usize> = (0..40).collect();
        v.extend(n - 40..n);
        v.extend((0..40).map(|_| rng.below(n as u64) as usize));
        v.sort_unstable();
        v.dedup();
        v
    };
    for l in lens {
        out.push(Mutant { class: "truncate", region: "length", bytes: s.bytes[..l].to_vec(), detail: format!("len={l}") });
    }
    // insert / delete one byte
    for _ in 0..8 {
        let pos = rng.below(n as u64) as usize;
        let mut b = s.bytes.clone();
        b.insert(pos, rng.next() as u8);
        out.push(Mutant { class: "insert", region: s.region(pos), bytes: b, detail: format!("pos={pos}") });
        let mut b = s.bytes.clone();
        b.remove(pos);
        out.push(Mutant { class: "delete", region: s.region(pos), bytes: b, detail: format!("pos={pos}") });
    }
}

fn extension_mutants(rng: &mut Rng, s: &Specimen, out: &mut Vec<Mutant>) {
    for k in [1usize, 2, 15, 16, 17, 64] {
        let mut b = s.bytes.clone();
        let mut extra = vec![0u8; k];
        rng.fill(&mut extra);
        b.extend(extra);
        out.push(Mutant { class: "extend", region: "length", bytes: b, detail: format!("extra={k}") });
    }
}

fn splice_mutants(rng: &mut Rng, a: &Specimen, b: &Specimen, out: &mut Vec<Mutant>) {
    let (na, nb) = (a.bytes.len(), b.bytes.len());
    let mut push = |bytes: Vec<u8>, detail: String| {
        if bytes == a.bytes || bytes == b.bytes {
            return;
        }
        // if the result differs from one of the two genuine packets in a single region only,
        // name that region (it is then the same forgery as a mutation of that region)
        let mut region = "splice";
        for base in [a, b] {
            if base.bytes.len() == bytes.len() {
                let mut regions = BTreeSet::new();
                for (i, (x, y)) in base.bytes.iter().zip(&bytes).enumerate() {
                    if x != y {
                        regions.insert(base.region(i));
                    }
                }
                if regions.len() == 1 {
                    region = regions.into_iter().next().unwrap_or("splice");
                    break;
                }
            }
        }
        out.push(Mutant { class: "splice", region, bytes, detail });
    };
    // header of a + payload/tag of b
    let mut v = a.bytes[..a.header_len].to_vec();
    v.extend(&b.bytes[b.header_len..]);
    push(v, "header(a)+rest(b)".into());
    // a with b's auth tag
    let mut v = a.bytes[..na - TAG_LEN].to_vec();
    v.extend(&b.bytes[nb - TAG_LEN..]);
    push(v, "body(a)+tag(b)".into());
    // a's payload replaced by b's (if same length) keeping a's tag
    if a.payload_len == b.payload_len && a.payload_len > 0 {
        let mut v = a.bytes.clone();
        v[a.header_len..a.header_len + a.payload_len].copy_from_slice(&b.bytes[b.header_len..b.header_len + b.payload_len]);
        push(v, "payload(b) into a".into());
    }
    for _ in 0..6 {
        let c = rng.below(na.min(nb) as u64) as usize;
        let mut v = a.bytes[..c].to_vec();
        v.extend(&b.bytes[c..]);
        push(v, format!("a[..{c}]+b[{c}..]"));
    }
}

// ---------------------------------------------------------------------------------------
// phase a + b1 : codec / crypto boundary
// ---------------------------------------------------------------------------------------

struct Stats<'a> {
    sum: &'a mut Summary,
    positions: BTreeMap<Kind, BTreeSet<usize>>,
    per_sig: BTreeMap<String, u64>,
    /// the other genuine packets the current mutants were spliced from
    siblings: Vec<Specimen>,
}

impl Stats<'_> {
    /// keep at most two witnesses per signature so that a known finding that recurs in every
    /// iteration cannot crowd a new one out of the (capped) violation list
    fn violation(&mut self, v: Violation) {
        let n = self.per_sig.entry(v.signature.clone()).or_insert(0);
        *n += 1;
        if *n <= 2 {
            self.sum.violation(v);
        } else {
            self.sum.count("violations_deduplicated", 1);
        }
    }
}

fn specimen_json(s: &Specimen, ctx: &KeyCtx) -> Value {
    json!({"kind": s.kind.name(), "suite": ctx.suite.name(), "secret": ctx.secret.to_vec(),
           "ups_token": ctx.ups_token.to_vec(), "bytes": s.bytes, "header_len": s.header_len, "payload_len": s.payload_len})
}

fn check_round_trip(st: &mut Stats, s: &Specimen, ctx: &KeyCtx, seed: u64, case: u64) {
    for alt in [false, true] {
        st.sum.count("a_round_trips", 1);
        match open_caught(&s.bytes, ctx, alt) {
            Ok(Opened::Ok { fields, consumed }) => {
                let mut expect = s.fields.clone();
                // the generic decoder calls all three stream flavours "stream"
                if expect.kind.starts_with("stream") {
                    expect.kind = "stream";
                }
                let mut got = *fields;
                // after a successful open of a retransmission the library normalises the
                // first header byte (clears the recovery bit): compare the other tag bits
                if s.kind == Kind::StreamRetransmit {
                    got.tag_byte &= !packet::stream::Tag::IS_RECOVERY_PACKET;
                    expect.tag_byte &= !packet::stream::Tag::IS_RECOVERY_PACKET;
                }
                if got != expect || consumed != s.bytes.len() {
                    let field = diff_field(&got, &expect);
                    st.violation(Violation {
                        property: "C18".into(),
                        signature: format!("c18:round_trip_mismatch:{}:{}", s.kind.name(), field),
                        what: format!("decode(encode(p)) != p for a {} packet: field `{field}` differs (consumed {consumed} of {})", s.kind.name(), s.bytes.len()),
                        replay: json!({"check":"c18","phase":"round_trip","seed":seed,"case":case,"specimen":specimen_json(s, ctx)}),
                    });
                }
            }
            Ok(other) => {
                st.violation(Violation {
                    property: "C18".into(),
                    signature: format!("c18:genuine_rejected:{}:{}", s.kind.name(), opened_class(&other)),
                    what: format!("a freshly encoded {} packet does not open with the matching keys: {other:?}", s.kind.name()),
                    replay: json!({"check":"c18","phase":"round_trip","seed":seed,"case":case,"specimen":specimen_json(s, ctx)}),
                });
            }
            Err(msg) => {
                st.violation(Violation {
                    property: "C18".into(),
                    signature: format!("c18:panic:open:{}:{}", s.kind.name(), known::panic_sig(&msg)),
                    what: format!("panic while opening a valid {} packet: {msg}", s.kind.name()),
                    replay: json!({"check":"c18","phase":"round_trip","seed":seed,"case":case,"specimen":specimen_json(s, ctx)}),
                });
            }
        }
    }
}

fn diff_field(a: &Fields, b: &Fields) -> &'static str {
    macro_rules! d {
        ($($f:ident),*) => { $( if a.$f != b.$f { return stringify!($f); } )* };
    }
    d!(kind, tag_byte, credential_id, key_id, wire_version, source_queue_id, stream_id, packet_number, is_retransmission,
       next_expected_control_packet, stream_offset, final_offset, source_control_port, application_header, control_data, payload, control_value);
    "consumed_len"
}

fn opened_class(o: &Opened) -> &'static str {
    match o {
        Opened::DecodeErr => "decode_error",
        Opened::UnknownCredentials => "unknown_credentials",
        Opened::AuthErr(_) => "auth_error",
        Opened::Ok { .. } => "accepted",
    }
}

/// judge one mutant at the codec boundary
fn judge_mutant(st: &mut Stats, s: &Specimen, m: &Mutant, ctx: &KeyCtx, seed: u64, case: u64) {
    st.sum.count("b1_mutants", 1);
    st.sum.count(&format!("b1_class_{}", m.class), 1);
    let res = open_caught(&m.bytes, ctx, st.sum.counters.get("b1_mutants").copied().unwrap_or(0) & 1 == 1);
    let replay = || json!({"check":"c18","phase":"codec","seed":seed,"case":case,"specimen":specimen_json(s, ctx),
        "mutant": {"class": m.class, "region": m.region, "detail": m.detail, "bytes": m.bytes}});
    match res {
        Err(msg) => st.violation(Violation {
            property: "C18".into(),
            signature: format!("c18:panic:open_mutant:{}:{}", s.kind.name(), known::panic_sig(&msg)),
            what: format!("panic while decoding/opening a mutated {} packet ({} {}): {msg}", s.kind.name(), m.class, m.detail),
            replay: replay(),
        }),
        Ok(Opened::Ok { fields, consumed }) => {
            // an extension leaves the packet itself untouched: the decoder hands the extra
            // bytes back to the caller. That is the original packet, not a forgery.
            if m.class == "extend" && consumed == s.bytes.len() {
                st.sum.count("b1_extension_prefix_accepted_remainder_returned", 1);
                return;
            }
            let _ = fields;
            let field = accepted_field(s, &st.siblings, m, ctx);
            st.violation(Violation {
                property: "C18".into(),
                signature: format!("c18:tamper_accepted:{}:{}", s.kind.name(), field),
                what: format!(
                    "a {} packet modified by `{}` ({}; region {}) still authenticates/decrypts under the path secret it names; decoded field that differs from the genuine packet: {field}",
                    s.kind.name(), m.class, m.detail, m.region
                ),
                replay: replay(),
            });
        }
        Ok(o) => {
            st.sum.count(&format!("b1_rejected_{}", opened_class(&o)), 1);
            st.sum.signatures.insert(mix(
                0xC18B1,
                vq_util::hash_str(&format!("{}|{}|{}|{}|{}", s.kind.name(), ctx.suite.name(), m.class, m.region, opened_class(&o))),
            ));
        }
    }
}

fn totality(st: &mut Stats, rng: &mut Rng, seed: u64, case: u64, ctx: &KeyCtx) {
    // random byte strings, biased towards valid first bytes
    for _ in 0..64 {
        let n = match rng.below(4) {
            0 => rng.below(8),
            1 => rng.below(64),
            2 => rng.below(200),
            _ => rng.below(1600),
        } as usize;
        let mut b = vec![0u8; n];
        rng.fill(&mut b);
        if n > 0 && rng.chance(3, 4) {
            b[0] = *rng.pick(&[0x00u8, 0x3f, 0x2c, 0x40, 0x4f, 0x4a, 0x50, 0x5f, 0x5e, 0x60, 0x61, 0x62, 0x64, 0x65, 0x66, 0x63, 0x7f, 0x80]);
        }
        if n > 18 && rng.chance(1, 2) {
            b[1..17].copy_from_slice(&*ctx.id);
            b[17] = 0;
        }
        st.sum.count("a_random_inputs", 1);
        match open_caught(&b, ctx, rng.chance(1, 2)) {
            Err(msg) => st.violation(Violation {
                property: "C18".into(),
                signature: format!("c18:panic:random_bytes:{}", known::panic_sig(&msg)),
                what: format!("decoder/opener panicked on arbitrary bytes: {msg}"),
                replay: json!({"check":"c18","phase":"random","seed":seed,"case":case,"suite":ctx.suite.name(),"secret":ctx.secret.to_vec(),"ups_token":ctx.ups_token.to_vec(),"bytes":b}),
            }),
            Ok(Opened::Ok { .. }) => st.violation(Violation {
                property: "C18".into(),
                signature: "c18:random_bytes_accepted".into(),
                what: "random bytes authenticated under the path secret".into(),
                replay: json!({"check":"c18","phase":"random","seed":seed,"case":case,"suite":ctx.suite.name(),"secret":ctx.secret.to_vec(),"ups_token":ctx.ups_token.to_vec(),"bytes":b}),
            }),
            Ok(o) => st.sum.count(&format!("a_random_{}", opened_class(&o)), 1),
        }
    }
}

fn codec_case(st: &mut Stats, seed: u64, case: u64, full_limit: usize) {
    let mut rng = Rng::new(mix(seed, 0x18A0_0000 + case));
    let suite = Suite::pick(case);
    let mut secret = [0u8; 32];
    rng.fill(&mut secret);
    let mut token = [0u8; TAG_LEN];
    rng.fill(&mut token);
    let ctx = KeyCtx::new(secret, suite, token);
    // a second path secret: packets for it must never open under the first
    let mut secret2 = [0u8; 32];
    rng.fill(&mut secret2);
    let mut token2 = [0u8; TAG_LEN];
    rng.fill(&mut token2);
    let ctx2 = KeyCtx::new(secret2, suite, token2);

    totality(st, &mut rng, seed, case, &ctx);

    for kind in ALL_KINDS {
        // most packets small (full position sweep), a few large
        let cap = if rng.chance(1, 6) { 8900 } else { 700 };
        let s = match catch_unwind(AssertUnwindSafe(|| make_specimen(&mut rng.fork(), *kind, &ctx, cap))) {
            Ok(s) => s,
            Err(p) => {
                let msg = known::panic_text(p);
                st.violation(Violation {
                    property: "C18".into(),
                    signature: format!("c18:panic:encode:{}:{}", kind.name(), known::panic_sig(&msg)),
                    what: format!("encoder panicked for a {} packet: {msg}", kind.name()),
                    replay: json!({"check":"c18","phase":"encode","seed":seed,"case":case,"kind":kind.name()}),
                });
                continue;
            }
        };
        st.sum.evaluations += 1;
        st.sum.count(&format!("packets_{}_{}", s.kind.name(), suite.name()), 1);
        st.sum.max(&format!("max_len_{}", s.kind.name()), s.bytes.len() as i64);
        check_round_trip(st, &s, &ctx, seed, case);

        // the same bytes under another path secret's keys: the credential id differs
        match open_caught(&s.bytes, &ctx2, false) {
            Ok(Opened::UnknownCredentials) => st.sum.count("b1_other_secret_unknown_credentials", 1),
            Ok(o) => st.violation(Violation {
                property: "C18".into(),
                signature: format!("c18:other_secret:{}:{}", s.kind.name(), opened_class(&o)),
                what: format!("a {} packet for one path secret was not classified as unknown credentials by a receiver holding another: {o:?}", s.kind.name()),
                replay: json!({"check":"c18","phase":"round_trip","seed":seed,"case":case,"specimen":specimen_json(&s, &ctx2)}),
            }),
            Err(_) => {}
        }

        let mut mutants = Vec::new();
        let positions = sweep_positions(&mut rng, &s, full_limit);
        st.positions.entry(s.kind).or_default().extend(positions.iter().copied());
        xor_mutants(&mut rng, &s, &positions, &mut mutants);
        length_mutants(&mut rng, &s, &mut mutants);
        extension_mutants(&mut rng, &s, &mut mutants);
        // a sibling packet of the same kind under the same secret for splicing
        let mut sibling_bytes: Vec<Vec<u8>> = Vec::new();
        if let Ok(sib) = catch_unwind(AssertUnwindSafe(|| make_specimen(&mut rng.fork(), *kind, &ctx, cap.min(700)))) {
            sibling_bytes.push(sib.bytes.clone());
            splice_mutants(&mut rng, &s, &sib, &mut mutants);
            st.siblings = vec![sib.clone()];
            // and one sealed under the *other* secret with the credential id rewritten to ours
            if let Ok(mut foreign) = catch_unwind(AssertUnwindSafe(|| make_specimen(&mut rng.fork(), *kind, &ctx2, 300))) {
                foreign.bytes[1..17].copy_from_slice(&*ctx.id);
                mutants.push(Mutant { class: "foreign_key", region: "credential_id", bytes: foreign.bytes.clone(), detail: "sealed under another secret, credential id rewritten".into() });
            }
        }
        let genuine: Vec<&[u8]> = sibling_bytes.iter().map(|b| b.as_slice()).chain(std::iter::once(s.bytes.as_slice())).collect();
        mark_genuine_prefixes(&mut mutants, &genuine);
        for m in &mutants {
            judge_mutant(st, &s, m, &ctx, seed, case);
        }
    }
}

// ---------------------------------------------------------------------------------------
// phase b2 : the path-secret map as victim
// ---------------------------------------------------------------------------------------

#[derive(Clone, Copy, Debug, PartialEq, Eq)]
pub enum MapState {
    One,
    Full,
    Retired,
    Empty,
    OtherPeer,
}

impl MapState {
    fn name(self) -> &'static str {
        match self {
            MapState::One => "one_entry",
            MapState::Full => "full",
            MapState::Retired => "target_retired",
            MapState::Empty => "empty",
            MapState::OtherPeer => "other_peer_address",
        }
    }
    fn from_name(s: &str) -> Self {
        for m in [MapState::One, MapState::Full, MapState::Retired, MapState::Empty, MapState::OtherPeer] {
            if m.name() == s {
                return m;
            }
        }
        MapState::One
    }
}

pub struct Victim {
    pub map: Map,
    pub rec: Recorder,
    pub cb_count: Arc<AtomicU64>,
    pub peer: SocketAddr,
    pub from: SocketAddr,
    pub state: MapState,
    pub has_entry: bool,
    last_key_id: Option<u64>,
    /// the sender counter was driven to its end (sealing panics from now on)
    pub poisoned: bool,
}

#[derive(Debug, Clone, PartialEq, Eq)]
pub struct Snapshot {
    contains: bool,
    secrets_len: usize,
    peers_len: usize,
    cb: u64,
}

fn local_type() -> endpoint::Type {
    // the victim is the flip of KeyCtx::sender
    endpoint::Type::Client
}

impl Victim {
    pub fn build(state: MapState, ctx: &KeyCtx, rng: &mut Rng, evict: bool) -> Victim {
        let rec = Recorder::new(false);
        let cap = if state == MapState::Full { 3 } else { 4 };
        let map = known::new_map(cap, evict, &rec, b"vq-dc-c18-victim");
        let cb_count = Arc::new(AtomicU64::new(0));
        {
            let c = cb_count.clone();
            map.register_request_handshake(Box::new(move |_addr: SocketAddr, _reason: HandshakeReason| {
                c.fetch_add(1, Ordering::SeqCst);
                None
            }));
        }
        let peer: SocketAddr = format!("127.0.{}.{}:{}", rng.below(250) + 1, rng.below(250) + 1, 9).parse().unwrap();
        let other: SocketAddr = format!("127.1.{}.{}:{}", rng.below(250) + 1, rng.below(250) + 1, 9).parse().unwrap();
        let extra_secret = |rng: &mut Rng| {
            let mut s = [0u8; 32];
            rng.fill(&mut s);
            s
        };
        let params = known::test_params;
        let mut has_entry = true;
        match state {
            MapState::One | MapState::OtherPeer => {
                known::insert_known(&map, peer, &ctx.secret, ctx.suite, local_type(), ctx.ups_token, params());
            }
            MapState::Full => {
                let a: SocketAddr = "127.2.0.1:9".parse().unwrap();
                let b: SocketAddr = "127.2.0.2:9".parse().unwrap();
                known::insert_known(&map, a, &extra_secret(rng), ctx.suite, local_type(), [1; 16], params());
                known::insert_known(&map, peer, &ctx.secret, ctx.suite, local_type(), ctx.ups_token, params());
                known::insert_known(&map, b, &extra_secret(rng), ctx.suite, local_type(), [2; 16], params());
            }
            MapState::Retired => {
                known::insert_known(&map, peer, &ctx.secret, ctx.suite, local_type(), ctx.ups_token, params());
                // a re-handshake with the same peer address retires the first entry
                known::insert_known(&map, peer, &extra_secret(rng), ctx.suite, local_type(), [3; 16], params());
            }
            MapState::Empty => {
                has_entry = false;
            }
        }
        rec.take();
        let from = if state == MapState::OtherPeer { other } else { peer };
        Victim { map, rec, cb_count, peer, from, state, has_entry, last_key_id: None, poisoned: false }
    }

    pub fn snapshot(&self) -> Snapshot {
        Snapshot {
            contains: self.map.contains(&self.peer),
            secrets_len: self.map.secrets_len(),
            peers_len: self.map.peers_len(),
            cb: self.cb_count.load(Ordering::SeqCst),
        }
    }

    /// key id in the credentials of the next seal for the target path secret
    pub fn probe_key_id(&mut self, id: Id) -> Option<u64> {
        if self.poisoned {
            return None;
        }
        // `next_key_id()` panics by design once the counter reaches 2^62-1; a forged StaleKey
        // that got applied can push it there, so the probe itself must not take the harness down
        let map = self.map.clone();
        let r = catch_unwind(AssertUnwindSafe(move || map.seal_once_id(id).map(|(_, c, _)| *c.key_id)));
        // the probe itself emits cache-access events: not part of any delivery
        self.rec.take();
        match r {
            Ok(k) => k,
            Err(_) => {
                self.poisoned = true;
                Some(u64::MAX)
            }
        }
    }

    /// deliver raw bytes through one of the three public entry points
    pub fn deliver(&self, bytes: &[u8], api: u8) -> &'static str {
        let mut buf = bytes.to_vec();
        match api % 3 {
            0 => {
                match control::Packet::decode(DecoderBufferMut::new(&mut buf)) {
                    Ok((p, _rest)) => {
                        self.map.handle_control_packet(&p, &self.from);
                        "handle_control_packet"
                    }
                    Err(_) => "decode_error",
                }
            }
            1 => match DecoderBufferMut::new(&mut buf).decode_parameterized::<packet::Packet>(TAG_LEN) {
                Ok((p, _rest)) => {
                    self.map.handle_unexpected_packet(&p, &self.from);
                    "handle_unexpected_packet"
                }
                Err(_) => "decode_error",
            },
            _ => {
                let addr: inet::SocketAddress = self.from.into();
                let info = dc::DatagramInfo::new(&addr);
                let mut m = self.map.clone();
                let _ = m.on_possible_secret_control_packet(&info, &mut buf);
                "on_possible_secret_control_packet"
            }
        }
    }
}

fn event_is_benign(name: &str) -> bool {
    name.ends_with("_packet_received")
        || name.ends_with("_packet_rejected")
        || name.ends_with("_packet_dropped")
        || name.contains("cleaner")
        || name.contains("cache_accessed")
}

fn map_replay(s: &Specimen, ctx: &KeyCtx, state: MapState, api: u8, evict: bool, bytes: &[u8], m: Option<&Mutant>, seed: u64, case: u64) -> Value {
    json!({"check":"c18","phase":"map","seed":seed,"case":case,"specimen":specimen_json(s, ctx),
        "map_state": state.name(), "api": api, "evict": evict, "delivered": bytes,
        "mutant": m.map(|m| json!({"class": m.class, "region": m.region, "detail": m.detail}))})
}

/// deliver one (possibly mutated) secret-control packet and check the victim is untouched.
/// Returns true if the map acted on it.
fn deliver_and_check(st: &mut Stats, v: &mut Victim, s: &Specimen, ctx: &KeyCtx, m: &Mutant, api: u8, evict: bool, seed: u64, case: u64) -> bool {
    let before = v.snapshot();
    v.rec.take();
    let res = catch_unwind(AssertUnwindSafe(|| v.deliver(&m.bytes, api)));
    let events = v.rec.take();
    let after = v.snapshot();
    st.sum.count("b2_deliveries", 1);
    let api_name = match res {
        Ok(n) => n,
        Err(p) => {
            let msg = known::panic_text(p);
            st.violation(Violation {
                property: "C18".into(),
                signature: format!("c18:panic:map:{}:{}", s.kind.name(), known::panic_sig(&msg)),
                what: format!("the map panicked on a mutated {} packet: {msg}", s.kind.name()),
                replay: map_replay(s, ctx, v.state, api, evict, &m.bytes, Some(m), seed, case),
            });
            return true;
        }
    };
    st.sum.count(&format!("b2_api_{api_name}"), 1);
    let bad_events: Vec<&str> = events.iter().map(|e| e.0).filter(|n| !event_is_benign(n)).collect();
    let mut key_jump = None;
    if v.has_entry {
        let k = v.probe_key_id(ctx.id);
        if let (Some(prev), Some(now)) = (v.last_key_id, k) {
            if now != prev + 1 {
                key_jump = Some((prev, now));
            }
        }
        if k.is_none() {
            // the entry is gone (evicted): report it once, then stop probing this victim
            key_jump = Some((v.last_key_id.unwrap_or(0), u64::MAX));
            v.has_entry = false;
        }
        v.last_key_id = k.or(v.last_key_id);
    }
    let acted = !bad_events.is_empty() || before != after || key_jump.is_some();
    if acted {
        let effect = if before.contains != after.contains || before.secrets_len != after.secrets_len || before.peers_len != after.peers_len {
            "map_entries_changed"
        } else if key_jump.is_some() {
            "sender_key_id_advanced"
        } else if before.cb != after.cb {
            "handshake_requested"
        } else {
            "accepted_event"
        };
        let field = accepted_field(s, &st.siblings, m, ctx);
        st.violation(Violation {
            property: "C18".into(),
            signature: format!("c18:forged_control_acted_on:{}:{}:{}", s.kind.name(), field, effect),
            what: format!(
                "a {} packet modified by `{}` ({}; region {}) was acted upon by the map in state {} via {api_name}: events {:?}, before {:?}, after {:?}, key id jump {:?}",
                s.kind.name(), m.class, m.detail, m.region, v.state.name(), bad_events, before, after, key_jump
            ),
            replay: map_replay(s, ctx, v.state, api, evict, &m.bytes, Some(m), seed, case),
        });
    } else {
        let outcome = if events.iter().any(|e| e.0.ends_with("_packet_rejected")) {
            "rejected"
        } else if events.iter().any(|e| e.0.ends_with("_packet_dropped")) {
            "dropped_unknown_id"
        } else {
            "not_a_control_packet"
        };
        st.sum.count(&format!("b2_{outcome}"), 1);
        st.sum.signatures.insert(mix(
            0xC18B2,
            vq_util::hash_str(&format!("{}|{}|{}|{}|{}|{}", s.kind.name(), ctx.suite.name(), m.class, m.region, v.state.name(), outcome)),
        ));
    }
    acted
}

/// the positive control: the genuine packet IS acted upon
fn positive_control(st: &mut Stats, v: &mut Victim, s: &Specimen, ctx: &KeyCtx, api: u8, evict: bool, seed: u64, case: u64) {
    if !v.has_entry {
        // nothing to accept in an empty map: the genuine packet must be dropped
        v.rec.take();
        let _ = v.deliver(&s.bytes, api);
        let ev = v.rec.take();
        if ev.iter().any(|e| e.0.ends_with("_accepted")) {
            st.violation(Violation {
                property: "C18".into(),
                signature: format!("c18:accepted_without_entry:{}", s.kind.name()),
                what: "a secret-control packet was accepted by a map that holds no entry for its credential id".into(),
                replay: map_replay(s, ctx, v.state, api, evict, &s.bytes, None, seed, case),
            });
        } else {
            st.sum.count("b2_genuine_dropped_by_empty_map", 1);
        }
        return;
    }
    let before = v.snapshot();
    let key_before = v.probe_key_id(ctx.id);
    v.rec.take();
    let _ = v.deliver(&s.bytes, api);
    let ev = v.rec.take();
    let after = v.snapshot();
    let accepted = ev.iter().any(|e| e.0.ends_with("_packet_accepted"));
    let key_after = v.probe_key_id(ctx.id);
    v.last_key_id = key_after;
    let mut ok = accepted;
    match s.kind {
        Kind::StaleKey => {
            let min = s.fields.control_value.unwrap_or(0);
            if let Some(k) = key_after {
                ok &= k >= min;
                if key_before.map_or(false, |b| min > b + 1) && k >= min {
                    st.sum.count("b2_genuine_stale_key_advanced_sender", 1);
                }
            }
        }
        Kind::ReplayDetected | Kind::UnknownPathSecret => {
            ok &= after.cb == before.cb + 1;
            if after.cb == before.cb + 1 {
                st.sum.count("b2_genuine_requested_handshake", 1);
            }
        }
        _ => {}
    }
    if ok {
        st.sum.count("b2_accepted_controls", 1);
        st.sum.count(&format!("b2_accepted_controls_{}_{}", s.kind.name(), v.state.name()), 1);
    } else {
        // without a working positive control the negative results mean nothing
        st.sum.inconclusive.push(format!(
            "c18: positive control failed: genuine {} not acted upon in map state {} (events {:?}, key {:?}->{:?}, cb {}->{}) seed {seed} case {case}",
            s.kind.name(), v.state.name(), ev.iter().map(|e| e.0).collect::<Vec<_>>(), key_before, key_after, before.cb, after.cb
        ));
    }
}

fn map_case(st: &mut Stats, seed: u64, case: u64) {
    let mut rng = Rng::new(mix(seed, 0x18B2_0000 + case));
    let suite = Suite::pick(case >> 1);
    let mut secret = [0u8; 32];
    rng.fill(&mut secret);
    let mut token = [0u8; TAG_LEN];
    rng.fill(&mut token);
    let ctx = KeyCtx::new(secret, suite, token);
    let state = [MapState::One, MapState::Full, MapState::Retired, MapState::Empty, MapState::OtherPeer][(case % 5) as usize];
    let evict = rng.chance(1, 2);
    let mut v = Victim::build(state, &ctx, &mut rng, evict);
    st.sum.count(&format!("b2_map_state_{}", state.name()), 1);
    if v.has_entry {
        v.last_key_id = v.probe_key_id(ctx.id);
    }
    for kind in [Kind::StaleKey, Kind::ReplayDetected, Kind::UnknownPathSecret] {
        // The genuine packet is delivered at the end as the positive control. An authenticated
        // StaleKey(min_key_id >= 2^62-2) makes the sender's next `next_key_id()` hit its
        // by-design `expect("2^62 integer incremented per-path will not wrap")`, so keep the
        // genuine value below that (forged values are never applied, any value is fine there).
        let s = loop {
            let s = make_specimen(&mut rng.fork(), kind, &ctx, 0);
            if kind != Kind::StaleKey || s.fields.control_value.unwrap_or(0) < (1 << 61) {
                break s;
            }
        };
        st.sum.evaluations += 1;
        st.sum.count(&format!("b2_packets_{}_{}", kind.name(), suite.name()), 1);
        let mut mutants = Vec::new();
        let positions: Vec<usize> = (0..s.bytes.len()).collect();
        st.positions.entry(s.kind).or_default().extend(positions.iter().copied());
        xor_mutants(&mut rng, &s, &positions, &mut mutants);
        length_mutants(&mut rng, &s, &mut mutants);
        extension_mutants(&mut rng, &s, &mut mutants);
        let sib = make_specimen(&mut rng.fork(), kind, &ctx, 0);
        splice_mutants(&mut rng, &s, &sib, &mut mutants);
        // cross-kind splice: a StaleKey's header with a ReplayDetected's tag etc.
        let other_kind = if kind == Kind::StaleKey { Kind::ReplayDetected } else { Kind::StaleKey };
        let o = make_specimen(&mut rng.fork(), other_kind, &ctx, 0);
        splice_mutants(&mut rng, &s, &o, &mut mutants);
        // same body re-tagged as the other kind (tag byte swap keeps the MAC input otherwise equal)
        let mut retag = s.bytes.clone();
        retag[0] = o.bytes[0];
        mutants.push(Mutant { class: "retag", region: "tag_byte", bytes: retag, detail: format!("first byte {:#04x}->{:#04x}", s.bytes[0], o.bytes[0]) });
        mark_genuine_prefixes(&mut mutants, &[s.bytes.as_slice(), sib.bytes.as_slice(), o.bytes.as_slice()]);
        st.siblings = vec![sib.clone(), o.clone()];
        for (i, m) in mutants.iter().enumerate() {
            // an extension is the genuine packet followed by garbage. Through the entry
            // points that decode a packet and ignore the remainder this IS the genuine
            // packet; only the datagram entry point sees the whole buffer.
            let api = if m.class == "extend" { 2 } else { (i as u64 + case) as u8 };
            deliver_and_check(st, &mut v, &s, &ctx, m, api, evict, seed, case);
            if v.poisoned {
                return;
            }
        }
        positive_control(st, &mut v, &s, &ctx, (case % 3) as u8, evict, seed, case);
    }
}

// ---------------------------------------------------------------------------------------
// phase b3 : data packets opened with keys handed out by the map
// ---------------------------------------------------------------------------------------

fn open_via_map(v: &Victim, bytes: &[u8]) -> Result<(), String> {
    let mut buf = bytes.to_vec();
    let (pkt, _) = DecoderBufferMut::new(&mut buf)
        .decode_parameterized::<packet::Packet>(TAG_LEN)
        .map_err(|_| "decode_error".to_string())?;
    let mut control_out = vec![];
    match pkt {
        packet::Packet::Datagram(p) => {
            let opener = v.map.open_once(p.credentials(), None, &mut control_out).ok_or("no_keys")?;
            let mut out = vec![0u8; p.payload().len()];
            opener
                .decrypt(p.tag().key_phase(), p.crypto_nonce(), p.header(), p.payload(), p.auth_tag(), UninitSlice::new(&mut out))
                .map_err(|e| format!("{e:?}"))
        }
        packet::Packet::Stream(mut p) => {
            let creds = *p.credentials();
            let (bidi, _, _) = v
                .map
                .pair_for_credentials(&creds, p.source_queue_id(), &TransportFeatures::UDP, &mut control_out)
                .ok_or("no_keys")?;
            let ctl = bidi.control.ok_or("no_control_keys")?;
            p.decrypt_in_place(&bidi.application.opener, &ctl.opener).map_err(|e| format!("{e:?}"))
        }
        _ => Err("other_kind".into()),
    }
}

fn data_case(st: &mut Stats, seed: u64, case: u64) {
    let mut rng = Rng::new(mix(seed, 0x18B3_0000 + case));
    let suite = Suite::pick(case);
    let mut secret = [0u8; 32];
    rng.fill(&mut secret);
    let ctx = KeyCtx::new(secret, suite, [9; 16]);
    for kind in [Kind::Datagram, Kind::Stream] {
        // a fresh victim per packet: the positive control needs a replay window that has not
        // been moved by the other packet's (random) key id
        let v = Victim::build(MapState::One, &ctx, &mut rng, false);
        // unreliable stream ids only: pair_for_credentials is asked for UDP features
        let s = loop {
            let s = make_specimen(&mut rng.fork(), kind, &ctx, 400);
            // key id must be a usable one (not the reserved max) and fresh for this map
            if s.fields.key_id != Some((1 << 62) - 1) {
                break s;
            }
        };
        st.sum.evaluations += 1;
        st.sum.count(&format!("b3_packets_{}", kind.name()), 1);
        let mut mutants = Vec::new();
        let positions = sweep_positions(&mut rng, &s, 600);
        xor_mutants(&mut rng, &s, &positions, &mut mutants);
        length_mutants(&mut rng, &s, &mut mutants);
        mark_genuine_prefixes(&mut mutants, &[s.bytes.as_slice()]);
        for m in &mutants {
            if m.class == "extend" {
                // the genuine packet followed by garbage: it would legitimately be accepted
                continue;
            }
            v.rec.take();
            let r = catch_unwind(AssertUnwindSafe(|| open_via_map(&v, &m.bytes)));
            let ev = v.rec.take();
            st.sum.count("b3_mutants", 1);
            let touched: Vec<&str> = ev.iter().map(|e| e.0).filter(|n| n.contains("key_accepted") || n.contains("replay_")).collect();
            match r {
                Err(p) => {
                    let msg = known::panic_text(p);
                    st.violation(Violation {
                        property: "C18".into(),
                        signature: format!("c18:panic:map_open:{}:{}", kind.name(), known::panic_sig(&msg)),
                        what: format!("panic while opening a mutated {} packet with keys from the map: {msg}", kind.name()),
                        replay: json!({"check":"c18","phase":"data","seed":seed,"case":case,"specimen":specimen_json(&s,&ctx),"mutant":{"class":m.class,"region":m.region,"detail":m.detail,"bytes":m.bytes}}),
                    });
                }
                Ok(Ok(())) => st.violation(Violation {
                    property: "C18".into(),
                    signature: format!("c18:tamper_accepted_via_map:{}:{}", kind.name(), m.region),
                    what: format!("a {} packet modified by `{}` ({}) decrypted with keys from the map", kind.name(), m.class, m.detail),
                    replay: json!({"check":"c18","phase":"data","seed":seed,"case":case,"specimen":specimen_json(&s,&ctx),"mutant":{"class":m.class,"region":m.region,"detail":m.detail,"bytes":m.bytes}}),
                }),
                Ok(Err(_)) if !touched.is_empty() => st.violation(Violation {
                    property: "C18".into(),
                    signature: format!("c18:replay_state_touched:{}:{}", kind.name(), m.region),
                    what: format!("a rejected mutated {} packet still produced replay-window events {touched:?}", kind.name()),
                    replay: json!({"check":"c18","phase":"data","seed":seed,"case":case,"specimen":specimen_json(&s,&ctx),"mutant":{"class":m.class,"region":m.region,"detail":m.detail,"bytes":m.bytes}}),
                }),
                Ok(Err(_)) => st.sum.count("b3_rejected", 1),
            }
        }
        // positive control: the untouched packet is accepted exactly once — which also proves
        // that none of the mutants consumed its key id in the replay window
        v.rec.take();
        let first = open_via_map(&v, &s.bytes);
        let ev1 = v.rec.take();
        let second = open_via_map(&v, &s.bytes);
        v.rec.take();
        let accepted_event = ev1.iter().any(|e| e.0.contains("key_accepted"));
        if first.is_ok() && accepted_event {
            st.sum.count("b3_accepted_controls", 1);
            st.sum.signatures.insert(mix(0xC18B3, vq_util::hash_str(&format!("{}|{}", kind.name(), suite.name()))));
        } else {
            st.sum.inconclusive.push(format!("c18: data positive control failed: genuine {} not accepted through the map: {first:?} events {:?} (seed {seed} case {case})", kind.name(), ev1.iter().map(|e| e.0).collect::<Vec<_>>()));
        }
        if second.is_ok() {
            st.violation(Violation {
                property: "C18".into(),
                signature: format!("c18:replayed_data_packet_accepted:{}", kind.name()),
                what: format!("the same {} packet was accepted twice through the map", kind.name()),
                replay: json!({"check":"c18","phase":"data","seed":seed,"case":case,"specimen":specimen_json(&s,&ctx)}),
            });
        } else {
            st.sum.count("b3_replay_rejected", 1);
        }
    }
}

// ---------------------------------------------------------------------------------------
// eviction control (needs an entry older than 10 s of real time)
// ---------------------------------------------------------------------------------------

struct Aged {
    victim: Victim,
    ctx: KeyCtx,
    born: Instant,
}

fn aged_setup(seed: u64) -> Aged {
    let mut rng = Rng::new(mix(seed, 0x18E0));
    let mut secret = [0u8; 32];
    rng.fill(&mut secret);
    let mut token = [0u8; TAG_LEN];
    rng.fill(&mut token);
    let ctx = KeyCtx::new(secret, Suite::pick(seed), token);
    let victim = Victim::build(MapState::One, &ctx, &mut rng, true);
    Aged { victim, ctx, born: Instant::now() }
}

fn aged_finish(st: &mut Stats, mut a: Aged, seed: u64) {
    let need = Duration::from_millis(10_050);
    let age = a.born.elapsed();
    if age < need {
        std::thread::sleep(need - age);
    }
    let mut rng = Rng::new(mix(seed, 0x18E1));
    // forged UnknownPathSecret packets must not evict an entry that is old enough to be evicted
    let s = make_specimen(&mut rng, Kind::UnknownPathSecret, &a.ctx, 0);
    let mut mutants = Vec::new();
    let positions: Vec<usize> = (0..s.bytes.len()).collect();
    xor_mutants(&mut rng, &s, &positions, &mut mutants);
    length_mutants(&mut rng, &s, &mut mutants);
    a.victim.last_key_id = a.victim.probe_key_id(a.ctx.id);
    let mut acted = false;
    mark_genuine_prefixes(&mut mutants, &[s.bytes.as_slice()]);
    for (i, m) in mutants.iter().enumerate() {
        let api = if m.class == "extend" { 2 } else { i as u8 };
        acted |= deliver_and_check(st, &mut a.victim, &s, &a.ctx, m, api, true, seed, u64::MAX);
        if acted {
            break;
        }
    }
    st.sum.count("b2_evictable_entry_forged_ups", mutants.len() as u64);
    if acted {
        return;
    }
    let before = a.victim.snapshot();
    a.victim.rec.take();
    a.victim.deliver(&s.bytes, 0);
    let ev = a.victim.rec.take();
    let after = a.victim.snapshot();
    let evicted = ev.iter().any(|e| e.0.contains("evicted"));
    if before.contains && !after.contains && after.secrets_len + 1 == before.secrets_len && evicted {
        st.sum.count("b2_genuine_ups_evicted_entry", 1);
        st.sum.count("b2_accepted_controls", 1);
    } else {
        st.sum.inconclusive.push(format!(
            "c18: eviction control failed: genuine UnknownPathSecret did not evict a >10 s old entry (before {before:?} after {after:?} events {:?})",
            ev.iter().map(|e| e.0).collect::<Vec<_>>()
        ));
    }
}

// ---------------------------------------------------------------------------------------

pub fn run(args: &BTreeMap<String, String>, sum: &mut Summary) {
    let seed = vq_util::arg_u64(args, "seed", 1);
    let iters = vq_util::arg_u64(args, "iters", 40);
    let phase = vq_util::arg_str(args, "phase", "all").to_string();
    let evict_control = vq_util::arg_u64(args, "evict-control", 1) == 1 && (phase == "all" || phase == "map");
    let full_limit = vq_util::arg_u64(args, "full-sweep-limit", 1200) as usize;
    let aged = if evict_control { Some(aged_setup(seed)) } else { None };
    let mut st = Stats { sum, positions: BTreeMap::new(), per_sig: BTreeMap::new(), siblings: Vec::new() };
    for case in 0..iters {
        if phase == "all" || phase == "codec" {
            codec_case(&mut st, seed, case, full_limit);
        }
        if phase == "all" || phase == "map" {
            // five map states per iteration
            for k in 0..5 {
                map_case(&mut st, seed, case * 5 + k);
            }
        }
        if phase == "all" || phase == "data" {
            data_case(&mut st, seed, case);
        }
    }
    if let Some(a) = aged {
        aged_finish(&mut st, a, seed);
    }
    let positions = std::mem::take(&mut st.positions);
    for (k, set) in positions {
        st.sum.max(&format!("positions_covered_{}", k.name()), set.len() as i64);
    }
    if st.sum.evaluations == 0 {
        st.sum.inconclusive.push("c18: nothing was run".into());
    }
    let accepted = st.sum.counters.get("b2_accepted_controls").copied().unwrap_or(0);
    if (phase == "all" || phase == "map") && iters > 0 && accepted == 0 {
        st.sum.inconclusive.push("c18: no genuine secret-control packet was accepted (no positive control)".into());
    }
}

fn bytes_of(v: &Value) -> Vec<u8> {
    v.as_array().map(|a| a.iter().filter_map(|x| x.as_u64()).map(|x| x as u8).collect()).unwrap_or_default()
}

fn ctx_of(v: &Value) -> KeyCtx {
    let mut secret = [0u8; 32];
    for (i, b) in bytes_of(&v["secret"]).iter().take(32).enumerate() {
        secret[i] = *b;
    }
    let mut token = [0u8; TAG_LEN];
    for (i, b) in bytes_of(&v["ups_token"]).iter().take(16).enumerate() {
        token[i] = *b;
    }
    let suite = if v["suite"].as_str() == Some(Suite::Aes256.name()) { Suite::Aes256 } else { Suite::Aes128 };
    KeyCtx::new(secret, suite, token)
}

pub fn replay(r: &Value, sum: &mut Summary) {
    let phase = r["phase"].as_str().unwrap_or("codec");
    sum.evaluations += 1;
    match phase {
        "random" => {
            let ctx = ctx_of(r);
            let b = bytes_of(&r["bytes"]);
            let o = open_caught(&b, &ctx, false);
            eprintln!("[c18 replay] random bytes ({} B) -> {o:?}", b.len());
            match o {
                Err(msg) => sum.violation(Violation { property: "C18".into(), signature: format!("c18:panic:random_bytes:{}", known::panic_sig(&msg)), what: msg, replay: r.clone() }),
                Ok(Opened::Ok { .. }) => sum.violation(Violation { property: "C18".into(), signature: "c18:random_bytes_accepted".into(), what: "random bytes accepted".into(), replay: r.clone() }),
                _ => {}
            }
        }
        "round_trip" | "codec" | "data" | "map" => {
            let sp = &r["specimen"];
            let ctx = ctx_of(sp);
            let kind = Kind::from_name(sp["kind"].as_str().unwrap_or("stream"));
            let bytes = bytes_of(&sp["bytes"]);
            let genuine_fields = match open_caught(&bytes, &ctx, false) {
                Ok(Opened::Ok { fields, .. }) => *fields,
                _ => Fields::default(),
            };
            let spec = Specimen {
                kind,
                bytes: bytes.clone(),
                fields: genuine_fields,
                header_len: sp["header_len"].as_u64().unwrap_or(0) as usize,
                payload_len: sp["payload_len"].as_u64().unwrap_or(0) as usize,
            };
            eprintln!("[c18 replay] specimen {} ({} B): {:?}", kind.name(), bytes.len(), open_caught(&bytes, &ctx, false));
            let mbytes = if phase == "map" { bytes_of(&r["delivered"]) } else { bytes_of(&r["mutant"]["bytes"]) };
            let m = Mutant {
                class: "replayed",
                region: Box::leak(r["mutant"]["region"].as_str().unwrap_or("replayed").to_string().into_boxed_str()),
                bytes: if mbytes.is_empty() { bytes.clone() } else { mbytes },
                detail: format!("{}", r["mutant"]),
            };
            if phase == "map" {
                let mut rng = Rng::new(1);
                let state = MapState::from_name(r["map_state"].as_str().unwrap_or("one_entry"));
                let evict = r["evict"].as_bool().unwrap_or(false);
                let mut v = Victim::build(state, &ctx, &mut rng, evict);
                v.rec.verbose = true;
                if r["case"].as_u64() == Some(u64::MAX) {
                    // the eviction control: the entry must be older than 10 s of real time
                    eprintln!("[c18 replay] ageing the map entry for 10 s ...");
                    std::thread::sleep(Duration::from_millis(10_050));
                }
                if v.has_entry {
                    v.last_key_id = v.probe_key_id(ctx.id);
                }
                let mut st = Stats { sum, positions: BTreeMap::new(), per_sig: BTreeMap::new(), siblings: Vec::new() };
                let acted = deliver_and_check(&mut st, &mut v, &spec, &ctx, &m, r["api"].as_u64().unwrap_or(0) as u8, evict, 0, 0);
                eprintln!("[c18 replay] map state {} acted={acted}", state.name());
            } else {
                let o = open_caught(&m.bytes, &ctx, false);
                eprintln!("[c18 replay] mutant ({} B, {}) -> {o:?}", m.bytes.len(), m.detail);
                if let Ok(Opened::Ok { .. }) = o {
                    if m.bytes != bytes {
                        sum.violation(Violation { property: "C18".into(), signature: format!("c18:tamper_accepted:{}:{}", kind.name(), accepted_field(&spec, &[], &m, &ctx)), what: "mutated packet accepted".into(), replay: r.clone() });
                    }
                }
                if let Err(msg) = o {
                    sum.violation(Violation { property: "C18".into(), signature: format!("c18:panic:open_mutant:{}:{}", kind.name(), known::panic_sig(&msg)), what: msg, replay: r.clone() });
                }
            }
        }
        _ => sum.inconclusive.push(format!("c18 replay: unknown phase {phase}")),
    }
}
