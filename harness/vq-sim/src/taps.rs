//! The taps that observe (and, in attacker mode, rewrite) what an endpoint does:
//! packet interceptor (cleartext TX/RX), event subscriber, congestion-controller proxy.

use crate::world::*;
use s2n_codec::{encoder::scatter, DecoderBufferMut, EncoderBuffer};
use s2n_quic::provider::event::{self, events};
use s2n_quic_core::{
    event::api::Subject,
    packet::{
        interceptor::{Datagram, Interceptor, Packet},
        number::PacketNumberSpace,
    },
    random,
    recovery::{
        congestion_controller::{self as ccm, CongestionController, PathInfo, Publisher},
        RttEstimator,
    },
    time::Timestamp,
};
use std::sync::atomic::{AtomicU64, Ordering};

pub fn ts_us(t: Timestamp) -> u64 {
    unsafe { t.as_duration() }.as_micros() as u64
}

fn space_of(s: PacketNumberSpace) -> Space {
    match s {
        PacketNumberSpace::Initial => Space::Initial,
        PacketNumberSpace::Handshake => Space::Handshake,
        PacketNumberSpace::ApplicationData => Space::App,
    }
}

fn conn_of(s: &Subject) -> Option<u64> {
    match s {
        Subject::Connection { id, .. } => Some(*id),
        _ => None,
    }
}

/// A frame-rewriting callback used in attacker mode: receives the parsed frames of an
/// outgoing packet and may return replacement payload bytes.
pub type Rewriter = Box<dyn FnMut(&Pkt, usize) -> Option<Vec<u8>> + Send>;

pub struct Tap {
    pub ep: EpId,
    pub w: Shared,
    /// attacker mode (C04): rewrite outgoing cleartext payloads
    pub rewriter: Option<Rewriter>,
    /// when false the TX/RX taps of this endpoint do not feed monitors (the attacker's own
    /// traffic is not the system under test)
    pub observe: bool,
}

impl Tap {
    pub fn new(ep: EpId, w: Shared) -> Self {
        Tap {
            ep,
            w,
            rewriter: None,
            observe: true,
        }
    }
}

fn parse(ep: EpId, conn: u64, p: &Packet, bytes: &[u8]) -> Pkt {
    let (frames, parse_error) = match vq_wire::frames(bytes) {
        Ok(f) => (f, None),
        Err(e) => (Vec::new(), Some(format!("{e:?}"))),
    };
    Pkt {
        ep,
        conn,
        space: space_of(p.number.space()),
        pn: p.number.as_u64(),
        t: ts_us(p.timestamp),
        frames,
        payload_len: bytes.len(),
        payload_hash: vq_util::fnv(bytes),
        parse_error,
    }
}

impl Interceptor for Tap {
    fn intercept_rx_payload<'a>(
        &mut self,
        subject: &Subject,
        packet: &Packet,
        payload: DecoderBufferMut<'a>,
    ) -> DecoderBufferMut<'a> {
        let slice = payload.into_less_safe_slice();
        if let (Some(conn), true) = (conn_of(subject), self.observe) {
            let pkt = parse(self.ep, conn, packet, slice);
            self.w.lock().unwrap().rx(pkt);
        }
        DecoderBufferMut::new(slice)
    }

    fn intercept_tx_payload(
        &mut self,
        subject: &Subject,
        packet: &Packet,
        payload: &mut scatter::Buffer,
    ) {
        let Some(conn) = conn_of(subject) else { return };
        let (bytes, capacity) = {
            let (inner, extra) = payload.inner_mut();
            let mut bytes = inner.as_mut_slice().to_vec();
            let used = bytes.len();
            if let Some(extra) = extra {
                bytes.extend_from_slice(extra);
            }
            let cap = used + {
                let (_, rest) = inner.split_mut();
                rest.len()
            };
            (bytes, cap)
        };
        let mut pkt = parse(self.ep, conn, packet, &bytes);
        if let Some(rw) = self.rewriter.as_mut() {
            if let Some(new) = rw(&pkt, capacity) {
                if new.len() <= capacity {
                    payload.clear();
                    use s2n_codec::Encoder;
                    payload.write_slice(&new);
                    pkt = parse(self.ep, conn, packet, &new);
                    let mut w = self.w.lock().unwrap();
                    w.ctx.now = w.ctx.now.max(pkt.t);
                    w.ctx.attack_pkts.push((self.ep, pkt.space, pkt.pn, pkt.t));
                    let b = pkt.brief();
                    let ep = self.ep;
                    w.ctx.log(|| format!("ep{ep} ATTACK rewrote outgoing packet to {b}"));
                }
            }
        }
        if self.observe {
            self.w.lock().unwrap().tx(pkt);
        } else {
            // still keep datagram bookkeeping consistent
            let mut w = self.w.lock().unwrap();
            w.ctx.cur_pkts.entry(self.ep).or_default().push((
                conn,
                pkt.space,
                pkt.pn,
                0,
                pkt.ack_eliciting(),
                pkt.payload_len,
            ));
        }
    }

    fn intercept_tx_datagram(
        &mut self,
        subject: &Subject,
        _datagram: &Datagram,
        payload: &mut EncoderBuffer,
    ) {
        let Some(conn) = conn_of(subject) else { return };
        let bytes = payload.as_mut_slice();
        self.w.lock().unwrap().tx_datagram(self.ep, conn, bytes);
    }
}

// ---------------------------------------------------------------------------

pub struct Sub {
    pub ep: EpId,
    pub w: Shared,
}

fn hdr(h: &events::PacketHeader) -> Option<(Space, u64)> {
    match h {
        events::PacketHeader::Initial { number, .. } => Some((Space::Initial, *number)),
        events::PacketHeader::Handshake { number, .. } => Some((Space::Handshake, *number)),
        events::PacketHeader::OneRtt { number, .. } => Some((Space::App, *number)),
        events::PacketHeader::ZeroRtt { number, .. } => Some((Space::App, *number)),
        _ => None,
    }
}

fn key_space(k: &events::KeySpace) -> Option<Space> {
    match k {
        events::KeySpace::Initial { .. } => Some(Space::Initial),
        events::KeySpace::Handshake { .. } => Some(Space::Handshake),
        events::KeySpace::OneRtt { .. } => Some(Space::App),
        _ => None,
    }
}

fn port_of(a: &events::SocketAddress) -> u16 {
    match a {
        events::SocketAddress::IpV4 { port, .. } => *port,
        events::SocketAddress::IpV6 { port, .. } => *port,
        _ => 0,
    }
}

impl Sub {
    fn emit(&self, meta: &events::ConnectionMeta, e: Evt) {
        let t = meta.timestamp.duration_since_start().as_micros() as u64;
        self.w.lock().unwrap().evt(self.ep, meta.id, t, e);
    }
}

impl event::Subscriber for Sub {
    type ConnectionContext = ();

    fn create_connection_context(
        &mut self,
        _meta: &events::ConnectionMeta,
        _info: &events::ConnectionInfo,
    ) -> Self::ConnectionContext {
    }

    fn on_connection_started(
        &mut self,
        _c: &mut (),
        meta: &events::ConnectionMeta,
        e: &events::ConnectionStarted,
    ) {
        self.emit(
            meta,
            Evt::Started {
                local_cid: e.path.local_cid.bytes.to_vec(),
                remote_cid: e.path.remote_cid.bytes.to_vec(),
                remote_port: port_of(&e.path.remote_addr),
            },
        );
    }

    fn on_packet_sent(&mut self, _c: &mut (), meta: &events::ConnectionMeta, e: &events::PacketSent) {
        if let Some((space, pn)) = hdr(&e.packet_header) {
            let (probe, mode) = match e.transmission_mode {
                events::TransmissionMode::Normal { .. } => (false, "normal"),
                events::TransmissionMode::LossRecoveryProbing { .. } => (true, "probe"),
                events::TransmissionMode::MtuProbing { .. } => (false, "mtu"),
                events::TransmissionMode::PathValidationOnly { .. } => (false, "pathval"),
                _ => (false, "other"),
            };
            self.emit(
                meta,
                Evt::PacketSent {
                    space,
                    pn,
                    len: e.packet_len,
                    probe,
                    mode,
                },
            );
        }
    }

    fn on_packet_lost(&mut self, _c: &mut (), meta: &events::ConnectionMeta, e: &events::PacketLost) {
        if let Some((space, pn)) = hdr(&e.packet_header) {
            self.emit(
                meta,
                Evt::PacketLost {
                    space,
                    pn,
                    bytes: e.bytes_lost,
                    path_id: e.path.id,
                    mtu_probe: e.is_mtu_probe,
                },
            );
        }
    }

    fn on_ack_range_received(
        &mut self,
        _c: &mut (),
        meta: &events::ConnectionMeta,
        e: &events::AckRangeReceived,
    ) {
        if let Some((space, _)) = hdr(&e.packet_header) {
            self.emit(
                meta,
                Evt::AckRange {
                    space,
                    lo: *e.ack_range.start(),
                    hi: *e.ack_range.end(),
                    path_id: e.path.id,
                },
            );
        }
    }

    fn on_recovery_metrics(
        &mut self,
        _c: &mut (),
        meta: &events::ConnectionMeta,
        e: &events::RecoveryMetrics,
    ) {
        self.emit(
            meta,
            Evt::Metrics(Metrics {
                path_id: e.path.id,
                min_rtt: e.min_rtt.as_micros() as u64,
                smoothed_rtt: e.smoothed_rtt.as_micros() as u64,
                latest_rtt: e.latest_rtt.as_micros() as u64,
                rtt_variance: e.rtt_variance.as_micros() as u64,
                max_ack_delay: e.max_ack_delay.as_micros() as u64,
                pto_count: e.pto_count,
                cwnd: e.congestion_window,
                bif: e.bytes_in_flight,
                limited: e.congestion_limited,
            }),
        );
    }

    fn on_congestion(&mut self, _c: &mut (), meta: &events::ConnectionMeta, e: &events::Congestion) {
        let source = match e.source {
            events::CongestionSource::Ecn { .. } => "ecn",
            events::CongestionSource::PacketLoss { .. } => "loss",
            _ => "other",
        };
        self.emit(
            meta,
            Evt::Congestion {
                path_id: e.path.id,
                source,
            },
        );
    }

    fn on_key_space_discarded(
        &mut self,
        _c: &mut (),
        meta: &events::ConnectionMeta,
        e: &events::KeySpaceDiscarded,
    ) {
        if let Some(space) = key_space(&e.space) {
            self.emit(meta, Evt::SpaceDiscarded { space });
        }
    }

    fn on_connection_closed(
        &mut self,
        _c: &mut (),
        meta: &events::ConnectionMeta,
        e: &events::ConnectionClosed,
    ) {
        self.emit(meta, Evt::Closed(CloseKind::from_err(&e.error)));
    }

    fn on_transport_parameters_received(
        &mut self,
        _c: &mut (),
        meta: &events::ConnectionMeta,
        e: &events::TransportParametersReceived,
    ) {
        let p = &e.transport_parameters;
        self.emit(
            meta,
            Evt::PeerParams(PeerParams {
                initial_max_stream_data_bidi_local: p.initial_max_stream_data_bidi_local,
                initial_max_stream_data_bidi_remote: p.initial_max_stream_data_bidi_remote,
                initial_max_stream_data_uni: p.initial_max_stream_data_uni,
                initial_max_streams_bidi: p.initial_max_streams_bidi,
                initial_max_streams_uni: p.initial_max_streams_uni,
                max_idle_timeout_ms: p.max_idle_timeout.as_millis() as u64,
                max_udp_payload_size: p.max_udp_payload_size as u64,
                ack_delay_exponent: p.ack_delay_exponent as u64,
                max_ack_delay_ms: p.max_ack_delay.as_millis() as u64,
                active_connection_id_limit: p.active_connection_id_limit as u64,
                disable_active_migration: !p.migration_support,
                initial_source_cid: p
                    .initial_source_connection_id
                    .as_ref()
                    .map(|c| c.bytes.to_vec())
                    .unwrap_or_default(),
                original_destination_cid: p
                    .original_destination_connection_id
                    .as_ref()
                    .map(|c| c.bytes.to_vec())
                    .unwrap_or_default(),
                stateless_reset_token: p.stateless_reset_token.map(|t| t.to_vec()),
            }),
        );
    }

    fn on_packet_dropped(
        &mut self,
        _c: &mut (),
        meta: &events::ConnectionMeta,
        e: &events::PacketDropped,
    ) {
        let decrypt_failed = matches!(
            e.reason,
            events::PacketDropReason::DecryptionFailed { .. }
                | events::PacketDropReason::UnprotectFailed { .. }
        );
        let space_pn = match &e.reason {
            events::PacketDropReason::DecryptionFailed { packet_header, .. } => hdr(packet_header),
            events::PacketDropReason::UnprotectFailed { space, .. } => {
                key_space(space).map(|s| (s, u64::MAX))
            }
            _ => None,
        };
        let mut reason = format!("{:?}", e.reason);
        if let Some(i) = reason.find(" {") {
            reason.truncate(i);
        }
        self.emit(
            meta,
            Evt::PacketDropped {
                reason,
                decrypt_failed,
                space_pn,
            },
        );
    }

    fn on_duplicate_packet(
        &mut self,
        _c: &mut (),
        meta: &events::ConnectionMeta,
        e: &events::DuplicatePacket,
    ) {
        if let Some((space, pn)) = hdr(&e.packet_header) {
            let too_old = matches!(e.error, events::DuplicatePacketError::TooOld { .. });
            self.emit(meta, Evt::Duplicate { space, pn, too_old });
        }
    }

    fn on_rx_ack_range_dropped(
        &mut self,
        _c: &mut (),
        meta: &events::ConnectionMeta,
        e: &events::RxAckRangeDropped,
    ) {
        self.emit(
            meta,
            Evt::RxAckRangeDropped {
                lo: *e.packet_number_range.start(),
                hi: *e.packet_number_range.end(),
            },
        );
    }

    fn on_key_update(&mut self, _c: &mut (), meta: &events::ConnectionMeta, e: &events::KeyUpdate) {
        if let events::KeyType::OneRtt { generation, .. } = e.key_type {
            self.emit(meta, Evt::KeyUpdate { generation });
        }
    }

    fn on_handshake_status_updated(
        &mut self,
        _c: &mut (),
        meta: &events::ConnectionMeta,
        e: &events::HandshakeStatusUpdated,
    ) {
        let status = match e.status {
            events::HandshakeStatus::Complete { .. } => "complete",
            events::HandshakeStatus::Confirmed { .. } => "confirmed",
            events::HandshakeStatus::HandshakeDoneAcked { .. } => "done_acked",
            events::HandshakeStatus::HandshakeDoneLost { .. } => "done_lost",
            _ => "other",
        };
        self.emit(meta, Evt::Handshake { status });
    }

    fn on_mtu_updated(&mut self, _c: &mut (), meta: &events::ConnectionMeta, e: &events::MtuUpdated) {
        self.emit(
            meta,
            Evt::MtuUpdated {
                path_id: e.path_id,
                mtu: e.mtu,
                cause: format!("{:?}", e.cause),
            },
        );
    }

    fn on_datagram_dropped(
        &mut self,
        _c: &mut (),
        meta: &events::ConnectionMeta,
        e: &events::DatagramDropped,
    ) {
        self.emit(
            meta,
            Evt::DatagramDropped {
                reason: format!("{:?}", e.reason),
                len: e.len,
            },
        );
    }

    fn on_active_path_updated(
        &mut self,
        _c: &mut (),
        meta: &events::ConnectionMeta,
        e: &events::ActivePathUpdated,
    ) {
        self.emit(
            meta,
            Evt::ActivePath {
                remote_port: port_of(&e.active.remote_addr),
                path_id: e.active.id,
            },
        );
    }

    fn on_path_created(&mut self, _c: &mut (), meta: &events::ConnectionMeta, e: &events::PathCreated) {
        self.emit(meta, Evt::PathCreated { path_id: e.new.id, remote_port: port_of(&e.new.remote_addr) });
    }

    fn on_connection_id_updated(
        &mut self,
        _c: &mut (),
        meta: &events::ConnectionMeta,
        e: &events::ConnectionIdUpdated,
    ) {
        self.emit(
            meta,
            Evt::CidUpdated {
                local_consumer: matches!(e.cid_consumer, s2n_quic_core::endpoint::Location::Local),
                current: e.current.bytes.to_vec(),
            },
        );
    }

    fn on_bbr_state_changed(
        &mut self,
        _c: &mut (),
        meta: &events::ConnectionMeta,
        e: &events::BbrStateChanged,
    ) {
        let s = match e.state {
            events::BbrState::Startup { .. } => "startup",
            events::BbrState::Drain { .. } => "drain",
            events::BbrState::ProbeBwDown { .. } => "probe_bw_down",
            events::BbrState::ProbeBwCruise { .. } => "probe_bw_cruise",
            events::BbrState::ProbeBwRefill { .. } => "probe_bw_refill",
            events::BbrState::ProbeBwUp { .. } => "probe_bw_up",
            events::BbrState::ProbeRtt { .. } => "probe_rtt",
            _ => "other",
        };
        self.emit(meta, Evt::BbrState(s));
    }

    fn on_endpoint_datagram_dropped(
        &mut self,
        meta: &events::EndpointMeta,
        e: &events::EndpointDatagramDropped,
    ) {
        let t = meta.timestamp.duration_since_start().as_micros() as u64;
        self.w.lock().unwrap().evt(
            self.ep,
            u64::MAX,
            t,
            Evt::EndpointDatagramDropped {
                reason: format!("{:?}", e.reason),
                len: e.len,
            },
        );
    }
}

// ---------------------------------------------------------------------------
// Congestion-controller proxy

static CC_IDS: AtomicU64 = AtomicU64::new(1);

#[derive(Debug)]
pub struct CcEndpoint<E: ccm::Endpoint> {
    pub ep: EpId,
    pub w: SharedDbg,
    pub inner: E,
    pub bbr: bool,
}

/// newtype so the proxy can derive Debug
#[derive(Clone)]
pub struct SharedDbg(pub Shared);
impl core::fmt::Debug for SharedDbg {
    fn fmt(&self, f: &mut core::fmt::Formatter<'_>) -> core::fmt::Result {
        f.write_str("World")
    }
}

impl<E: ccm::Endpoint> ccm::Endpoint for CcEndpoint<E> {
    type CongestionController = CcProxy<E::CongestionController>;

    fn new_congestion_controller(&mut self, path_info: PathInfo) -> Self::CongestionController {
        let mtu = path_info.max_datagram_size;
        let peer_port = match &path_info.remote_address {
            s2n_quic_core::event::api::SocketAddress::IpV4 { port, .. } => *port,
            s2n_quic_core::event::api::SocketAddress::IpV6 { port, .. } => *port,
            _ => 0,
        };
        let inner = self.inner.new_congestion_controller(path_info);
        let p = CcProxy {
            ep: self.ep,
            w: self.w.clone(),
            inner,
            cc_id: CC_IDS.fetch_add(1, Ordering::Relaxed),
            bbr: self.bbr,
            peer_port,
            now: std::cell::Cell::new(0),
        };
        p.record(CcCall::New { mtu }, p.snap(), None);
        p
    }
}

#[derive(Debug)]
pub struct CcProxy<C: CongestionController> {
    ep: EpId,
    w: SharedDbg,
    inner: C,
    cc_id: u64,
    bbr: bool,
    peer_port: u16,
    now: std::cell::Cell<u64>,
}

// the proxy is only ever used from the single simulation thread
unsafe impl<C: CongestionController> Sync for CcProxy<C> {}

impl<C: CongestionController> Clone for CcProxy<C> {
    fn clone(&self) -> Self {
        // a clone is a new, independent controller instance as far as the shadow is concerned
        CcProxy {
            ep: self.ep,
            w: self.w.clone(),
            inner: self.inner.clone(),
            cc_id: CC_IDS.fetch_add(1, Ordering::Relaxed),
            bbr: self.bbr,
            peer_port: self.peer_port,
            now: self.now.clone(),
        }
    }
}

#[derive(Clone, Copy)]
struct Snap {
    cwnd: u32,
    bif: u32,
    limited: bool,
    fast: bool,
}

impl<C: CongestionController> CcProxy<C> {
    fn snap(&self) -> Snap {
        Snap {
            cwnd: self.inner.congestion_window(),
            bif: self.inner.bytes_in_flight(),
            limited: self.inner.is_congestion_limited(),
            fast: self.inner.requires_fast_retransmission(),
        }
    }
    fn record(&self, call: CcCall, before: Snap, rtt: Option<&RttEstimator>) {
        let after = self.snap();
        let t = match &call {
            CcCall::Sent { t, .. } => *t,
            CcCall::RttUpdate { now, .. } => *now,
            CcCall::Ack { now, .. } => *now,
            CcCall::Lost { t, .. } => *t,
            CcCall::Ecn { t, .. } => *t,
            _ => 0,
        };
        if t > self.now.get() {
            self.now.set(t);
        }
        let o = CcObs {
            ep: self.ep,
            peer_port: self.peer_port,
            now_us: self.now.get(),
            cc_id: self.cc_id,
            bbr: self.bbr,
            call,
            cwnd_before: before.cwnd,
            cwnd_after: after.cwnd,
            bif_before: before.bif,
            bif_after: after.bif,
            limited_before: before.limited,
            fast_retx_before: before.fast,
            srtt_us: rtt.map(|r| r.smoothed_rtt().as_micros() as u64).unwrap_or(0),
            latest_rtt_us: rtt.map(|r| r.latest_rtt().as_micros() as u64).unwrap_or(0),
            min_rtt_us: rtt.map(|r| r.min_rtt().as_micros() as u64).unwrap_or(0),
            rttvar_us: rtt.map(|r| r.rttvar().as_micros() as u64).unwrap_or(0),
            edt_us: self.inner.earliest_departure_time().map(ts_us),
        };
        self.w.0.lock().unwrap().cc(o);
    }
}

impl<C: CongestionController> CongestionController for CcProxy<C> {
    type PacketInfo = C::PacketInfo;

    fn congestion_window(&self) -> u32 {
        self.inner.congestion_window()
    }
    fn bytes_in_flight(&self) -> u32 {
        self.inner.bytes_in_flight()
    }
    fn is_congestion_limited(&self) -> bool {
        self.inner.is_congestion_limited()
    }
    fn requires_fast_retransmission(&self) -> bool {
        self.inner.requires_fast_retransmission()
    }
    fn on_packet_sent<Pub: Publisher>(
        &mut self,
        time_sent: Timestamp,
        sent_bytes: usize,
        app_limited: Option<bool>,
        rtt_estimator: &RttEstimator,
        publisher: &mut Pub,
    ) -> Self::PacketInfo {
        let b = self.snap();
        let r = self
            .inner
            .on_packet_sent(time_sent, sent_bytes, app_limited, rtt_estimator, publisher);
        self.record(
            CcCall::Sent {
                t: ts_us(time_sent),
                bytes: sent_bytes,
                app_limited,
            },
            b,
            Some(rtt_estimator),
        );
        r
    }
    fn on_rtt_update<Pub: Publisher>(
        &mut self,
        time_sent: Timestamp,
        now: Timestamp,
        rtt_estimator: &RttEstimator,
        publisher: &mut Pub,
    ) {
        let b = self.snap();
        self.inner
            .on_rtt_update(time_sent, now, rtt_estimator, publisher);
        self.record(
            CcCall::RttUpdate {
                t: ts_us(time_sent),
                now: ts_us(now),
            },
            b,
            Some(rtt_estimator),
        );
    }
    fn on_ack<Pub: Publisher>(
        &mut self,
        newest_acked_time_sent: Timestamp,
        bytes_acknowledged: usize,
        newest_acked_packet_info: Self::PacketInfo,
        rtt_estimator: &RttEstimator,
        random_generator: &mut dyn random::Generator,
        ack_receive_time: Timestamp,
        publisher: &mut Pub,
    ) {
        let b = self.snap();
        self.inner.on_ack(
            newest_acked_time_sent,
            bytes_acknowledged,
            newest_acked_packet_info,
            rtt_estimator,
            random_generator,
            ack_receive_time,
            publisher,
        );
        self.record(
            CcCall::Ack {
                bytes: bytes_acknowledged,
                now: ts_us(ack_receive_time),
            },
            b,
            Some(rtt_estimator),
        );
    }
    fn on_packet_lost<Pub: Publisher>(
        &mut self,
        lost_bytes: u32,
        packet_info: Self::PacketInfo,
        persistent_congestion: bool,
        new_loss_burst: bool,
        random_generator: &mut dyn random::Generator,
        timestamp: Timestamp,
        publisher: &mut Pub,
    ) {
        let b = self.snap();
        self.inner.on_packet_lost(
            lost_bytes,
            packet_info,
            persistent_congestion,
            new_loss_burst,
            random_generator,
            timestamp,
            publisher,
        );
        self.record(
            CcCall::Lost {
                bytes: lost_bytes,
                persistent: persistent_congestion,
                new_burst: new_loss_burst,
                t: ts_us(timestamp),
            },
            b,
            None,
        );
    }
    fn on_explicit_congestion<Pub: Publisher>(
        &mut self,
        ce_count: u64,
        event_time: Timestamp,
        publisher: &mut Pub,
    ) {
        let b = self.snap();
        self.inner
            .on_explicit_congestion(ce_count, event_time, publisher);
        self.record(
            CcCall::Ecn {
                ce: ce_count,
                t: ts_us(event_time),
            },
            b,
            None,
        );
    }
    fn on_mtu_update<Pub: Publisher>(&mut self, max_data_size: u16, publisher: &mut Pub) {
        let b = self.snap();
        self.inner.on_mtu_update(max_data_size, publisher);
        self.record(CcCall::Mtu { mtu: max_data_size }, b, None);
    }
    fn on_packet_discarded<Pub: Publisher>(&mut self, bytes_sent: usize, publisher: &mut Pub) {
        let b = self.snap();
        self.inner.on_packet_discarded(bytes_sent, publisher);
        self.record(CcCall::Discarded { bytes: bytes_sent }, b, None);
    }
    fn earliest_departure_time(&self) -> Option<Timestamp> {
        self.inner.earliest_departure_time()
    }
    fn send_quantum(&self) -> Option<usize> {
        self.inner.send_quantum()
    }
}

// ---------------------------------------------------------------------------
// deterministic stateless-reset token generator (keyed by a per-endpoint secret): enables
// stateless resets, which the default (random-token) provider keeps switched off

pub struct SrtGen(pub u64);

impl SrtGen {
    pub fn token_for(secret: u64, cid: &[u8]) -> [u8; 16] {
        let h1 = vq_util::mix(secret, vq_util::fnv(cid));
        let h2 = vq_util::mix(h1, 0x5157_5157);
        let mut t = [0u8; 16];
        t[..8].copy_from_slice(&h1.to_le_bytes());
        t[8..].copy_from_slice(&h2.to_le_bytes());
        t
    }
}

impl s2n_quic_core::stateless_reset::token::Generator for SrtGen {
    const ENABLED: bool = true;
    fn generate(&mut self, local_connection_id: &[u8]) -> s2n_quic_core::stateless_reset::Token {
        Self::token_for(self.0, local_connection_id).into()
    }
}

impl s2n_quic::provider::stateless_reset_token::Provider for SrtGen {
    type Generator = Self;
    type Error = core::convert::Infallible;
    fn start(self) -> Result<Self::Generator, Self::Error> {
        Ok(self)
    }
}

// ---------------------------------------------------------------------------
// deterministic random provider (per endpoint)

pub struct Random(pub vq_util::Rng);

impl s2n_quic::provider::random::Provider for Random {
    type Generator = Self;
    type Error = core::convert::Infallible;
    fn start(self) -> Result<Self::Generator, Self::Error> {
        Ok(self)
    }
}

impl s2n_quic::provider::random::Generator for Random {
    fn public_random_fill(&mut self, dest: &mut [u8]) {
        self.0.fill(dest)
    }
    fn private_random_fill(&mut self, dest: &mut [u8]) {
        self.0.fill(dest)
    }
}

// ---------------------------------------------------------------------------
// deterministic connection-id format: same semantics as provider::connection_id::default
// (random ids of fixed length, optional lifetime, optional handshake-id rotation) but drawn
// from the scenario's seed instead of the thread rng, so that a scenario replays exactly

pub struct CidFormat {
    pub rng: vq_util::Rng,
    pub len: usize,
    pub lifetime: Option<core::time::Duration>,
    pub rotate_handshake: bool,
}

impl s2n_quic::provider::connection_id::Generator for CidFormat {
    fn generate(
        &mut self,
        _info: &s2n_quic::provider::connection_id::ConnectionInfo,
    ) -> s2n_quic::provider::connection_id::LocalId {
        let mut id = [0u8; 20];
        let id = &mut id[..self.len];
        self.rng.fill(id);
        (&*id).try_into().expect("length checked at construction")
    }

    fn lifetime(&self) -> Option<core::time::Duration> {
        self.lifetime
    }

    fn rotate_handshake_connection_id(&self) -> bool {
        self.rotate_handshake
    }
}

impl s2n_quic::provider::connection_id::Validator for CidFormat {
    fn validate(
        &self,
        _info: &s2n_quic::provider::connection_id::ConnectionInfo,
        buffer: &[u8],
    ) -> Option<usize> {
        if buffer.len() >= self.len {
            Some(self.len)
        } else {
            None
        }
    }
}
