//! Shared state of one simulated execution: what every tap writes to and every
//! monitor reads from. Single-threaded (bach executor); the Mutex is only there
//! because provider traits require `Send`.

use crate::{mon::Monitors, params::Params};
use std::{
    collections::{BTreeMap, HashMap, VecDeque},
    sync::{Arc, Mutex},
};
use vq_util::{json, Summary, Value, Violation};
pub use vq_wire::Frame;

pub type EpId = usize;
pub const SERVER: EpId = 0;

#[derive(Clone, Copy, PartialEq, Eq, Hash, PartialOrd, Ord, Debug)]
pub enum Space {
    Initial,
    Handshake,
    App,
}

impl Space {
    pub fn idx(self) -> usize {
        self as usize
    }
}

/// A cleartext packet seen by the TX or RX tap of an endpoint.
#[derive(Clone, Debug)]
pub struct Pkt {
    pub ep: EpId,
    pub conn: u64,
    pub space: Space,
    pub pn: u64,
    /// virtual time in microseconds (timestamp handed to the interceptor)
    pub t: u64,
    pub frames: Vec<Frame>,
    pub payload_len: usize,
    /// hash of the cleartext payload bytes
    pub payload_hash: u64,
    /// the reference parser could not parse the payload the endpoint produced/accepted
    pub parse_error: Option<String>,
}

impl Pkt {
    pub fn ack_eliciting(&self) -> bool {
        self.frames.iter().any(|f| f.ack_eliciting())
    }
    pub fn brief(&self) -> String {
        let mut s = format!("{:?}#{} [", self.space, self.pn);
        for (i, f) in self.frames.iter().enumerate() {
            if i > 0 {
                s.push(' ');
            }
            if i >= 8 {
                s.push('…');
                break;
            }
            match f {
                Frame::Stream {
                    id,
                    offset,
                    data,
                    fin,
                    ..
                } => s.push_str(&format!(
                    "STREAM({id},{offset}+{}{})",
                    data.len(),
                    if *fin { ",FIN" } else { "" }
                )),
                Frame::Ack {
                    largest, ranges, ..
                } => s.push_str(&format!("ACK({largest},{}r)", ranges.len())),
                Frame::MaxData { max } => s.push_str(&format!("MAX_DATA({max})")),
                Frame::MaxStreamData { id, max } => {
                    s.push_str(&format!("MAX_STREAM_DATA({id},{max})"))
                }
                Frame::MaxStreams { bidi, max } => {
                    s.push_str(&format!("MAX_STREAMS({},{max})", if *bidi { "bidi" } else { "uni" }))
                }
                Frame::ResetStream {
                    id, final_size, ..
                } => s.push_str(&format!("RESET_STREAM({id},fs={final_size})")),
                Frame::Padding { len } => s.push_str(&format!("PAD({len})")),
                Frame::Crypto { offset, data } => {
                    s.push_str(&format!("CRYPTO({offset}+{})", data.len()))
                }
                Frame::ConnectionClose { code, transport, .. } => s.push_str(&format!(
                    "CLOSE({}{code:#x})",
                    if *transport { "T" } else { "A" }
                )),
                Frame::NewConnectionId {
                    seq,
                    retire_prior_to,
                    ..
                } => s.push_str(&format!("NEW_CID({seq},rpt={retire_prior_to})")),
                Frame::RetireConnectionId { seq } => s.push_str(&format!("RETIRE_CID({seq})")),
                other => s.push_str(other.name()),
            }
        }
        s.push(']');
        s
    }
}

/// how the connection ended, as reported by the `connection_closed` event / application error
#[derive(Clone, Debug, PartialEq, Eq)]
pub enum CloseKind {
    /// closed without error
    Closed { local: bool },
    Transport { code: u64, frame_type: u64, reason: String, local: bool },
    Application { code: u64, local: bool },
    StatelessReset,
    IdleTimeout,
    NoValidPath,
    MaxHandshakeDuration,
    ImmediateClose(String),
    EndpointClosing,
    Other(String),
}

impl CloseKind {
    pub fn from_err(e: &s2n_quic::connection::Error) -> Self {
        use s2n_quic::connection::Error as E;
        use s2n_quic_core::endpoint::Location;
        match e {
            E::Closed { initiator, .. } => CloseKind::Closed {
                local: matches!(initiator, Location::Local),
            },
            E::Transport {
                code,
                frame_type,
                reason,
                initiator,
                ..
            } => CloseKind::Transport {
                code: code.as_u64(),
                frame_type: *frame_type,
                reason: reason.to_string(),
                local: matches!(initiator, Location::Local),
            },
            E::Application {
                error, initiator, ..
            } => CloseKind::Application {
                code: (*error).into(),
                local: matches!(initiator, Location::Local),
            },
            E::StatelessReset { .. } => CloseKind::StatelessReset,
            E::IdleTimerExpired { .. } => CloseKind::IdleTimeout,
            E::NoValidPath { .. } => CloseKind::NoValidPath,
            E::MaxHandshakeDurationExceeded { .. } => CloseKind::MaxHandshakeDuration,
            E::ImmediateClose { reason, .. } => CloseKind::ImmediateClose(reason.to_string()),
            E::EndpointClosing { .. } => CloseKind::EndpointClosing,
            other => CloseKind::Other(format!("{other}")),
        }
    }
    pub fn is_clean(&self) -> bool {
        matches!(
            self,
            CloseKind::Closed { .. } | CloseKind::Application { code: 0, .. }
        )
    }
    pub fn short(&self) -> String {
        match self {
            CloseKind::Closed { local } => format!("closed({})", if *local { "L" } else { "R" }),
            CloseKind::Transport {
                code, local, reason, ..
            } => format!(
                "transport({code:#x},{},{reason})",
                if *local { "L" } else { "R" }
            ),
            CloseKind::Application { code, local } => {
                format!("app({code},{})", if *local { "L" } else { "R" })
            }
            other => format!("{other:?}"),
        }
    }
}

#[derive(Clone, Debug, Default)]
pub struct PeerParams {
    pub initial_max_stream_data_bidi_local: u64,
    pub initial_max_stream_data_bidi_remote: u64,
    pub initial_max_stream_data_uni: u64,
    pub initial_max_streams_bidi: u64,
    pub initial_max_streams_uni: u64,
    pub max_idle_timeout_ms: u64,
    pub max_udp_payload_size: u64,
    pub ack_delay_exponent: u64,
    pub max_ack_delay_ms: u64,
    pub active_connection_id_limit: u64,
    pub disable_active_migration: bool,
    pub initial_source_cid: Vec<u8>,
    pub original_destination_cid: Vec<u8>,
    pub stateless_reset_token: Option<Vec<u8>>,
}

#[derive(Clone, Debug)]
pub struct Metrics {
    pub path_id: u64,
    pub min_rtt: u64,
    pub smoothed_rtt: u64,
    pub latest_rtt: u64,
    pub rtt_variance: u64,
    pub max_ack_delay: u64,
    pub pto_count: u32,
    pub cwnd: u32,
    pub bif: u32,
    pub limited: bool,
}

/// Events from the `event::Subscriber` tap (the subset monitors use).
#[derive(Clone, Debug)]
pub enum Evt {
    Started { local_cid: Vec<u8>, remote_cid: Vec<u8>, remote_port: u16 },
    PacketSent { space: Space, pn: u64, len: usize, probe: bool, mode: &'static str },
    PacketLost { space: Space, pn: u64, bytes: u16, path_id: u64, mtu_probe: bool },
    AckRange { space: Space, lo: u64, hi: u64, path_id: u64 },
    Metrics(Metrics),
    Congestion { path_id: u64, source: &'static str },
    SpaceDiscarded { space: Space },
    Closed(CloseKind),
    PeerParams(PeerParams),
    PacketDropped { reason: String, decrypt_failed: bool, space_pn: Option<(Space, u64)> },
    Duplicate { space: Space, pn: u64, too_old: bool },
    RxAckRangeDropped { lo: u64, hi: u64 },
    KeyUpdate { generation: u16 },
    Handshake { status: &'static str },
    MtuUpdated { path_id: u64, mtu: u16, cause: String },
    DatagramDropped { reason: String, len: u16 },
    ActivePath { remote_port: u16, path_id: u64 },
    PathCreated { path_id: u64, remote_port: u16 },
    CidUpdated { local_consumer: bool, current: Vec<u8> },
    BbrState(&'static str),
    EndpointDatagramDropped { reason: String, len: u16 },
}

/// Congestion-controller proxy call records
#[derive(Clone, Debug)]
pub enum CcCall {
    New { mtu: u16 },
    Sent { t: u64, bytes: usize, app_limited: Option<bool> },
    RttUpdate { t: u64, now: u64 },
    Ack { bytes: usize, now: u64 },
    Lost { bytes: u32, persistent: bool, new_burst: bool, t: u64 },
    Ecn { ce: u64, t: u64 },
    Mtu { mtu: u16 },
    Discarded { bytes: usize },
}

#[derive(Clone, Debug)]
pub struct CcObs {
    pub ep: EpId,
    /// port of the path's remote address (identifies the peer endpoint)
    pub peer_port: u16,
    /// virtual time of the call as far as the proxy can tell (latest timestamp argument seen)
    pub now_us: u64,
    /// unique id of the proxied controller instance (one per path per connection)
    pub cc_id: u64,
    pub bbr: bool,
    pub call: CcCall,
    pub cwnd_before: u32,
    pub cwnd_after: u32,
    pub bif_before: u32,
    pub bif_after: u32,
    pub limited_before: bool,
    pub fast_retx_before: bool,
    pub srtt_us: u64,
    pub latest_rtt_us: u64,
    pub min_rtt_us: u64,
    pub rttvar_us: u64,
    pub edt_us: Option<u64>,
}

#[derive(Clone, Copy, PartialEq, Eq, Hash, PartialOrd, Ord, Debug)]
pub enum Dir {
    /// client to server
    C2S,
    S2C,
}

impl Dir {
    pub fn idx(self) -> usize {
        self as usize
    }
    pub fn rev(self) -> Dir {
        match self {
            Dir::C2S => Dir::S2C,
            Dir::S2C => Dir::C2S,
        }
    }
}

/// (client endpoint, stream id, direction of the bytes)
#[derive(Clone, Copy, PartialEq, Eq, Hash, PartialOrd, Ord, Debug)]
pub struct FlowKey {
    pub client: EpId,
    pub stream: u64,
    pub dir: Dir,
}

impl FlowKey {
    pub fn prf_key(&self, seed: u64) -> u64 {
        vq_util::mix(
            vq_util::mix(seed, self.client as u64),
            (self.stream << 1) | self.dir as u64,
        )
    }
    pub fn sender(&self) -> EpId {
        match self.dir {
            Dir::C2S => self.client,
            Dir::S2C => SERVER,
        }
    }
    pub fn receiver(&self) -> EpId {
        match self.dir {
            Dir::C2S => SERVER,
            Dir::S2C => self.client,
        }
    }
}

/// Application-level operations (application tap), recorded when they return.
#[derive(Clone, Debug)]
pub enum AppOp {
    /// an application task working on a flow started / ended (any outcome)
    TaskStart { flow: FlowKey, sender: bool },
    TaskEnd { flow: FlowKey, sender: bool },
    ConnectBegin,
    OpenBegin,
    ConnectOk { conn: u64 },
    ConnectErr { kind: CloseKind },
    Accepted { conn: u64 },
    Opened { stream: u64 },
    OpenErr { kind: CloseKind },
    /// send() of `len` bytes at `off` is about to be called
    SendBegin { flow: FlowKey, off: u64, len: usize },
    SendOk { flow: FlowKey, off: u64, len: usize },
    SendErr { flow: FlowKey, off: u64, err: String },
    Finished { flow: FlowKey, total: u64 },
    /// close().await (finish + wait for ack of everything) returned
    SendClosed { flow: FlowKey, ok: bool, err: String },
    Reset { flow: FlowKey, at: u64, code: u64 },
    RecvBegin { flow: FlowKey },
    RecvChunk { flow: FlowKey, off: u64, data: bytes::Bytes },
    /// bytes read (and discarded unjudged) from a stream the scenario did not plan
    Drained { flow: FlowKey, n: u64 },
    RecvEnd { flow: FlowKey, total: u64 },
    RecvErr { flow: FlowKey, at: u64, err: String, reset_code: Option<u64> },
    StopSending { flow: FlowKey, at: u64, code: u64 },
    ConnClose { code: u64 },
    ConnEnded { kind: Option<CloseKind> },
}

/// one datagram as seen by the network tap
#[derive(Clone, Debug)]
pub struct Wire {
    /// global index in emission order
    pub idx: u64,
    /// per (src endpoint) index
    pub src_idx: u64,
    pub src: Option<EpId>,
    pub dst: Option<EpId>,
    pub src_port: u16,
    pub dst_port: u16,
    pub t: u64,
    pub bytes: Vec<u8>,
    /// produced by the attacker inside the network tap, not by an endpoint
    pub injected: bool,
    /// cleartext knowledge joined from the TX taps: packets inside this datagram
    pub pkts: Vec<(u64, Space, u64)>,
}

#[derive(Clone, Debug, PartialEq)]
pub enum Fate {
    Deliver { at: u64, copies: u32, mutated: bool },
    Drop(&'static str),
}

/// what `intercept_tx_datagram` knows about a datagram, keyed by hash of its wire bytes
#[derive(Clone, Debug, Default)]
pub struct DgramMeta {
    pub ep: EpId,
    pub conn: u64,
    pub pkts: Vec<(u64, Space, u64)>,
    pub has_close: bool,
    pub ack_eliciting: bool,
    pub tags: u32,
    /// bytes used for the truncated packet number (single short-header packet datagrams only)
    pub pn_len: Option<u32>,
}

pub mod tag {
    pub const MAX_DATA: u32 = 1;
    pub const MAX_STREAM_DATA: u32 = 2;
    pub const MAX_STREAMS: u32 = 4;
    pub const BLOCKED: u32 = 8;
    pub const HANDSHAKE_DONE: u32 = 16;
    pub const NEW_CID: u32 = 32;
    pub const RETIRE_CID: u32 = 64;
    pub const ACK: u32 = 128;
    pub const STREAM: u32 = 256;
    pub const FIN: u32 = 512;
    pub const RESET: u32 = 1024;
    pub const CRYPTO: u32 = 2048;
    pub const CLOSE: u32 = 4096;
    pub const PATH: u32 = 8192;
}

pub struct Ctx {
    pub params: Arc<Params>,
    pub now: u64,
    pub summary: Summary,
    pub ring: VecDeque<String>,
    pub ring_cap: usize,
    pub verbose: bool,
    /// port → endpoint (ports are unique per endpoint; rebinding registers the new one too)
    pub port_to_ep: HashMap<u16, EpId>,
    pub dgram_meta: HashMap<u64, DgramMeta>,
    /// packets encoded since the last datagram boundary, per endpoint
    pub cur_pkts: BTreeMap<EpId, Vec<(u64, Space, u64, u32, bool, usize)>>,
    /// features observed (used for the scenario signature)
    pub features: BTreeMap<&'static str, u64>,
    pub n_violations: usize,
    /// set when the run is over (supervisor finished): taps stop feeding monitors
    pub done: bool,
    /// requests from monitors/profiles to the network tap: drop next datagram with these tags
    pub targeted: Vec<Targeted>,
    /// harness bookkeeping: which plan a stream id was opened for
    pub plans: HashMap<(EpId, u64), crate::params::StreamPlan>,
    /// live application tasks per client connection (both sides)
    pub client_live: BTreeMap<EpId, i64>,
    pub clients_running: usize,
    /// virtual time at which the workload ended (supervisor)
    pub workload_done_at: Option<u64>,
    /// number of connections (both sides counted) whose handshake is confirmed
    pub confirmed: usize,
    /// packets whose payload an attacker-mode tap rewrote: (attacker ep, space, pn, time)
    pub attack_pkts: Vec<(EpId, Space, u64, u64)>,
}

#[derive(Clone, Debug)]
pub struct Targeted {
    pub from: Option<EpId>,
    pub tags: u32,
    /// how many matching datagrams to let pass before dropping
    pub skip: u32,
    /// how many consecutive matching datagrams to drop
    pub drop: u32,
}

impl Ctx {
    pub fn log(&mut self, s: impl FnOnce() -> String) {
        if self.ring_cap == 0 && !self.verbose {
            return;
        }
        let line = format!("{:>10.3}ms {}", self.now as f64 / 1000.0, s());
        if self.verbose {
            eprintln!("{line}");
        }
        if self.ring_cap > 0 {
            if self.ring.len() >= self.ring_cap {
                self.ring.pop_front();
            }
            self.ring.push_back(line);
        }
    }
    pub fn feature(&mut self, k: &'static str) {
        *self.features.entry(k).or_insert(0) += 1;
    }
    pub fn feature_n(&mut self, k: &'static str, n: u64) {
        *self.features.entry(k).or_insert(0) += n;
    }
    pub fn violate(&mut self, property: &str, signature: impl Into<String>, what: impl Into<String>, detail: Value) {
        self.n_violations += 1;
        let what = what.into();
        let signature = signature.into();
        // a profile may run another property's monitor as part of its own oracle
        let relabel = self.params.relabel.clone();
        let (property, signature) = match relabel.as_deref() {
            Some(r) if r != property => (r, format!("{property}:{signature}")),
            _ => (property, signature),
        };
        self.log(|| format!("!! VIOLATION {property} {signature}: {what}"));
        let witness: Vec<String> = self.ring.iter().cloned().collect();
        let replay = json!({
            "engine": "vq-sim",
            "profile": self.params.profile,
            "seed": self.params.seed,
            "t_us": self.now,
            "detail": detail,
            "params": self.params.describe(),
            "witness": witness,
        });
        self.summary.violation(Violation {
            property: property.to_string(),
            signature,
            what,
            replay,
        });
    }
    pub fn ep_of_port(&self, port: u16) -> Option<EpId> {
        self.port_to_ep.get(&port).copied()
    }
}

pub struct World {
    pub ctx: Ctx,
    pub mons: Monitors,
}

pub type Shared = Arc<Mutex<World>>;

impl World {
    pub fn new(params: Arc<Params>, verbose: bool) -> Shared {
        let mons = Monitors::new(&params);
        let targeted = params.targeted.clone();
        Arc::new(Mutex::new(World {
            ctx: Ctx {
                params,
                now: 0,
                summary: Summary::default(),
                ring: VecDeque::new(),
                ring_cap: 80,
                verbose,
                port_to_ep: HashMap::new(),
                dgram_meta: HashMap::new(),
                cur_pkts: BTreeMap::new(),
                features: BTreeMap::new(),
                n_violations: 0,
                done: false,
                targeted,
                plans: HashMap::new(),
                client_live: BTreeMap::new(),
                clients_running: 0,
                workload_done_at: None,
                confirmed: 0,
                attack_pkts: Vec::new(),
            },
            mons,
        }))
    }

    pub fn tx(&mut self, p: Pkt) {
        if self.ctx.done {
            return;
        }
        self.ctx.now = self.ctx.now.max(p.t);
        self.ctx
            .log(|| format!("ep{} c{} TX {}", p.ep, p.conn, p.brief()));
        let mut tags = 0u32;
        for f in &p.frames {
            tags |= match f {
                Frame::MaxData { .. } => tag::MAX_DATA,
                Frame::MaxStreamData { .. } => tag::MAX_STREAM_DATA,
                Frame::MaxStreams { .. } => tag::MAX_STREAMS,
                Frame::DataBlocked { .. }
                | Frame::StreamDataBlocked { .. }
                | Frame::StreamsBlocked { .. } => tag::BLOCKED,
                Frame::HandshakeDone => tag::HANDSHAKE_DONE,
                Frame::NewConnectionId { .. } => tag::NEW_CID,
                Frame::RetireConnectionId { .. } => tag::RETIRE_CID,
                Frame::Ack { .. } => tag::ACK,
                Frame::Stream { fin, .. } => tag::STREAM | if *fin { tag::FIN } else { 0 },
                Frame::ResetStream { .. } => tag::RESET,
                Frame::Crypto { .. } => tag::CRYPTO,
                Frame::ConnectionClose { .. } => tag::CLOSE,
                Frame::PathChallenge { .. } | Frame::PathResponse { .. } => tag::PATH,
                _ => 0,
            };
        }
        self.ctx
            .cur_pkts
            .entry(p.ep)
            .or_default()
            .push((p.conn, p.space, p.pn, tags, p.ack_eliciting(), p.payload_len));
        let World { ctx, mons } = self;
        mons.on_tx(ctx, &p);
    }

    /// datagram boundary on the TX side: join cleartext knowledge to the wire bytes
    pub fn tx_datagram(&mut self, ep: EpId, conn: u64, bytes: &[u8]) {
        if self.ctx.done {
            return;
        }
        let pkts = self.ctx.cur_pkts.remove(&ep).unwrap_or_default();
        let mut meta = DgramMeta {
            ep,
            conn,
            ..Default::default()
        };
        let mut payload_total = 0usize;
        for (c, s, pn, tags, ae, plen) in pkts {
            if c != conn {
                continue;
            }
            meta.pkts.push((c, s, pn));
            meta.tags |= tags;
            meta.ack_eliciting |= ae;
            meta.has_close |= tags & tag::CLOSE != 0;
            payload_total += plen;
        }
        // a datagram holding exactly one short-header packet: its packet-number length follows
        // from the sizes (1 flags byte + DCID + pn + payload + 16-byte tag)
        if meta.pkts.len() == 1 && meta.pkts[0].1 == Space::App && bytes[0] & 0x80 == 0 {
            let dcid_len = if ep == SERVER {
                self.ctx.params.clients[0].cfg.cid_len
            } else {
                self.ctx.params.server.cid_len
            };
            let fixed = 1 + dcid_len + payload_total + 16;
            if bytes.len() > fixed && bytes.len() - fixed <= 4 {
                meta.pn_len = Some((bytes.len() - fixed) as u32);
            }
        }
        let h = vq_util::fnv(bytes);
        self.ctx.dgram_meta.insert(h, meta);
    }

    pub fn rx(&mut self, p: Pkt) {
        if self.ctx.done {
            return;
        }
        self.ctx.now = self.ctx.now.max(p.t);
        self.ctx
            .log(|| format!("ep{} c{} RX {}", p.ep, p.conn, p.brief()));
        let World { ctx, mons } = self;
        mons.on_rx(ctx, &p);
    }

    pub fn evt(&mut self, ep: EpId, conn: u64, t: u64, e: Evt) {
        if self.ctx.done {
            return;
        }
        self.ctx.now = self.ctx.now.max(t);
        match &e {
            Evt::PacketSent { space, pn, probe: true, .. } => {
                self.ctx.log(|| format!("ep{ep} c{conn} EV probe-mode packet {space:?}#{pn}"))
            }
            Evt::Metrics(m) if std::env::var("VQ_LOG_METRICS").is_ok() => {
                self.ctx.log(|| format!("ep{ep} c{conn} EV {m:?}"))
            }
            Evt::Metrics(_) | Evt::PacketSent { .. } | Evt::AckRange { .. } => {}
            other => self.ctx.log(|| format!("ep{ep} c{conn} EV {other:?}")),
        }
        if let Evt::Handshake { status: "confirmed" } = &e {
            self.ctx.confirmed += 1;
        }
        let World { ctx, mons } = self;
        mons.on_evt(ctx, ep, conn, t, &e);
    }

    pub fn cc(&mut self, o: CcObs) {
        if self.ctx.done {
            return;
        }
        let World { ctx, mons } = self;
        mons.on_cc(ctx, &o);
    }

    pub fn app(&mut self, ep: EpId, t: u64, op: AppOp) {
        if self.ctx.done {
            return;
        }
        self.ctx.now = self.ctx.now.max(t);
        match &op {
            AppOp::RecvChunk { flow, off, data } => {
                let (flow, off, len) = (*flow, *off, data.len());
                self.ctx
                    .log(|| format!("ep{ep} APP RecvChunk {flow:?} {off}+{len}"))
            }
            other => self.ctx.log(|| format!("ep{ep} APP {other:?}")),
        }
        let World { ctx, mons } = self;
        mons.on_app(ctx, ep, t, &op);
    }

    pub fn wire(&mut self, w: &Wire, fate: &Fate) {
        if self.ctx.done {
            return;
        }
        self.ctx.now = self.ctx.now.max(w.t);
        self.ctx.log(|| {
            format!(
                "NET #{} {:?}->{:?} {}B {}{:?} pkts={:?}",
                w.idx,
                w.src,
                w.dst,
                w.bytes.len(),
                if w.injected { "INJ " } else { "" },
                fate,
                w.pkts
            )
        });
        let World { ctx, mons } = self;
        mons.on_wire(ctx, w, fate);
    }

    /// a datagram was put into the receive queue of endpoint `dst`
    pub fn delivered(&mut self, w: &Wire, at: u64) {
        if self.ctx.done {
            return;
        }
        self.ctx.now = self.ctx.now.max(at);
        let World { ctx, mons } = self;
        mons.on_delivered(ctx, w, at);
    }

    pub fn workload_done(&mut self, t: u64) {
        self.ctx.now = self.ctx.now.max(t);
        self.ctx.workload_done_at = Some(t);
        self.ctx.log(|| "WORKLOAD DONE".to_string());
        let World { ctx, mons } = self;
        mons.on_workload_done(ctx);
    }

    pub fn finish(&mut self, end_t: u64) {
        self.ctx.now = self.ctx.now.max(end_t);
        let World { ctx, mons } = self;
        mons.finish(ctx);
        ctx.done = true;
    }
}
