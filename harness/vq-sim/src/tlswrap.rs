//! A transparent wrapper around the real TLS endpoint that can rewrite the encoded
//! transport-parameter block handed to the TLS session (C14): the peer then receives
//! parameters an honest s2n-quic endpoint would never produce.

use s2n_codec::{Encoder, EncoderValue};
use s2n_quic_core::{application, crypto::tls};
use std::sync::Arc;

pub type Rewrite = Arc<dyn Fn(Vec<u8>) -> Vec<u8> + Send + Sync>;

pub struct TlsWrap<E: tls::Endpoint> {
    pub endpoint: E,
    pub rewrite: Option<Rewrite>,
}

impl<E: tls::Endpoint> s2n_quic::provider::tls::Provider for TlsWrap<E> {
    type Server = WrapEndpoint<E>;
    type Client = WrapEndpoint<E>;
    type Error = String;

    fn start_server(self) -> Result<Self::Server, Self::Error> {
        Ok(WrapEndpoint {
            endpoint: self.endpoint,
            rewrite: self.rewrite,
        })
    }

    fn start_client(self) -> Result<Self::Client, Self::Error> {
        Ok(WrapEndpoint {
            endpoint: self.endpoint,
            rewrite: self.rewrite,
        })
    }
}

pub struct WrapEndpoint<E: tls::Endpoint> {
    endpoint: E,
    rewrite: Option<Rewrite>,
}

struct Raw(Vec<u8>);

impl EncoderValue for Raw {
    fn encode<En: Encoder>(&self, encoder: &mut En) {
        encoder.write_slice(&self.0)
    }
}

impl<E: tls::Endpoint> tls::Endpoint for WrapEndpoint<E> {
    type Session = E::Session;

    fn new_server_session<Params: EncoderValue>(
        &mut self,
        transport_parameters: &Params,
        connection_info: tls::ConnectionInfo,
    ) -> Self::Session {
        match &self.rewrite {
            Some(rw) => {
                let raw = Raw(rw(transport_parameters.encode_to_vec()));
                self.endpoint.new_server_session(&raw, connection_info)
            }
            None => self
                .endpoint
                .new_server_session(transport_parameters, connection_info),
        }
    }

    fn new_client_session<Params: EncoderValue>(
        &mut self,
        transport_parameters: &Params,
        server_name: application::ServerName,
    ) -> Self::Session {
        match &self.rewrite {
            Some(rw) => {
                let raw = Raw(rw(transport_parameters.encode_to_vec()));
                self.endpoint.new_client_session(&raw, server_name)
            }
            None => self
                .endpoint
                .new_client_session(transport_parameters, server_name),
        }
    }

    fn max_tag_length(&self) -> usize {
        self.endpoint.max_tag_length()
    }
}
