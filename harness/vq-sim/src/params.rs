//! Scenario parameters: a pure function of (profile, seed).

use std::collections::BTreeSet;
use vq_util::{json, Rng, Value};

#[derive(Clone, Debug)]
pub struct EpCfg {
    pub data_window: u64,
    pub bidi_local_window: u64,
    pub bidi_remote_window: u64,
    pub uni_window: u64,
    pub max_open_local_bidi: u64,
    pub max_open_remote_bidi: u64,
    pub max_open_local_uni: u64,
    pub max_open_remote_uni: u64,
    pub max_ack_delay_ms: u64,
    pub ack_elicitation_interval: u8,
    pub max_ack_ranges: u8,
    pub max_send_buffer: u32,
    pub idle_timeout_ms: u64,
    pub handshake_ms: u64,
    pub max_active_cids: u64,
    pub max_mtu: u16,
    pub initial_mtu: u16,
    pub bbr: bool,
    pub keep_alive: bool,
    pub initial_rtt_ms: u64,
    pub stream_batch: u8,
    /// connection-id lifetime in ms (0 = no expiry) and rotate-handshake-cid flag
    pub cid_lifetime_ms: u64,
    pub cid_rotate_handshake: bool,
    pub cid_len: usize,
    pub migration: bool,
    pub seed: u64,
}

impl EpCfg {
    pub fn default_with(seed: u64) -> Self {
        EpCfg {
            data_window: 1_500_000,
            bidi_local_window: 750_000,
            bidi_remote_window: 750_000,
            uni_window: 750_000,
            max_open_local_bidi: 100,
            max_open_remote_bidi: 100,
            max_open_local_uni: 100,
            max_open_remote_uni: 100,
            max_ack_delay_ms: 25,
            ack_elicitation_interval: 1,
            max_ack_ranges: 10,
            max_send_buffer: 512 * 1024,
            idle_timeout_ms: 30_000,
            handshake_ms: 10_000,
            max_active_cids: 3,
            max_mtu: 1500,
            initial_mtu: 1228,
            bbr: false,
            keep_alive: false,
            initial_rtt_ms: 333,
            stream_batch: 1,
            cid_lifetime_ms: 0,
            cid_rotate_handshake: false,
            cid_len: 16,
            migration: true,
            seed,
        }
    }
}

#[derive(Clone, Debug)]
pub struct Phase {
    pub until_us: u64,
    /// loss probability per direction [c2s, s2c]
    pub loss: [f64; 2],
    pub dup: f64,
    pub corrupt: f64,
    pub truncate: f64,
    /// probability of a large extra delay (far reordering)
    pub far: f64,
    pub blackhole: [bool; 2],
    /// probability that an ECN-capable datagram is marked Congestion Experienced
    pub ce: f64,
}

impl Phase {
    pub fn clean(until_us: u64) -> Self {
        Phase {
            until_us,
            loss: [0.0; 2],
            dup: 0.0,
            corrupt: 0.0,
            truncate: 0.0,
            far: 0.0,
            blackhole: [false; 2],
            ce: 0.0,
        }
    }
    pub fn is_clean(&self) -> bool {
        self.loss == [0.0; 2]
            && self.dup == 0.0
            && self.corrupt == 0.0
            && self.truncate == 0.0
            && self.far == 0.0
            && self.blackhole == [false; 2]
    }
}

#[derive(Clone, Debug)]
pub struct NetPlan {
    pub delay_us: u64,
    pub jitter_us: u64,
    pub far_us: u64,
    pub phases: Vec<Phase>,
    /// deterministic drops: per direction, datagram ordinal within that direction
    pub drop_idx: [BTreeSet<u64>; 2],
    /// permanent blackhole per direction after this many datagrams in that direction
    pub blackhole_after: [Option<u64>; 2],
    /// what a blackholed datagram turns into: 0 nothing (dropped), 1 the same datagram with
    /// flipped bits (fails authentication), 2 a replay of the last datagram that got through
    /// in that direction (a duplicate). In all three cases nothing usable arrives any more.
    pub blackhole_kind: u8,
    pub mtu: u16,
    /// client rebind schedule: (time_us, client index)
    pub rebinds: Vec<(u64, usize)>,
    /// one-way delay of the path a client uses after its k-th rebind, in permille of
    /// `delay_us` (index k-1; missing = 1000): migration to a path with another RTT
    pub rebind_delay_permille: Vec<u64>,
}

impl NetPlan {
    pub fn clean(delay_us: u64) -> Self {
        NetPlan {
            delay_us,
            jitter_us: 0,
            far_us: 0,
            phases: vec![],
            drop_idx: [BTreeSet::new(), BTreeSet::new()],
            blackhole_after: [None, None],
            blackhole_kind: 0,
            mtu: 9200,
            rebinds: vec![],
            rebind_delay_permille: vec![],
        }
    }
    pub fn phase_at(&self, t: u64) -> Option<&Phase> {
        self.phases.iter().find(|p| t < p.until_us)
    }
    /// time after which the network is fault free forever (None if a permanent blackhole)
    pub fn heals_at(&self) -> Option<u64> {
        if self.blackhole_after.iter().any(|b| b.is_some()) {
            return None;
        }
        Some(self.phases.last().map(|p| p.until_us).unwrap_or(0))
    }
    pub fn lossy(&self) -> bool {
        self.phases.iter().any(|p| !p.is_clean())
            || !self.drop_idx[0].is_empty()
            || !self.drop_idx[1].is_empty()
            || self.blackhole_after.iter().any(|b| b.is_some())
    }
}

#[derive(Clone, Debug)]
pub enum End {
    /// finish() then wait for close().await
    Finish,
    /// reset(code) once `at` bytes have been written
    Reset { at: u64, code: u64 },
    /// reset(code) this long after the task started, wherever the stream is by then (blocked
    /// on credit, waiting for buffer space, waiting for the final acknowledgement ...)
    ResetAfter { delay_us: u64, code: u64 },
}

#[derive(Clone, Debug)]
pub enum ReadMode {
    Plain,
    /// pause `us` after every `every` chunks
    Slow { every: u32, us: u64 },
    /// call stop_sending(code) after `at` bytes were read
    StopSending { at: u64, code: u64 },
    /// use receive_vectored with this many slots
    Vectored(usize),
    /// read nothing, wait `delay_us` (the stream piles up in the receive buffer, possibly
    /// completely), then reject it: stop_sending(code), or drop the handle when `drop` is set
    RejectAfter { delay_us: u64, code: u64, drop: bool },
}

/// which of the library's write interfaces the sending task uses
#[derive(Clone, Copy, Debug, PartialEq)]
pub enum WriteApi {
    /// SendStream::send(Bytes)
    Send,
    /// SendStream::send_vectored(&mut [Bytes]) with up to this many chunks
    SendVectored(usize),
    /// futures::Sink<Bytes>
    Sink,
    /// futures::io::AsyncWrite::write
    FutWrite,
    /// futures::io::AsyncWrite::write_vectored with this many buffers
    FutWriteVectored(usize),
    /// tokio::io::AsyncWrite::write
    TokioWrite,
    /// tokio::io::AsyncWrite::write_vectored with this many buffers
    TokioWriteVectored(usize),
}

/// which of the library's read interfaces the receiving task uses
#[derive(Clone, Copy, Debug, PartialEq)]
pub enum ReadApi {
    /// ReceiveStream::receive()
    Receive,
    /// ReceiveStream::receive_vectored with this many slots
    ReceiveVectored(usize),
    /// futures::Stream::next
    StreamNext,
    /// futures::io::AsyncRead::read into a buffer of this size
    FutRead(usize),
    /// futures::io::AsyncRead::read_vectored into (count, size) buffers
    FutReadVectored(usize, usize),
    /// tokio::io::AsyncRead::read into a buffer of this size
    TokioRead(usize),
}

#[derive(Clone, Debug)]
pub struct FlowPlan {
    pub write_api: WriteApi,
    pub read_api: ReadApi,
    /// pause this long before every `read_pause_every`-th read call (0: never), so that data
    /// (and the FIN) pile up in the receive buffer before the application asks for it
    pub read_pause_us: u64,
    pub read_pause_every: u32,
    pub len: u64,
    pub chunk_lo: usize,
    pub chunk_hi: usize,
    /// 1/n chance of pausing between writes
    pub gap_every: u32,
    pub gap_us: u64,
    pub flush: bool,
    pub end: End,
    pub read: ReadMode,
}

#[derive(Clone, Debug)]
pub struct StreamPlan {
    pub by_server: bool,
    pub bidi: bool,
    pub open_delay_us: u64,
    pub fwd: FlowPlan,
    pub rev: Option<FlowPlan>,
}

#[derive(Clone, Debug)]
pub struct ClientPlan {
    pub cfg: EpCfg,
    pub start_delay_us: u64,
    /// streams the client opens
    pub streams: Vec<StreamPlan>,
    /// streams the server opens towards this client
    pub server_streams: Vec<StreamPlan>,
    /// close the connection with this application code when done (None: just drop)
    pub close_code: Option<u64>,
    /// close abruptly at this time regardless of progress
    pub abort_at_us: Option<u64>,
    /// the *server* application closes this client's connection at this time
    pub server_close_at_us: Option<u64>,
}

#[derive(Clone, Debug)]
pub struct Params {
    pub profile: String,
    pub seed: u64,
    pub server: EpCfg,
    pub clients: Vec<ClientPlan>,
    pub net: NetPlan,
    pub retry: bool,
    /// hard virtual-time bound for the whole run
    pub t_max_us: u64,
    /// how long to keep the simulation running after the workload finished (close handling)
    pub linger_us: u64,
    /// property-specific knobs
    pub knobs: std::collections::BTreeMap<String, i64>,
    /// which monitors to install
    pub monitors: Vec<String>,
    /// targeted drops by frame content (requests to the network tap)
    pub targeted: Vec<crate::world::Targeted>,
    /// report violations of every installed monitor under this property id
    pub relabel: Option<String>,
}

impl Params {
    pub fn knob(&self, k: &str) -> i64 {
        self.knobs.get(k).copied().unwrap_or(0)
    }

    pub fn describe(&self) -> Value {
        let c0 = &self.clients[0];
        json!({
            "profile": self.profile,
            "seed": self.seed,
            "clients": self.clients.len(),
            "streams_c0": c0.streams.iter().map(|s| format!("{}{}:{}{}",
                if s.bidi {"bidi"} else {"uni"}, if s.by_server {"(srv)"} else {""}, s.fwd.len,
                s.rev.as_ref().map(|r| format!("/{}", r.len)).unwrap_or_default())).collect::<Vec<_>>(),
            "server_streams_c0": c0.server_streams.iter().map(|s| format!("{}:{}{}",
                if s.bidi {"bidi"} else {"uni"}, s.fwd.len,
                s.rev.as_ref().map(|r| format!("/{}", r.len)).unwrap_or_default())).collect::<Vec<_>>(),
            "server_cfg": format!("dw={} bl={} br={} uni={} mob={}/{} mou={}/{} mad={} aei={} sb={} idle={} mtu={}/{} bbr={} cids={} cidlife={}",
                self.server.data_window, self.server.bidi_local_window, self.server.bidi_remote_window, self.server.uni_window,
                self.server.max_open_local_bidi, self.server.max_open_remote_bidi, self.server.max_open_local_uni, self.server.max_open_remote_uni,
                self.server.max_ack_delay_ms, self.server.ack_elicitation_interval, self.server.max_send_buffer, self.server.idle_timeout_ms,
                self.server.initial_mtu, self.server.max_mtu, self.server.bbr, self.server.max_active_cids, self.server.cid_lifetime_ms),
            "client_cfg": format!("dw={} bl={} br={} uni={} mob={}/{} mou={}/{} mad={} aei={} sb={} idle={} mtu={}/{} bbr={} cids={} cidlife={}",
                c0.cfg.data_window, c0.cfg.bidi_local_window, c0.cfg.bidi_remote_window, c0.cfg.uni_window,
                c0.cfg.max_open_local_bidi, c0.cfg.max_open_remote_bidi, c0.cfg.max_open_local_uni, c0.cfg.max_open_remote_uni,
                c0.cfg.max_ack_delay_ms, c0.cfg.ack_elicitation_interval, c0.cfg.max_send_buffer, c0.cfg.idle_timeout_ms,
                c0.cfg.initial_mtu, c0.cfg.max_mtu, c0.cfg.bbr, c0.cfg.max_active_cids, c0.cfg.cid_lifetime_ms),
            "net": format!("delay={}us jitter={}us far={}us mtu={} phases={} drops={:?}/{:?} blackhole={:?} rebinds={}",
                self.net.delay_us, self.net.jitter_us, self.net.far_us, self.net.mtu,
                self.net.phases.iter().map(|p| format!("<{}ms l={:.2}/{:.2} d={:.2} c={:.2} t={:.2} f={:.2} bh={:?}", p.until_us/1000, p.loss[0], p.loss[1], p.dup, p.corrupt, p.truncate, p.far, p.blackhole)).collect::<Vec<_>>().join(";"),
                self.net.drop_idx[0], self.net.drop_idx[1], self.net.blackhole_after, self.net.rebinds.len()),
            "retry": self.retry,
            "knobs": self.knobs,
        })
    }
}

// ---------------------------------------------------------------------------
// generators

/// sizes clustered at the interesting boundaries
pub fn gen_len(r: &mut Rng, max: u64) -> u64 {
    let v = match r.below(12) {
        0 => 0,
        1 => 1,
        2 => r.range(2, 100),
        3 => 1200 + r.range(0, 100) - 50,
        4 => 4096 * r.range(1, 8) + r.range(0, 2) - 1,
        5 => 65536 + r.range(0, 2) - 1,
        6 => 262_144 + r.range(0, 2) - 1,
        7 => r.range(100, 5_000),
        8 => r.range(5_000, 60_000),
        9 => r.range(60_000, 300_000),
        10 => r.range(1000, 20_000),
        _ => r.range(10_000, 1_000_000),
    };
    v.min(max)
}

pub fn gen_window(r: &mut Rng, tiny: bool) -> u64 {
    if tiny {
        match r.below(8) {
            0 => 1,
            1 => 2,
            2 => r.range(3, 100),
            3 => 1000,
            4 => (1 << 14) + r.range(0, 2) - 1,
            5 => r.range(100, 5000),
            6 => r.range(5000, 70_000),
            _ => r.range(1200, 20_000),
        }
    } else {
        match r.below(6) {
            0 => r.range(1000, 10_000),
            1 => r.range(10_000, 100_000),
            2 => 65_536,
            3 => r.range(100_000, 1_000_000),
            _ => 1_500_000,
        }
    }
}

pub fn gen_flow(r: &mut Rng, max_len: u64, hostile_app: bool) -> FlowPlan {
    let len = gen_len(r, max_len);
    let (chunk_lo, chunk_hi) = match r.below(7) {
        0 => (1, 1),
        1 => (1, 64),
        2 => (1, 3000),
        3 => (1000, 1500),
        4 => (4096, 4096),
        5 => (8000, 70_000),
        _ => (usize::MAX / 2, usize::MAX / 2), // whole
    };
    // 1-byte chunks on big transfers are just slow, not interesting
    let (chunk_lo, chunk_hi) = if len > 20_000 && chunk_hi < 64 {
        (64, 2000)
    } else {
        (chunk_lo, chunk_hi)
    };
    let end = if hostile_app && r.chance(1, 5) {
        End::Reset {
            at: r.range(0, len),
            code: r.range(0, 1000),
        }
    } else if hostile_app && r.chance(1, 6) {
        End::ResetAfter {
            delay_us: *r.pick(&[0u64, 1_000, 20_000, 100_000, 400_000, 1_500_000, 4_000_000]) + r.range(0, 50_000),
            code: r.range(0, 1000),
        }
    } else {
        End::Finish
    };
    let read = match r.below(if hostile_app { 8 } else { 6 }) {
        0 | 1 | 2 => ReadMode::Plain,
        3 => ReadMode::Slow {
            every: r.range(1, 8) as u32,
            us: r.range(100, 30_000),
        },
        4 | 5 => ReadMode::Vectored(r.range(1, 8) as usize),
        _ => ReadMode::StopSending {
            at: r.range(0, len),
            code: r.range(0, 1000),
        },
    };
    FlowPlan {
        write_api: WriteApi::Send,
        read_api: ReadApi::Receive,
        read_pause_us: 0,
        read_pause_every: 0,
        len,
        chunk_lo,
        chunk_hi,
        gap_every: if r.chance(1, 3) { r.range(1, 10) as u32 } else { 0 },
        gap_us: r.range(10, 20_000),
        flush: r.chance(1, 4),
        end,
        read,
    }
}

/// spread a flow over the library's read/write interfaces (own rng: scenario generation of
/// the profiles that do not ask for it stays as it was)
pub fn diversify_api(r: &mut Rng, f: &mut FlowPlan) {
    f.write_api = match r.below(10) {
        0 | 1 | 2 => WriteApi::Send,
        3 => WriteApi::SendVectored(r.range(1, 6) as usize),
        4 => WriteApi::Sink,
        5 => WriteApi::FutWrite,
        6 => WriteApi::FutWriteVectored(r.range(1, 6) as usize),
        7 => WriteApi::TokioWrite,
        _ => WriteApi::TokioWriteVectored(r.range(2, 6) as usize),
    };
    if matches!(f.read, ReadMode::Plain | ReadMode::Slow { .. }) {
        f.read_api = match r.below(10) {
            0 | 1 | 2 => ReadApi::Receive,
            3 | 4 => ReadApi::ReceiveVectored(r.range(1, 8) as usize),
            5 => ReadApi::StreamNext,
            6 => ReadApi::FutRead(*r.pick(&[1usize, 7, 100, 1500, 5000, 70_000])),
            7 => ReadApi::FutReadVectored(r.range(1, 5) as usize, *r.pick(&[1usize, 64, 1200, 9000])),
            _ => ReadApi::TokioRead(*r.pick(&[1usize, 7, 100, 1500, 5000, 70_000])),
        };
    }
    if r.chance(1, 3) {
        // a reader slower than the network: the receive buffer holds many chunks (and the
        // end of the stream) by the time it is asked
        f.read_pause_every = r.range(1, 4) as u32;
        f.read_pause_us = if f.len > 200_000 { r.range(100, 3_000) } else { r.range(1_000, 60_000) };
    }
    limit_reader_time(f);
}

/// The reader's own think time must stay far below every timeout of the scenario: it is
/// application time, not transport time. Keeps the sum of all pauses of a flow under ~1.5 s.
pub fn limit_reader_time(f: &mut FlowPlan) {
    let per_read = match f.read_api {
        ReadApi::FutRead(sz) | ReadApi::TokioRead(sz) => sz.min(1200),
        ReadApi::FutReadVectored(k, sz) => (k * sz).min(1200),
        _ => 1200,
    }
    .max(1) as u64;
    if let ReadMode::Slow { every, us } = &mut f.read {
        let pauses = (f.len / per_read + 1) / (*every).max(1) as u64 + 1;
        *us = (*us).min(1_500_000 / pauses).max(1);
    }
    if f.read_pause_every == 0 || f.read_pause_us == 0 {
        return;
    }
    let pauses = (f.len / per_read + 1) / f.read_pause_every as u64 + 1;
    f.read_pause_us = f.read_pause_us.min(1_500_000 / pauses).max(1);
}

pub fn gen_stream(r: &mut Rng, by_server: bool, max_len: u64, hostile_app: bool) -> StreamPlan {
    let bidi = r.chance(2, 3);
    StreamPlan {
        by_server,
        bidi,
        open_delay_us: if r.chance(1, 2) { 0 } else { r.range(0, 50_000) },
        fwd: gen_flow(r, max_len, hostile_app),
        rev: if bidi {
            Some(gen_flow(r, max_len, hostile_app))
        } else {
            None
        },
    }
}

pub fn gen_faulty_net(r: &mut Rng, intensity: u32) -> NetPlan {
    // intensity 0: clean, 1: mild loss/reorder, 2: hostile (corrupt/truncate/dup/bursts)
    let delay_us = match r.below(5) {
        0 => r.range(200, 2000),
        1 => r.range(2000, 20_000),
        2 | 3 => r.range(20_000, 60_000),
        _ => r.range(60_000, 200_000),
    };
    let mut n = NetPlan::clean(delay_us);
    if intensity == 0 {
        return n;
    }
    if r.chance(2, 3) {
        n.jitter_us = r.range(0, delay_us * 2);
    }
    n.far_us = delay_us * r.range(3, 40);
    let nph = r.range(1, 4);
    let mut t = 0u64;
    for _ in 0..nph {
        t += r.range(50_000, 3_000_000);
        let mut p = Phase::clean(t);
        let l = match r.below(5) {
            0 => 0.0,
            1 => 0.01,
            2 => 0.05,
            3 => 0.15,
            _ => 0.3,
        };
        p.loss = match r.below(3) {
            0 => [l, l],
            1 => [l, 0.0],
            _ => [0.0, l],
        };
        if r.chance(1, 3) {
            p.far = r.f64() * 0.1;
        }
        if intensity >= 2 {
            if r.chance(1, 2) {
                p.dup = r.f64() * 0.2;
            }
            if r.chance(1, 3) {
                p.corrupt = r.f64() * 0.1;
            }
            if r.chance(1, 4) {
                p.truncate = r.f64() * 0.1;
            }
            if r.chance(1, 6) {
                // short blackhole burst
                p.blackhole = [r.chance(1, 2), r.chance(1, 2)];
                p.until_us = t - r.range(0, 40_000).min(t / 2);
            }
        }
        n.phases.push(p);
    }
    if r.chance(1, 4) {
        for d in 0..2 {
            for _ in 0..r.range(0, 4) {
                n.drop_idx[d].insert(r.range(0, 30));
            }
        }
    }
    n
}

pub fn gen_cfg(r: &mut Rng, tiny: bool) -> EpCfg {
    let mut c = EpCfg::default_with(r.next());
    c.data_window = gen_window(r, tiny);
    c.bidi_local_window = gen_window(r, tiny);
    c.bidi_remote_window = gen_window(r, tiny);
    c.uni_window = gen_window(r, tiny);
    if tiny || r.chance(1, 3) {
        c.max_open_remote_bidi = r.range(1, 6);
        c.max_open_remote_uni = r.range(1, 6);
    }
    if r.chance(1, 4) {
        c.max_open_local_bidi = r.range(1, 8);
        c.max_open_local_uni = r.range(1, 8);
    }
    c.max_ack_delay_ms = *r.pick(&[0, 1, 5, 25, 25, 25, 60, 200]);
    c.ack_elicitation_interval = *r.pick(&[1, 1, 1, 2, 4, 10]);
    c.max_ack_ranges = *r.pick(&[1, 3, 10, 10, 50]);
    c.max_send_buffer = *r.pick(&[1200, 4096, 65_536, 512 * 1024, 512 * 1024]);
    c.max_mtu = *r.pick(&[1228, 1400, 1500, 1500, 4000, 9000]);
    c.initial_mtu = (*r.pick(&[1228, 1228, 1350, 1500])).min(c.max_mtu);
    c.bbr = r.chance(1, 3);
    c.max_active_cids = r.range(2, 8);
    c.stream_batch = *r.pick(&[1, 1, 2, 5]);
    c
}
