//! vq-sim — deterministic end-to-end simulation of real s2n-quic endpoints with taps and
//! online property monitors (engine E1 of /verif/DESIGN.md).
//!
//!   vq-sim run --profile C01 --seed 7 --start 0 --count 40
//!   vq-sim replay --profile C01 --scenario-seed 123 [--verbose]
//!
//! Prints one `SUMMARY {json}` line. Exit code 0 always (the python driver decides).

mod app;
mod cc;
mod mon;
mod net;
mod params;
mod profiles;
mod taps;
mod tlswrap;
mod world;

use std::{
    panic::{catch_unwind, AssertUnwindSafe},
    sync::{Arc, Mutex},
};
use vq_util::{arg_str, arg_u64, json, mix, Summary, Violation};

struct RunResult {
    summary: Summary,
    signature: u64,
    nontrivial: bool,
    virtual_us: u64,
}

static PANIC_MSG: Mutex<Option<String>> = Mutex::new(None);

static KEY_UPDATE_INTERVAL: std::sync::atomic::AtomicU64 = std::sync::atomic::AtomicU64::new(0);

/// packets after which hook H1 makes a 1-RTT key due for an update (0 = hook not armed)
pub fn key_update_interval() -> u64 {
    KEY_UPDATE_INTERVAL.load(std::sync::atomic::Ordering::Relaxed)
}

/// Hook H1 reads the window once per process: arm it before the first connection exists.
/// AES-GCM suites have a confidentiality limit of 2^23 packets; an update becomes due once
/// `limit - window` packets were protected.
fn arm_key_update_hook(seed: u64) {
    // large enough that updates are several PTOs apart (RFC 9001 6.5) at the rates the
    // profile allows; see profiles.rs "C15"
    // Updates stay several PTOs apart (the regime RFC 9001 6.5 asks for). When an update is
    // due again within a round trip, the initiator (which waits one PTO of its own) can be
    // ahead of a peer whose derivation timer has not fired yet, and genuine packets of the
    // new generation are dropped there: the RFC's "SHOULD wait 3 PTO" exists for that reason,
    // so it is not held against the implementation (tiny limits are the component engine's job).
    let interval = 500 + (seed % 8) * 150;
    KEY_UPDATE_INTERVAL.store(interval, std::sync::atomic::Ordering::Relaxed);
    std::env::set_var(
        "S2N_QUIC_VERIF_KEY_UPDATE_WINDOW",
        format!("{}", (1u64 << 23) - interval),
    );
}

fn run_one(profile: &str, scenario_seed: u64, index: u64, verbose: bool) -> RunResult {
    let (params, extras) = profiles::make(profile, scenario_seed, index);
    let params = Arc::new(params);
    let w = world::World::new(params.clone(), verbose);
    let net = app::make_net(&w, &params, None);
    let mut extras = extras;
    let mut net = net;
    net.injector = extras.injector.take();
    let w2 = w.clone();
    let p2 = params.clone();
    let res = catch_unwind(AssertUnwindSafe(|| {
        s2n_quic::provider::io::testing::test_seed(net, scenario_seed, move |handle| {
            app::setup(handle, p2, w2, extras);
            Ok(())
        })
    }));
    let mut g = match w.lock() {
        Ok(g) => g,
        Err(poison) => poison.into_inner(),
    };
    let mut virtual_us = g.ctx.now;
    match res {
        Ok(Ok(d)) => {
            virtual_us = d.as_micros() as u64;
            g.finish(virtual_us);
        }
        Ok(Err(e)) => {
            g.ctx.summary.inconclusive.push(format!("setup error: {e}"));
        }
        Err(_) => {
            let msg = PANIC_MSG
                .lock()
                .unwrap()
                .take()
                .unwrap_or_else(|| "panic".to_string());
            let harness = msg.contains("harness:");
            let stalled = msg.contains("the runtime stalled");
            let prop = params.monitors.first().cloned().unwrap_or_default();
            if harness {
                g.ctx.summary.inconclusive.push(format!("harness panic: {msg}"));
            } else if stalled && prop != "C02" {
                // a stall is C02's refuting event; for other properties it only means this
                // execution could not be completed
                g.ctx
                    .summary
                    .inconclusive
                    .push(format!("simulation stalled (see C02): {msg}"));
            } else {
                let sig = format!(
                    "panic:{}",
                    msg.split(['\n']).next().unwrap_or("").chars().take(120).collect::<String>()
                );
                g.ctx.violate(
                    &prop,
                    sig,
                    format!("the library panicked during the run: {msg}"),
                    json!({"panic": msg}),
                );
            }
            g.ctx.done = true;
        }
    }
    // scenario signature: discretised configuration x mechanisms observed
    let feats: Vec<&str> = g.ctx.features.keys().copied().collect();
    let nt = profiles::nontrivial_features(profile);
    let nontrivial = feats.iter().any(|f| nt.contains(f));
    let mut sig = vq_util::hash_str(profile);
    for f in &feats {
        sig = mix(sig, vq_util::hash_str(f));
    }
    let p = &params;
    let bucket = |v: u64| 64 - v.leading_zeros() as u64;
    for v in [
        p.clients.len() as u64,
        p.clients[0].streams.len() as u64,
        bucket(p.server.data_window),
        bucket(p.clients[0].cfg.data_window),
        bucket(p.net.delay_us),
        p.net.phases.len() as u64,
        p.server.bbr as u64,
        p.clients[0].cfg.bbr as u64,
        p.retry as u64,
        bucket(p.clients[0].streams.iter().map(|s| s.fwd.len).max().unwrap_or(0)),
    ] {
        sig = mix(sig, v);
    }
    let mut summary = std::mem::take(&mut g.ctx.summary);
    for (k, v) in &g.ctx.features {
        summary.count(&format!("feature.{k}"), *v);
        summary.count(&format!("runs_with.{k}"), 1);
    }
    summary.evaluations = 1;
    if nontrivial {
        summary.signatures.insert(sig);
    } else {
        summary.trivial = 1;
    }
    summary.sample(json!({"scenario_seed": scenario_seed, "virtual_ms": virtual_us / 1000, "features": feats, "params": params.describe()}));
    summary.count("virtual_ms", virtual_us / 1000);
    RunResult {
        summary,
        signature: sig,
        nontrivial,
        virtual_us,
    }
}

fn main() {
    let args = vq_util::parse_args();
    let cmd = arg_str(&args, "_0", "run").to_string();
    let profile = arg_str(&args, "profile", "smoke").to_string();
    let verbose = args.contains_key("verbose");
    std::panic::set_hook(Box::new(move |info| {
        let msg = format!("{info}");
        // a panic that cannot unwind aborts the process: the driver needs to see where it
        // came from (library panics only; scenario stalls and harness panics are handled here)
        if verbose || ((msg.contains("/quic/s2n-quic") || msg.contains("/dc/s2n-quic-dc") || msg.contains("/common/s2n-codec")) && !msg.contains("the runtime stalled")) {
            eprintln!("PANIC: {msg}");
            if std::env::var("VQ_BACKTRACE").is_ok() {
                eprintln!("{}", std::backtrace::Backtrace::force_capture());
            }
        }
        *PANIC_MSG.lock().unwrap() = Some(msg);
    }));
    if profile == "C15" {
        arm_key_update_hook(arg_u64(&args, "hook-seed", arg_u64(&args, "seed", 1)));
    }
    match cmd.as_str() {
        "run" => {
            let seed = arg_u64(&args, "seed", 1);
            let start = arg_u64(&args, "start", 0);
            let count = arg_u64(&args, "count", 10);
            let budget_ms = arg_u64(&args, "budget-ms", u64::MAX);
            let t0 = std::time::Instant::now();
            let mut total = Summary::default();
            for i in start..start + count {
                if t0.elapsed().as_millis() as u64 > budget_ms {
                    total.count("stopped_by_budget", 1);
                    break;
                }
                let sseed = mix(mix(seed, vq_util::hash_str(&profile)), i);
                let t1 = std::time::Instant::now();
                let r = run_one(&profile, sseed, i, false);
                let ms = t1.elapsed().as_millis() as i64;
                let mut s = r.summary;
                s.max("max_wall_ms_per_scenario", ms);
                if verbose {
                    eprintln!(
                        "scenario {i} seed {sseed} sig {:016x} nontrivial={} virtual={}ms wall={}ms violations={}",
                        r.signature,
                        r.nontrivial,
                        r.virtual_us / 1000,
                        ms,
                        s.violations.len()
                    );
                }
                // tag violations with the scenario seed for replay
                let vs: Vec<Violation> = s
                    .violations
                    .drain(..)
                    .map(|mut v| {
                        v.replay["scenario_seed"] = json!(sseed);
                        v.replay["index"] = json!(i);
                        v.replay["hook_seed"] = json!(seed);
                        v
                    })
                    .collect();
                s.violations = vs;
                total.merge(s);
            }
            total.print();
        }
        "replay" => {
            let sseed = arg_u64(&args, "scenario-seed", 0);
            let index = arg_u64(&args, "index", 0);
            let r = run_one(&profile, sseed, index, verbose);
            let mut s = r.summary;
            for v in s.violations.iter_mut() {
                v.replay["scenario_seed"] = json!(sseed);
            }
            s.print();
        }
        other => {
            eprintln!("unknown command {other}");
            std::process::exit(3);
        }
    }
}
