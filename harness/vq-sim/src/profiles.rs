//! Workload profiles: (profile name, scenario seed) -> Params (+ extras such as attackers).

use crate::{app::Extras, params::*};
use std::collections::BTreeMap;
use vq_util::Rng;

fn base(profile: &str, seed: u64, monitors: &[&str]) -> Params {
    Params {
        profile: profile.to_string(),
        seed,
        server: EpCfg::default_with(seed ^ 0x5e),
        clients: vec![],
        net: NetPlan::clean(25_000),
        retry: false,
        t_max_us: 600_000_000,
        linger_us: 200_000,
        knobs: BTreeMap::new(),
        monitors: monitors.iter().map(|s| s.to_string()).collect(),
    }
}

/// effective receive window for a flow, used to keep transfer sizes finishable
fn flow_window(recv: &EpCfg, send: &EpCfg, bidi: bool, receiver_initiated: bool) -> u64 {
    let sw = if !bidi {
        recv.uni_window
    } else if receiver_initiated {
        recv.bidi_local_window
    } else {
        recv.bidi_remote_window
    };
    sw.min(recv.data_window).min(send.max_send_buffer as u64 * 4).max(1)
}

fn cap_flow(f: &mut FlowPlan, window: u64, rtts: u64) {
    let cap = window.saturating_mul(rtts);
    if f.len > cap {
        f.len = cap;
    }
    if let End::Reset { at, .. } = &mut f.end {
        *at = (*at).min(f.len);
    }
    if let ReadMode::StopSending { at, .. } = &mut f.read {
        *at = (*at).min(f.len);
    }
    if let ReadMode::Slow { us, .. } = &mut f.read {
        if f.len > 100_000 {
            *us = (*us).min(2_000);
        }
    }
    if f.len > 20_000 && f.chunk_hi < 64 {
        f.chunk_lo = 64;
        f.chunk_hi = 2000;
    }
}

fn cap_stream(s: &mut StreamPlan, server: &EpCfg, client: &EpCfg, rtts: u64) {
    // fwd: initiator -> acceptor
    let (init, acc) = if s.by_server {
        (server, client)
    } else {
        (client, server)
    };
    let w = flow_window(acc, init, s.bidi, false);
    cap_flow(&mut s.fwd, w, rtts);
    if let Some(r) = s.rev.as_mut() {
        let w = flow_window(init, acc, true, true);
        cap_flow(r, w, rtts);
    }
}

pub struct GenOpts {
    pub max_clients: u64,
    pub max_streams: u64,
    pub max_len: u64,
    pub tiny_windows: u64,   // out of 4
    pub hostile_app: bool,
    pub net_intensity: (u32, u32),
    pub server_streams: bool,
    pub rtts: u64,
}

pub fn gen_general(profile: &str, seed: u64, monitors: &[&str], o: GenOpts) -> Params {
    let mut r = Rng::new(seed);
    let mut p = base(profile, seed, monitors);
    let tiny = r.below(4) < o.tiny_windows;
    p.server = gen_cfg(&mut r, tiny);
    let intensity = r.range(o.net_intensity.0 as u64, o.net_intensity.1 as u64) as u32;
    p.net = gen_faulty_net(&mut r, intensity);
    let nclients = r.range(1, o.max_clients);
    for _ in 0..nclients {
        let cfg = gen_cfg(&mut r, tiny);
        let ns = r.range(1, o.max_streams);
        let mut streams = Vec::new();
        for _ in 0..ns {
            let mut s = gen_stream(&mut r, false, o.max_len, o.hostile_app);
            cap_stream(&mut s, &p.server, &cfg, o.rtts);
            streams.push(s);
        }
        let mut server_streams = Vec::new();
        if o.server_streams && r.chance(1, 2) {
            for _ in 0..r.range(1, (o.max_streams / 2).max(1)) {
                let mut s = gen_stream(&mut r, true, o.max_len, o.hostile_app);
                cap_stream(&mut s, &p.server, &cfg, o.rtts);
                server_streams.push(s);
            }
        }
        p.clients.push(ClientPlan {
            cfg,
            start_delay_us: if r.chance(1, 2) { 0 } else { r.range(0, 100_000) },
            streams,
            server_streams,
            close_code: if r.chance(3, 4) { Some(r.range(0, 50)) } else { None },
            abort_at_us: if o.hostile_app && r.chance(1, 6) {
                Some(r.range(50_000, 3_000_000))
            } else {
                None
            },
        });
    }
    // the network MTU sometimes sits below the endpoints' maximum (forces MTU-probe loss)
    if r.chance(1, 3) {
        p.net.mtu = *r.pick(&[1300, 1452, 1500, 3000]);
    }
    p.retry = r.chance(1, 6);
    p
}

pub fn make(profile: &str, seed: u64) -> (Params, Extras) {
    let ex = Extras::default();
    let p = match profile {
        "smoke" => {
            let mut p = base("smoke", seed, &["C01", "C03", "C08", "C09", "C12"]);
            let mut r = Rng::new(seed);
            let cfg = EpCfg::default_with(r.next());
            let mut f = gen_flow(&mut r, 100_000, false);
            f.len = 50_000;
            f.end = End::Finish;
            f.read = ReadMode::Plain;
            let mut g = f.clone();
            g.len = 20_000;
            p.clients.push(ClientPlan {
                cfg,
                start_delay_us: 0,
                streams: vec![StreamPlan {
                    by_server: false,
                    bidi: true,
                    open_delay_us: 0,
                    fwd: f,
                    rev: Some(g),
                }],
                server_streams: vec![],
                close_code: Some(0),
                abort_at_us: None,
            });
            p.net = gen_faulty_net(&mut r, 1);
            p
        }
        "C01" => gen_general(
            "C01",
            seed,
            &["C01"],
            GenOpts {
                max_clients: 3,
                max_streams: 8,
                max_len: 1_000_000,
                tiny_windows: 1,
                hostile_app: true,
                net_intensity: (0, 2),
                server_streams: true,
                rtts: 300,
            },
        ),
        "C03" => gen_general(
            "C03",
            seed,
            &["C03"],
            GenOpts {
                max_clients: 2,
                max_streams: 12,
                max_len: 200_000,
                tiny_windows: 3,
                hostile_app: true,
                net_intensity: (0, 2),
                server_streams: true,
                rtts: 200,
            },
        ),
        "C08" => {
            let mut p = gen_general(
                "C08",
                seed,
                &["C08"],
                GenOpts {
                    max_clients: 2,
                    max_streams: 4,
                    max_len: 300_000,
                    tiny_windows: 1,
                    hostile_app: false,
                    net_intensity: (1, 2),
                    server_streams: true,
                    rtts: 200,
                },
            );
            // corruption is excluded so that every delivered genuine datagram is intact for (d)
            for ph in p.net.phases.iter_mut() {
                ph.corrupt = 0.0;
                ph.truncate = 0.0;
            }
            p.knobs.insert("c08_promptness".into(), 1);
            p
        }
        "C09" => {
            let mut p = gen_general(
                "C09",
                seed,
                &["C09"],
                GenOpts {
                    max_clients: 2,
                    max_streams: 4,
                    max_len: 400_000,
                    tiny_windows: 0,
                    hostile_app: false,
                    net_intensity: (1, 2),
                    server_streams: true,
                    rtts: 300,
                },
            );
            // at least half of the runs with a path RTT >= 40 ms so that a 9/8 -> 1 change
            // moves the threshold by more than the 1 ms timer granularity
            if seed & 1 == 0 && p.net.delay_us < 20_000 {
                p.net.delay_us += 20_000;
            }
            p
        }
        "C12" => gen_general(
            "C12",
            seed,
            &["C12"],
            GenOpts {
                max_clients: 2,
                max_streams: 6,
                max_len: 300_000,
                tiny_windows: 1,
                hostile_app: true,
                net_intensity: (0, 2),
                server_streams: true,
                rtts: 200,
            },
        ),
        other => panic!("unknown profile {other}"),
    };
    (p, ex)
}

/// which observed features make an execution non-trivial for a profile
pub fn nontrivial_features(profile: &str) -> &'static [&'static str] {
    match profile {
        "C01" => &["loss", "reordered_rx", "net_dup", "net_corrupt", "blocked_stream_credit", "blocked_conn_credit", "retransmission", "app_reset"],
        "C03" => &["tight_stream_limit", "tight_conn_limit", "tight_stream_count", "blocked_stream_credit", "blocked_conn_credit", "blocked_stream_count"],
        "C08" => &["loss", "reordered_rx", "gap_rx", "duplicate_rx", "ack_range_evicted"],
        "C09" => &["loss", "pto_probe", "discard_with_outstanding"],
        "C12" => &["retransmission", "resegmented", "reset_sent", "close_sent"],
        _ => &["loss", "reordered_rx"],
    }
}
