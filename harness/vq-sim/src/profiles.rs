//! Workload profiles: (profile name, scenario seed) -> Params (+ extras such as attackers).

use crate::{app::Extras, params::*};
use std::collections::BTreeMap;
use vq_util::Rng;

fn base(profile: &str, seed: u64, monitors: &[&str]) -> Params {
    Params {
        profile: profile.to_string(),
        seed,
        server: EpCfg::default_with(seed ^ 0x5e),
        clients: vec![],
        net: NetPlan::clean(25_000),
        retry: false,
        t_max_us: 600_000_000,
        linger_us: 200_000,
        knobs: BTreeMap::new(),
        monitors: monitors.iter().map(|s| s.to_string()).collect(),
        targeted: vec![],
        relabel: None,
    }
}

/// effective receive window for a flow, used to keep transfer sizes finishable
fn flow_window(recv: &EpCfg, send: &EpCfg, bidi: bool, receiver_initiated: bool) -> u64 {
    let sw = if !bidi {
        recv.uni_window
    } else if receiver_initiated {
        recv.bidi_local_window
    } else {
        recv.bidi_remote_window
    };
    sw.min(recv.data_window).min(send.max_send_buffer as u64 * 4).max(1)
}

fn cap_flow(f: &mut FlowPlan, window: u64, rtts: u64) {
    let cap = window.saturating_mul(rtts);
    if f.len > cap {
        f.len = cap;
    }
    if let End::Reset { at, .. } = &mut f.end {
        *at = (*at).min(f.len);
    }
    if let ReadMode::StopSending { at, .. } = &mut f.read {
        *at = (*at).min(f.len);
    }
    if let ReadMode::Slow { us, .. } = &mut f.read {
        if f.len > 100_000 {
            *us = (*us).min(2_000);
        }
    }
    if f.len > 20_000 && f.chunk_hi < 64 {
        f.chunk_lo = 64;
        f.chunk_hi = 2000;
    }
    // flush() waits a round trip and gaps are application think time: with tiny chunks they
    // would make the *application* (not the transport) take thousands of round trips
    if f.flush || f.gap_every > 0 {
        let min_chunk = (f.len / 300) as usize + 1;
        if f.chunk_lo < min_chunk {
            f.chunk_lo = min_chunk;
            f.chunk_hi = f.chunk_hi.max(min_chunk * 2);
        }
    }
}

fn cap_stream(s: &mut StreamPlan, server: &EpCfg, client: &EpCfg, rtts: u64) {
    // fwd: initiator -> acceptor
    let (init, acc) = if s.by_server {
        (server, client)
    } else {
        (client, server)
    };
    let w = flow_window(acc, init, s.bidi, false);
    cap_flow(&mut s.fwd, w, rtts);
    if let Some(r) = s.rev.as_mut() {
        let w = flow_window(init, acc, true, true);
        cap_flow(r, w, rtts);
    }
}

pub struct GenOpts {
    pub max_clients: u64,
    pub max_streams: u64,
    pub max_len: u64,
    pub tiny_windows: u64,   // out of 4
    pub hostile_app: bool,
    pub net_intensity: (u32, u32),
    pub server_streams: bool,
    pub rtts: u64,
}

pub fn gen_general(profile: &str, seed: u64, monitors: &[&str], o: GenOpts) -> Params {
    let mut r = Rng::new(seed);
    let mut p = base(profile, seed, monitors);
    let tiny = r.below(4) < o.tiny_windows;
    p.server = gen_cfg(&mut r, tiny);
    let intensity = r.range(o.net_intensity.0 as u64, o.net_intensity.1 as u64) as u32;
    p.net = gen_faulty_net(&mut r, intensity);
    let nclients = r.range(1, o.max_clients);
    for _ in 0..nclients {
        let cfg = gen_cfg(&mut r, tiny);
        let ns = r.range(1, o.max_streams);
        let mut streams = Vec::new();
        for _ in 0..ns {
            let mut s = gen_stream(&mut r, false, o.max_len, o.hostile_app);
            cap_stream(&mut s, &p.server, &cfg, o.rtts);
            streams.push(s);
        }
        let mut server_streams = Vec::new();
        if o.server_streams && r.chance(1, 2) {
            for _ in 0..r.range(1, (o.max_streams / 2).max(1)) {
                let mut s = gen_stream(&mut r, true, o.max_len, o.hostile_app);
                cap_stream(&mut s, &p.server, &cfg, o.rtts);
                server_streams.push(s);
            }
        }
        p.clients.push(ClientPlan {
            cfg,
            start_delay_us: if r.chance(1, 2) { 0 } else { r.range(0, 100_000) },
            streams,
            server_streams,
            close_code: if r.chance(3, 4) { Some(r.range(0, 50)) } else { None },
            abort_at_us: if o.hostile_app && r.chance(1, 6) {
                Some(r.range(50_000, 3_000_000))
            } else {
                None
            },
            server_close_at_us: None,
        });
    }
    // the network MTU sometimes sits below the endpoints' maximum (forces MTU-probe loss)
    if r.chance(1, 3) {
        p.net.mtu = *r.pick(&[1300, 1452, 1500, 3000]);
    }
    p.retry = r.chance(1, 6);
    p
}

fn must_deliver(seed: u64, handshake_focus: bool, rejecting: bool) -> Params {
    let mut r = Rng::new(seed ^ 0xc02);
    let mut p = gen_general(
        "C02",
        seed,
        &["C02"],
        GenOpts {
            max_clients: 2,
            max_streams: if handshake_focus { 2 } else { 10 },
            max_len: 200_000,
            tiny_windows: 2,
            hostile_app: false,
            net_intensity: (1, 2),
            server_streams: true,
            rtts: 60,
        },
    );
    // finite fault period: squeeze the phases into at most 5 s
    let total = p.net.phases.last().map(|ph| ph.until_us).unwrap_or(0);
    let limit = r.range(300_000, 5_000_000);
    if total > limit {
        for ph in p.net.phases.iter_mut() {
            ph.until_us = (ph.until_us as u128 * limit as u128 / total as u128) as u64 + 1;
        }
    }
    let heal = p.net.phases.last().map(|ph| ph.until_us).unwrap_or(0);
    // whole fault period counted as possible silence: timeouts >= 4x + 2 s
    let need_ms = (4 * heal / 1000 + 2_000).max(30_000) + 8 * p.net.delay_us / 1000;
    p.server.idle_timeout_ms = need_ms;
    p.server.handshake_ms = need_ms;
    // Retry tokens of the default provider live 1-2 s and an Initial with an expired Retry
    // token is dropped silently (RFC 9000 8.1.2 permits that): with Retry a fault period of
    // a few seconds can legitimately end in a handshake timeout, so no must-deliver claim
    p.retry = false;
    for c in p.clients.iter_mut() {
        c.cfg.idle_timeout_ms = need_ms;
        c.cfg.handshake_ms = need_ms;
        c.close_code = Some(0);
        c.abort_at_us = None;
    }
    if handshake_focus {
        // lose handshake datagrams of both directions, so that anti-amplification blocking,
        // handshake PTOs and HANDSHAKE_DONE retransmission are exercised
        for d in 0..2 {
            p.net.drop_idx[d].clear();
            for _ in 0..r.range(1, 5) {
                p.net.drop_idx[d].insert(r.range(0, 8));
            }
        }
    }
    // lose the frames that unblock, a few times in a row
    use crate::world::{tag, Targeted};
    for _ in 0..r.range(0, 3) {
        let tags = *r.pick(&[
            tag::MAX_DATA,
            tag::MAX_STREAM_DATA,
            tag::MAX_STREAMS,
            tag::BLOCKED,
            tag::HANDSHAKE_DONE,
            tag::MAX_DATA | tag::MAX_STREAM_DATA | tag::MAX_STREAMS,
        ]);
        p.targeted.push(Targeted {
            from: None,
            tags,
            skip: r.range(0, 4) as u32,
            drop: r.range(1, 3) as u32,
        });
    }
    p.knobs.insert("c02_mode".into(), 1);
    p.t_max_us = 900_000_000;
    if rejecting {
        // Applications that turn streams down: the receiving side never reads them and, after
        // a while, calls stop_sending or drops the handle - with the stream half way through,
        // blocked on credit, or completely buffered including its end. Together the rejected
        // streams carry several times the receiver's connection window, so every credit they
        // held has to come back for the ordinary flows of the scenario to get through.
        let srv_dw = r.range(8_000, 120_000);
        p.server.data_window = srv_dw;
        let rtt = 2 * (p.net.delay_us + p.net.jitter_us) + 1_000;
        // part of what a rejected stream carried is lost on the way and never arrives: it
        // still counts against the connection window and has to be settled by the final size
        if r.chance(2, 3) {
            let l = *r.pick(&[0.03, 0.08, 0.15]);
            for ph in p.net.phases.iter_mut() {
                ph.loss = [ph.loss[0].max(l), ph.loss[1].max(l)];
            }
        }
        for c in p.clients.iter_mut() {
            let n = r.range(4, 12);
            for _ in 0..n {
                let by_server = r.chance(1, 4);
                let mut s = gen_stream(&mut r, by_server, 1_000, false);
                s.bidi = r.chance(1, 3);
                s.rev = None;
                let dw = if by_server { c.cfg.data_window } else { srv_dw };
                let len = match r.below(3) {
                    0 => dw / 3 + 1,
                    1 => r.range(1, dw.max(2)),
                    _ => dw.saturating_mul(2),
                };
                s.fwd.len = len.clamp(1, 300_000);
                s.fwd.end = End::Finish;
                s.fwd.read = ReadMode::RejectAfter {
                    delay_us: rtt * r.range(1, 12),
                    code: r.range(0, 1000),
                    drop: r.chance(1, 2),
                };
                s.open_delay_us = if r.chance(1, 2) { r.range(0, 8) * rtt / 4 } else { r.range(0, 40) * rtt / 4 };
                if by_server {
                    c.server_streams.push(s);
                } else {
                    c.streams.push(s);
                }
            }
        }
        p.knobs.insert("c02_rejecting".into(), 1);
    }
    p
}

fn never_recovers(seed: u64, index: u64) -> Params {
    let mut r = Rng::new(seed ^ 0xc02b);
    let mut p = gen_general(
        "C02bh",
        seed,
        &["C02"],
        GenOpts {
            max_clients: 1,
            max_streams: 3,
            max_len: 100_000,
            tiny_windows: 1,
            hostile_app: false,
            net_intensity: (0, 0),
            server_streams: true,
            rtts: 40,
        },
    );
    p.net = NetPlan::clean(r.range(1_000, 80_000));
    let idle = *r.pick(&[3_000u64, 5_000, 10_000, 20_000]);
    p.server.idle_timeout_ms = idle;
    p.server.handshake_ms = *r.pick(&[3_000u64, 6_000, 10_000]);
    p.retry = r.chance(1, 8);
    for c in p.clients.iter_mut() {
        c.cfg.idle_timeout_ms = *r.pick(&[3_000u64, 5_000, 10_000, 20_000]);
        c.cfg.handshake_ms = *r.pick(&[3_000u64, 6_000, 10_000]);
        c.close_code = Some(0);
        c.abort_at_us = None;
        // keep the transfer alive long enough for late blackholes to hit it
        for s in c.streams.iter_mut() {
            s.fwd.gap_every = 2;
            s.fwd.gap_us = 20_000;
        }
    }
    // enumerated blackhole point: after datagram #k of a direction (or of both)
    const K: u64 = 40;
    let k = index % K;
    let d = (index / K) % 4;
    match d {
        0 => p.net.blackhole_after[0] = Some(k),
        1 => p.net.blackhole_after[1] = Some(k),
        2 => {
            p.net.blackhole_after[0] = Some(k);
            p.net.blackhole_after[1] = Some(k);
        }
        _ => {
            // time-based: everything vanishes from a random instant on
            let t0 = r.range(0, 3_000_000);
            let mut ph = Phase::clean(t0);
            p.net.phases.push(ph.clone());
            ph.until_us = u64::MAX;
            ph.blackhole = [r.chance(2, 3), r.chance(2, 3)];
            if ph.blackhole == [false, false] {
                ph.blackhole = [true, true];
            }
            p.net.phases.push(ph);
        }
    }
    // a third of the runs: the path does not go silent, it keeps delivering rubbish (garbled
    // copies, or replays of the last good datagram) - nothing an endpoint may count as life
    p.net.blackhole_kind = (index % 3) as u8;
    // keep simulating until every endpoint had the time to give up
    let worst = p.server.idle_timeout_ms.max(p.clients[0].cfg.idle_timeout_ms)
        + p.server.handshake_ms.max(p.clients[0].cfg.handshake_ms);
    p.linger_us = (2 * worst + 10_000) * 1000;
    p.knobs.insert("c02_mode".into(), 2);
    p.knobs.insert("bh_k".into(), k as i64);
    p.knobs.insert("bh_dir".into(), d as i64);
    p.t_max_us = 300_000_000;
    p
}

/// handshake-centred scenarios for the amplification rules
fn amplification(seed: u64, index: u64, ex: &mut Extras) -> Params {
    let mut r = Rng::new(seed ^ 0xc11);
    let mut p = gen_general(
        "C11",
        seed,
        &["C11"],
        GenOpts {
            max_clients: 3,
            max_streams: 2,
            max_len: 20_000,
            tiny_windows: 1,
            hostile_app: false,
            net_intensity: (0, 1),
            server_streams: false,
            rtts: 40,
        },
    );
    p.net.phases.clear();
    p.net.drop_idx = [Default::default(), Default::default()];
    p.retry = r.chance(1, 5);
    const POS: u64 = 12;
    match index % 3 {
        0 => {
            // enumerated single and double drops of handshake datagram positions
            let e = index / 3;
            let dir = (e % 2) as usize;
            let e = e / 2;
            let a = e % POS;
            let b = (e / POS) % (POS + 1);
            p.net.drop_idx[dir].insert(a);
            if b < POS {
                // b == POS means "single drop"
                p.net.drop_idx[if (e / (POS * (POS + 1))) % 2 == 0 { dir } else { 1 - dir }].insert(b);
            }
            p.knobs.insert("c11_enum".into(), 1);
        }
        1 => {
            // random loss / duplication / delay concentrated on the first second, so that
            // server PTOs fire while it is limited
            let mut ph = Phase::clean(r.range(200_000, 2_000_000));
            ph.loss = [r.f64() * 0.6, r.f64() * 0.3];
            ph.dup = if r.chance(1, 2) { r.f64() * 0.5 } else { 0.0 };
            ph.far = if r.chance(1, 2) { r.f64() * 0.3 } else { 0.0 };
            p.net.far_us = p.net.delay_us * r.range(3, 30);
            p.net.phases.push(ph);
            if r.chance(1, 4) {
                // client address changes in the middle of the handshake
                p.net.rebinds.push((r.range(0, 4 * p.net.delay_us), 0));
            }
            match r.below(4) {
                0 => {
                    // the address changes after the handshake, and the server application
                    // closes the connection while the new address is still being validated
                    let t = r.range(300_000, 1_500_000) + 6 * p.net.delay_us;
                    p.net.rebinds.push((t, 0));
                    p.net.rebinds.sort();
                    // the client talks in small packets with pauses of a few round trips, so the
                    // server spends most of the time with its allowance for the new address used up
                    let gap = p.net.delay_us * r.range(2, 8) + 500;
                    p.clients[0].server_close_at_us = Some(t + r.range(0, 3 * gap));
                    for s in p.clients[0].streams.iter_mut() {
                        s.fwd.len = s.fwd.len.max(40_000);
                        s.fwd.chunk_lo = 1;
                        s.fwd.chunk_hi = 40;
                        s.fwd.gap_every = 1;
                        s.fwd.gap_us = gap;
                    }
                }
                1 => {
                    // no pacing at the server (initial RTT estimate below the pacer's floor),
                    // client first flights of uneven size, server flight left unanswered
                    p.server.initial_rtt_ms = 1;
                    for c in p.clients.iter_mut() {
                        c.cfg.initial_mtu = *r.pick(&[1228u16, 1300, 1372, 1400, 1452]);
                        c.cfg.max_mtu = c.cfg.max_mtu.max(c.cfg.initial_mtu);
                    }
                    p.net.phases.clear();
                    let mut ph = Phase::clean(r.range(1_000_000, 4_000_000));
                    ph.loss = [0.9, 0.0];
                    p.net.phases.push(ph);
                }
                _ => {}
            }
        }
        _ => {
            // datagrams that belong to no connection, fired at the server from raw sockets
            let n = r.range(4, 24);
            for _ in 0..n {
                let at = r.range(0, 600_000);
                let kind = r.below(6);
                let len = match r.below(5) {
                    0 => r.range(1, 40),
                    1 => r.range(20, 60),
                    2 => r.range(60, 1199),
                    3 => r.range(1199, 1201),
                    _ => r.range(1200, 1500),
                } as usize;
                let mut b = vec![0u8; len];
                r.fill(&mut b);
                match kind {
                    0 => {} // garbage
                    1 | 2 => {
                        // short header with an unknown connection id
                        b[0] = 0x40 | (b[0] & 0x3f);
                    }
                    3 => {
                        // long header, unknown version
                        b[0] = 0xc0 | (b[0] & 0x3f);
                        if len >= 7 {
                            b[1..5].copy_from_slice(&[0x1a, 0x2a, 0x3a, 0x4a]);
                            b[5] = 8; // dcid len
                            if len > 14 {
                                b[14] = 8; // scid len
                            }
                        }
                    }
                    4 => {
                        // a Version Negotiation packet
                        b[0] = 0x80 | (b[0] & 0x7f);
                        if len >= 7 {
                            b[1..5].copy_from_slice(&[0, 0, 0, 0]);
                            b[5] = 8;
                            if len > 14 {
                                b[14] = 8;
                            }
                        }
                    }
                    _ => {
                        // v1 Initial-looking header (often below 1200 bytes)
                        b[0] = 0xc0 | (b[0] & 0x0f);
                        if len >= 7 {
                            b[1..5].copy_from_slice(&[0, 0, 0, 1]);
                            b[5] = 8;
                            if len > 14 {
                                b[14] = 8;
                            }
                            if len > 24 {
                                b[23] = 0; // token length 0
                            }
                        }
                    }
                }
                ex.probes.push((at, b));
            }
            ex.probes.sort_by_key(|(t, _)| *t);
            p.knobs.insert("c11_probes".into(), n as i64);
        }
    }
    for c in p.clients.iter_mut() {
        c.close_code = Some(0);
    }
    p.t_max_us = 120_000_000;
    p
}

pub fn make(profile: &str, seed: u64, index: u64) -> (Params, Extras) {
    let mut ex = Extras::default();
    let p = match profile {
        "C10" => {
            let mut p = gen_general(
                "C10",
                seed,
                &["C10"],
                GenOpts {
                    max_clients: 2,
                    max_streams: 4,
                    max_len: 1_000_000,
                    tiny_windows: 0,
                    hostile_app: false,
                    net_intensity: (0, 2),
                    server_streams: true,
                    rtts: 300,
                },
            );
            // big flow-control windows so that the congestion window is the limiting factor
            let mut r = Rng::new(seed ^ 0xc10);
            p.server.data_window = 1_500_000;
            p.server.bidi_local_window = 1_500_000;
            p.server.bidi_remote_window = 1_500_000;
            p.server.uni_window = 1_500_000;
            p.server.max_send_buffer = 512 * 1024;
            for c in p.clients.iter_mut() {
                c.cfg.data_window = 1_500_000;
                c.cfg.bidi_local_window = 1_500_000;
                c.cfg.bidi_remote_window = 1_500_000;
                c.cfg.uni_window = 1_500_000;
                c.cfg.max_send_buffer = 512 * 1024;
                if let Some(s) = c.streams.first_mut() {
                    s.fwd.len = s.fwd.len.max(r.range(100_000, 800_000));
                    s.fwd.chunk_lo = 8000;
                    s.fwd.chunk_hi = 70_000;
                    s.fwd.gap_every = 0;
                    s.fwd.flush = false;
                    s.fwd.end = End::Finish;
                    s.fwd.read = ReadMode::Plain;
                }
            }
            if index % 4 == 0 {
                // an outage of a few seconds in the middle of the transfer: everything the
                // sender emits in between (data, then probe after probe) is lost and is declared
                // lost in one pass once the path is back - persistent congestion
                let mut r = Rng::new(seed ^ 0x9c10);
                let t0 = r.range(300_000, 2_000_000);
                let d = r.range(2_000_000, 9_000_000);
                let mut phases = vec![Phase::clean(t0)];
                let mut out = Phase::clean(t0 + d);
                out.blackhole = [true, true];
                phases.push(out);
                if r.chance(1, 2) {
                    // a short window in which something gets through, then a second, shorter outage
                    phases.push(Phase::clean(t0 + d + r.range(5_000, 200_000)));
                    let mut out2 = Phase::clean(t0 + d + r.range(400_000, 2_000_000));
                    out2.blackhole = [true, true];
                    phases.push(out2);
                }
                p.net.phases = phases;
                p.server.bbr = false;
                for c in p.clients.iter_mut() {
                    c.cfg.bbr = false;
                    c.cfg.idle_timeout_ms = 60_000;
                    if let Some(s) = c.streams.first_mut() {
                        s.fwd.len = s.fwd.len.max(600_000);
                    }
                }
                p.server.idle_timeout_ms = 60_000;
            }
            // ECN: routers on the path mark a share of the ECN-capable datagrams
            {
                let mut r = Rng::new(seed ^ 0xec4);
                if r.chance(2, 3) {
                    if p.net.phases.is_empty() {
                        p.net.phases.push(Phase::clean(r.range(1_000_000, 6_000_000)));
                    }
                    for ph in p.net.phases.iter_mut() {
                        ph.ce = *r.pick(&[0.0, 0.01, 0.05, 0.2, 0.6]);
                    }
                }
            }
            p
        }
        "C13" => {
            let mut r = Rng::new(seed ^ 0xc13);
            let long = index % 2 == 0;
            let mut p = gen_general(
                "C13",
                seed,
                &["C13"],
                GenOpts {
                    max_clients: 3,
                    max_streams: 6,
                    max_len: 60_000,
                    tiny_windows: 0,
                    hostile_app: false,
                    net_intensity: (0, 1),
                    server_streams: true,
                    rtts: 100,
                },
            );
            p.retry = r.chance(1, 6);
            let n = p.clients.len() as u64;
            let tune = |c: &mut EpCfg, r: &mut Rng| {
                c.max_active_cids = r.range(2, 8);
                c.cid_rotate_handshake = r.chance(1, 2);
                c.cid_len = 16;
                if long {
                    // ids expire (the provider's minimum lifetime is 60 s)
                    c.cid_lifetime_ms = r.range(60_000, 100_000);
                    c.keep_alive = true;
                    c.idle_timeout_ms = 30_000;
                }
            };
            tune(&mut p.server, &mut r);
            for c in p.clients.iter_mut() {
                tune(&mut c.cfg, &mut r);
                c.close_code = Some(0);
                c.abort_at_us = None;
                if long {
                    for s in c.streams.iter_mut().chain(c.server_streams.iter_mut()) {
                        s.open_delay_us = r.range(0, 220_000_000);
                    }
                }
            }
            // the client's address changes (NAT rebinding / migration), forcing new ids into use
            for _ in 0..r.range(0, 4) {
                let t = r.range(1_000_000, if long { 200_000_000 } else { 4_000_000 });
                p.net.rebinds.push((t, r.below(n) as usize));
            }
            p.net.rebinds.sort();
            use crate::world::{tag, Targeted};
            for _ in 0..r.range(0, 2) {
                p.targeted.push(Targeted {
                    from: None,
                    tags: *r.pick(&[tag::NEW_CID, tag::RETIRE_CID, tag::NEW_CID | tag::RETIRE_CID]),
                    skip: r.range(0, 3) as u32,
                    drop: r.range(1, 3) as u32,
                });
            }
            p.t_max_us = 500_000_000;
            p
        }
        "C04" => {
            use crate::mon::c04::{self, Attack, ALL_ATTACKS};
            let mut r = Rng::new(seed ^ 0xc04);
            let kinds = ALL_ATTACKS.len() as u64 + 3;
            let k = index % kinds;
            let honest = k >= ALL_ATTACKS.len() as u64;
            let mut p = gen_general(
                "C04",
                seed,
                &["C04", "C01"],
                GenOpts {
                    max_clients: 1,
                    max_streams: 4,
                    max_len: if honest { 300_000 } else { 60_000 },
                    tiny_windows: if honest { 2 } else { 0 },
                    hostile_app: honest,
                    net_intensity: if honest { (0, 2) } else { (0, 0) },
                    server_streams: true,
                    rtts: 100,
                },
            );
            p.retry = false;
            p.net.mtu = 9200;
            p.clients[0].abort_at_us = None;
            if !honest {
                p.knobs.insert("drain_unplanned".into(), 1);
                let attack = ALL_ATTACKS[k as usize];
                let mut attacker_is_client = (index / kinds) % 2 == 0;
                if attack.client_only() {
                    attacker_is_client = true;
                }
                // the victim's limits: comfortable at connection level so that the attack hits
                // exactly the rule it targets
                let bidi_remote = *r.pick(&[100u64, 1000, 4096, 16_385, 65_536]);
                let max_remote_bidi = *r.pick(&[4u64, 8, 20, 100]);
                {
                    let v = if attacker_is_client { &mut p.server } else { &mut p.clients[0].cfg };
                    v.data_window = 1_500_000;
                    v.bidi_remote_window = bidi_remote;
                    v.bidi_local_window = 65_536;
                    v.uni_window = 65_536;
                    v.max_open_remote_bidi = max_remote_bidi;
                    v.max_open_remote_uni = 10;
                }
                {
                    let a = if attacker_is_client { &mut p.clients[0].cfg } else { &mut p.server };
                    a.data_window = 1_500_000;
                    a.bidi_remote_window = 65_536;
                    a.bidi_local_window = 65_536;
                    a.uni_window = 65_536;
                    a.max_open_remote_bidi = 100;
                    a.max_open_remote_uni = 100;
                }
                // keep the honest workload small enough for the victim's limits, and long
                // enough for the attack to land while it runs
                let (mine, theirs) = {
                    let c = &mut p.clients[0];
                    if attacker_is_client {
                        (&mut c.streams, &mut c.server_streams)
                    } else {
                        (&mut c.server_streams, &mut c.streams)
                    }
                };
                mine.truncate(2);
                theirs.truncate(2);
                if mine.is_empty() {
                    let mut s = gen_stream(&mut r, !attacker_is_client, 40_000, false);
                    s.bidi = true;
                    s.rev = Some(gen_flow(&mut r, 20_000, false));
                    mine.push(s);
                }
                for s in mine.iter_mut().chain(theirs.iter_mut()) {
                    s.open_delay_us = 0;
                    s.fwd.len = s.fwd.len.clamp(2_000, 40_000);
                    s.fwd.gap_every = 3;
                    s.fwd.gap_us = 5_000;
                    s.fwd.chunk_lo = 500;
                    s.fwd.chunk_hi = 1500;
                    s.fwd.flush = false;
                    s.fwd.end = End::Finish;
                    s.fwd.read = ReadMode::Plain;
                    if let Some(rv) = s.rev.as_mut() {
                        rv.len = rv.len.min(20_000);
                        rv.end = End::Finish;
                        rv.read = ReadMode::Plain;
                        rv.flush = false;
                    }
                }
                let honest_bidi = mine.iter().filter(|s| s.bidi).count() as u64;
                let honest_uni = mine.iter().filter(|s| !s.bidi).count() as u64;
                let view = c04::VictimView {
                    attacker_is_client,
                    bidi_remote_window: bidi_remote,
                    uni_window: 65_536,
                    data_window: 1_500_000,
                    max_remote_bidi,
                    max_remote_uni: 10,
                    honest_bidi_streams: honest_bidi,
                    honest_uni_streams: honest_uni,
                };
                let after = if attack.space() == crate::world::Space::App { r.range(1, 12) as u32 } else { 0 };
                let rw = c04::rewriter(attack, view, after, seed);
                if attacker_is_client {
                    ex.client_rewriter = Some(rw);
                    ex.client_unobserved = true;
                } else {
                    ex.server_rewriter = Some(rw);
                    ex.server_unobserved = true;
                }
                p.knobs.insert("c04_attack".into(), k as i64);
                p.knobs.insert("c04_attacker".into(), if attacker_is_client { 1 } else { 0 });
                let _ = Attack::StreamAtStreamLimit;
            }
            p.clients[0].close_code = Some(0);
            p.relabel = Some("C04".into());
            p.t_max_us = 200_000_000;
            p
        }
        "C14" => {
            use crate::mon::c14::{self, Case, CASES};
            let mut r = Rng::new(seed ^ 0xc14);
            let case = CASES[(index % CASES.len() as u64) as usize];
            let mut p = gen_general(
                "C14",
                seed,
                &["C14", "C03"],
                GenOpts {
                    max_clients: 1,
                    max_streams: 5,
                    max_len: 60_000,
                    tiny_windows: 0,
                    hostile_app: false,
                    net_intensity: (0, 0),
                    server_streams: true,
                    rtts: 100,
                },
            );
            p.net.mtu = 9200;
            p.retry = false;
            // real configuration comfortably above anything a rewritten block declares
            for c in std::iter::once(&mut p.server).chain(p.clients.iter_mut().map(|c| &mut c.cfg)) {
                c.data_window = 1_500_000;
                c.bidi_local_window = 1_000_000;
                c.bidi_remote_window = 1_000_000;
                c.uni_window = 1_000_000;
                c.max_open_remote_bidi = 100;
                c.max_open_remote_uni = 100;
                c.max_open_local_bidi = 100;
                c.max_open_local_uni = 100;
                c.handshake_ms = 4_000;
            }
            // nobody starts with datagrams larger than its peer's receive buffer: that
            // situation is the known C07 finding (the limit is never advertised) and, with a
            // declared max_ack_delay of 16 s, turns every recovery step into a 16 s wait
            let smallest_rx = std::iter::once(p.server.max_mtu).chain(p.clients.iter().map(|c| c.cfg.max_mtu)).min().unwrap_or(1228);
            for c in std::iter::once(&mut p.server).chain(p.clients.iter_mut().map(|c| &mut c.cfg)) {
                c.initial_mtu = c.initial_mtu.min(smallest_rx);
            }
            let by_client = match case.sender() {
                Some(b) => b,
                None => (index / CASES.len() as u64) % 2 == 0,
            };
            if case == Case::TightLimits {
                // enough streams and bytes for the declared limits to bind
                let c = &mut p.clients[0];
                let (mine, theirs) = if by_client {
                    (&mut c.server_streams, &mut c.streams)
                } else {
                    (&mut c.streams, &mut c.server_streams)
                };
                // `mine` are the streams of the endpoint that RECEIVED the tight block
                while mine.len() < 4 {
                    let mut s = gen_stream(&mut r, by_client, 40_000, false);
                    s.fwd.len = r.range(8_000, 40_000);
                    s.fwd.end = End::Finish;
                    mine.push(s);
                }
                let _ = theirs;
                // the transfer is expected to stall at the declared limits (see mon/c14.rs)
                p.server.idle_timeout_ms = 4_000;
                p.clients[0].cfg.idle_timeout_ms = 4_000;
                p.knobs.insert(
                    if by_client { "tp_max_data_seen_by_server" } else { "tp_max_data_seen_by_client" }.into(),
                    c14::TIGHT_MAX_DATA as i64,
                );
            }
            p.clients[0].close_code = Some(0);
            p.clients[0].abort_at_us = None;
            let rw = c14::rewrite(case, seed);
            if by_client {
                ex.client_tp_rewrite = Some(rw);
            } else {
                ex.server_tp_rewrite = Some(rw);
            }
            p.knobs.insert("c14_case".into(), (index % CASES.len() as u64) as i64);
            p.knobs.insert("c14_rewriter".into(), if by_client { 1 } else { 0 });
            p.relabel = Some("C14".into());
            p.t_max_us = 120_000_000;
            p
        }
        "C15" => {
            let mut r = Rng::new(seed ^ 0xc15);
            let mut p = gen_general(
                "C15",
                seed,
                &["C15", "C08", "C01"],
                GenOpts {
                    max_clients: 2,
                    max_streams: 3,
                    max_len: 600_000,
                    tiny_windows: 0,
                    hostile_app: false,
                    net_intensity: (0, 2),
                    server_streams: true,
                    rtts: 300,
                },
            );
            p.relabel = Some("C15".into());
            p.retry = false;
            // reordering stays within one PTO: no "far" delays, no corruption (every delivered
            // genuine datagram must decrypt), loss and duplication allowed
            for ph in p.net.phases.iter_mut() {
                ph.far = 0.0;
                ph.corrupt = 0.0;
                ph.truncate = 0.0;
            }
            p.net.jitter_us = p.net.jitter_us.min(p.net.delay_us);
            p.net.mtu = 9200;
            p.net.delay_us = p.net.delay_us.max(5_000);
            for c in p.clients.iter_mut() {
                c.close_code = Some(0);
                c.abort_at_us = None;
                c.streams.truncate(2);
                c.server_streams.truncate(1);
                // both directions carry a few thousand packets, so that each side is due for
                // several updates
                if let Some(s) = c.streams.first_mut() {
                    s.bidi = true;
                    s.fwd.len = r.range(1_500_000, 3_000_000);
                    s.fwd.chunk_lo = 8_000;
                    s.fwd.chunk_hi = 60_000;
                    s.fwd.gap_every = 0;
                    s.fwd.flush = false;
                    s.fwd.end = End::Finish;
                    s.fwd.read = ReadMode::Plain;
                    let mut rev = s.fwd.clone();
                    rev.len = r.range(1_500_000, 3_000_000);
                    s.rev = Some(rev);
                }
            }
            // a small connection window bounds the rate to ~100 packets per round trip, which
            // keeps consecutive key updates (every 500-1550 packets) many PTOs apart
            for c in std::iter::once(&mut p.server).chain(p.clients.iter_mut().map(|c| &mut c.cfg)) {
                c.data_window = 120_000;
                c.bidi_local_window = 120_000;
                c.bidi_remote_window = 120_000;
                c.max_ack_delay_ms = c.max_ack_delay_ms.min(25);
            }
            p.knobs.insert("c15_interval".into(), crate::key_update_interval() as i64);
            p
        }
        "C11" => amplification(seed, index, &mut ex),
        "C06" => {
            // 2 of 3 scenarios: genuine traffic untouched (pure injection); else lossy as well
            let pure = index % 3 != 2;
            let mut p = gen_general(
                "C06",
                seed,
                &["C06", "C01"],
                GenOpts {
                    max_clients: 2,
                    max_streams: 4,
                    max_len: 300_000,
                    tiny_windows: 1,
                    hostile_app: false,
                    net_intensity: if pure { (0, 0) } else { (1, 2) },
                    server_streams: true,
                    rtts: 100,
                },
            );
            let mut r = Rng::new(seed ^ 0xc06);
            p.relabel = Some("C06".into());
            p.retry = false;
            p.net.mtu = 9200;
            for c in p.clients.iter_mut() {
                c.close_code = Some(0);
                c.abort_at_us = None;
                // make sure there is enough traffic to attack
                if let Some(s) = c.streams.first_mut() {
                    s.fwd.len = s.fwd.len.max(r.range(20_000, 120_000));
                    s.fwd.end = End::Finish;
                }
            }
            let clients = p.clients.clone();
            for (c, orig) in p.clients.iter_mut().zip(clients.iter()) {
                for (s, o) in c.streams.iter_mut().zip(orig.streams.iter()) {
                    let _ = o;
                    cap_stream(s, &p.server, &c.cfg, 100);
                }
            }
            let rate = *r.pick(&[100u64, 300, 600, 900]);
            ex.injector = Some(Box::new(crate::mon::c06::Forger::new(
                rate,
                p.server.cid_len,
                r.range(100, 600),
            )));
            p
        }
        "C02" => must_deliver(seed, index % 4 == 3, index % 4 == 2),
        "C02bh" => never_recovers(seed, index),
        "C14idle" => {
            // the idle timeout that applies is the smaller of the two advertised values, or the
            // only one if one side advertises none (RFC 9000 10.1): asymmetric settings, then
            // the path dies for good and both ends must report that within the applied value
            let mut p = never_recovers(seed, index);
            let mut r = Rng::new(seed ^ 0xc14d);
            p.profile = "C14idle".into();
            p.relabel = Some("C14".into());
            let vals = [0u64, 3_000, 5_000, 8_000, 15_000, 40_000];
            let (a, b) = loop {
                let a = *r.pick(&vals);
                let b = *r.pick(&vals);
                if a != b {
                    break (a, b);
                }
            };
            p.server.idle_timeout_ms = a;
            for c in p.clients.iter_mut() {
                c.cfg.idle_timeout_ms = b;
            }
            // only blackholes after the handshake say something about the negotiated value
            for d in 0..2 {
                if let Some(k) = p.net.blackhole_after[d].as_mut() {
                    *k = (*k).max(12);
                }
            }
            p.linger_us = 2 * (a.max(b) + 20_000) * 1000;
            // RFC 9000 10.1: the idle period is at least three times the current PTO. With a
            // one-way blackhole an endpoint keeps hearing its peer's probes until the peer
            // gives up, its own PTO doubling all the while: it may legitimately report only
            // at (last packet heard) + 3 x (backed-off PTO), several times the idle value
            p.t_max_us = p.t_max_us.max(1_500_000_000);
            p
        }
        "C09bh" => {
            // the same permanent-blackhole scenarios, watched by the loss/PTO monitor: long
            // chains of consecutive probe timeouts without any acknowledgement in between
            let mut p = never_recovers(seed, index);
            p.profile = "C09bh".into();
            p.monitors = vec!["C09".into()];
            p.knobs.remove("c02_mode");
            // longer idle timeouts leave room for more consecutive expiries
            p.server.idle_timeout_ms = 30_000;
            for c in p.clients.iter_mut() {
                c.cfg.idle_timeout_ms = 30_000;
            }
            p
        }
        "smoke" => {
            let mut p = base("smoke", seed, &["C01", "C03", "C08", "C09", "C12"]);
            let mut r = Rng::new(seed);
            let cfg = EpCfg::default_with(r.next());
            let mut f = gen_flow(&mut r, 100_000, false);
            f.len = 50_000;
            f.end = End::Finish;
            f.read = ReadMode::Plain;
            let mut g = f.clone();
            g.len = 20_000;
            p.clients.push(ClientPlan {
                cfg,
                start_delay_us: 0,
                streams: vec![StreamPlan {
                    by_server: false,
                    bidi: true,
                    open_delay_us: 0,
                    fwd: f,
                    rev: Some(g),
                }],
                server_streams: vec![],
                close_code: Some(0),
                abort_at_us: None,
                server_close_at_us: None,
            });
            p.net = gen_faulty_net(&mut r, 1);
            p
        }
        "C01" => gen_general(
            "C01",
            seed,
            &["C01"],
            GenOpts {
                max_clients: 3,
                max_streams: 8,
                max_len: 1_000_000,
                tiny_windows: 1,
                hostile_app: true,
                net_intensity: (0, 2),
                server_streams: true,
                rtts: 300,
            },
        ),
        "C03" => gen_general(
            "C03",
            seed,
            &["C03"],
            GenOpts {
                max_clients: 2,
                max_streams: 12,
                max_len: 200_000,
                tiny_windows: 3,
                hostile_app: true,
                net_intensity: (0, 2),
                server_streams: true,
                rtts: 200,
            },
        ),
        "C08" => {
            let mut p = gen_general(
                "C08",
                seed,
                &["C08"],
                GenOpts {
                    max_clients: 2,
                    max_streams: 4,
                    max_len: 300_000,
                    tiny_windows: 1,
                    hostile_app: false,
                    net_intensity: (1, 2),
                    server_streams: true,
                    rtts: 200,
                },
            );
            // corruption is excluded so that every delivered genuine datagram is intact for (d)
            for ph in p.net.phases.iter_mut() {
                ph.corrupt = 0.0;
                ph.truncate = 0.0;
            }
            p.knobs.insert("c08_promptness".into(), 1);
            p
        }
        "C09" => {
            let mut p = gen_general(
                "C09",
                seed,
                &["C09"],
                GenOpts {
                    max_clients: 2,
                    max_streams: 4,
                    max_len: 400_000,
                    tiny_windows: 0,
                    hostile_app: false,
                    net_intensity: (1, 2),
                    server_streams: true,
                    rtts: 300,
                },
            );
            // at least half of the runs with a path RTT >= 40 ms so that a 9/8 -> 1 change
            // moves the threshold by more than the 1 ms timer granularity
            if seed & 1 == 0 && p.net.delay_us < 20_000 {
                p.net.delay_us += 20_000;
            }
            if index % 4 == 2 {
                // address validation by Retry with more than one Initial outstanding when it
                // arrives: a long path (the client's probe timeout fires first) or a lost Retry
                let mut r = Rng::new(seed ^ 0xc09e);
                p.retry = true;
                match r.below(3) {
                    0 => p.net.delay_us = r.range(600_000, 1_500_000),
                    1 => {
                        p.net.drop_idx[1].insert(0);
                    }
                    _ => {
                        p.net.drop_idx[1].insert(0);
                        p.net.drop_idx[1].insert(1);
                    }
                }
                for c in p.clients.iter_mut() {
                    c.cfg.handshake_ms = c.cfg.handshake_ms.max(20_000);
                    c.cfg.idle_timeout_ms = c.cfg.idle_timeout_ms.max(30_000);
                }
                p.server.handshake_ms = p.server.handshake_ms.max(20_000);
                p.server.idle_timeout_ms = p.server.idle_timeout_ms.max(30_000);
            }
            if index % 4 == 1 {
                // migration between paths with clearly different round-trip times while data
                // is in flight: packets sent on the old path are judged against ITS estimates
                let mut r = Rng::new(seed ^ 0xc09);
                let n = p.clients.len() as u64;
                p.net.delay_us = p.net.delay_us.clamp(15_000, 120_000);
                for c in p.clients.iter_mut() {
                    c.cfg.max_active_cids = c.cfg.max_active_cids.max(4);
                    for s in c.streams.iter_mut() {
                        s.fwd.len = s.fwd.len.max(150_000);
                    }
                }
                p.server.max_active_cids = p.server.max_active_cids.max(4);
                for _ in 0..r.range(1, 4) {
                    p.net.rebinds.push((r.range(300_000, 4_000_000), r.below(n) as usize));
                    p.net.rebind_delay_permille.push(*r.pick(&[100u64, 200, 300, 3000, 5000, 8000]));
                }
                p.net.rebinds.sort();
            }
            p
        }
        "C12" => {
            let mut p = gen_general(
                "C12",
                seed,
                &["C12"],
                GenOpts {
                    max_clients: 2,
                    max_streams: 6,
                    max_len: 300_000,
                    tiny_windows: 1,
                    hostile_app: true,
                    net_intensity: (0, 2),
                    server_streams: true,
                    rtts: 200,
                },
            );
            if index % 4 == 3 {
                // writers that are stopped by the stream limit and the connection limit at the
                // same time, and give up (reset) at some moment while they wait
                let mut r = Rng::new(seed ^ 0xc12);
                let rtt = 2 * (p.net.delay_us + p.net.jitter_us) + 1_000;
                let dw = r.range(2_000, 20_000);
                p.server.data_window = dw;
                p.server.bidi_remote_window = dw + r.range(0, 3) * dw / 2;
                p.server.uni_window = dw + r.range(0, 3) * dw / 2;
                for c in p.clients.iter_mut() {
                    for s in c.streams.iter_mut() {
                        s.fwd.len = s.fwd.len.max(4 * dw + r.range(0, 100_000));
                        s.fwd.chunk_lo = (dw as usize / 2).max(1);
                        s.fwd.chunk_hi = 3 * dw as usize;
                        s.fwd.flush = false;
                        s.fwd.gap_every = 0;
                        if r.chance(2, 3) {
                            s.fwd.end = End::ResetAfter { delay_us: r.range(rtt / 4, 6 * rtt), code: r.range(0, 1000) };
                        }
                        // a reader that lets the windows fill up
                        s.fwd.read = ReadMode::Slow { every: 1, us: r.range(rtt / 2, 3 * rtt) };
                    }
                }
                // the *_BLOCKED frames that announce it are lost a few times, so that some of
                // them are still owed (in flight, lost or due again) when the reset comes
                if r.chance(3, 4) {
                    use crate::world::{tag, Targeted};
                    p.targeted.push(Targeted { from: None, tags: tag::BLOCKED, skip: r.range(0, 2) as u32, drop: r.range(1, 6) as u32 });
                }
                // the RESET_STREAM itself is lost a few times: the stream stays in "reset sent" for
                // several probe timeouts, long enough for anything periodic that was not stopped
                // (a STREAM_DATA_BLOCKED sync, a retransmission) to come due behind it
                if r.chance(1, 2) {
                    use crate::world::{tag, Targeted};
                    p.targeted.push(Targeted { from: None, tags: tag::RESET, skip: 0, drop: r.range(1, 5) as u32 });
                }
                // aligned: the first *_BLOCKED datagrams and the first RESET_STREAM datagrams are both
                // lost and every writer gives up within about two round trips of getting stuck, so
                // that a blocked frame is still in flight (or just declared lost) when its stream
                // is reset and both are due for retransmission together
                if r.chance(1, 2) {
                    use crate::world::{tag, Targeted};
                    p.targeted.clear();
                    p.targeted.push(Targeted { from: None, tags: tag::BLOCKED, skip: 0, drop: r.range(1, 4) as u32 });
                    p.targeted.push(Targeted { from: None, tags: tag::RESET, skip: 0, drop: r.range(1, 3) as u32 });
                    for c in p.clients.iter_mut() {
                        for s in c.streams.iter_mut() {
                            s.fwd.end = End::ResetAfter { delay_us: r.range(rtt / 8, 2 * rtt), code: r.range(0, 1000) };
                        }
                    }
                }
            }
            p
        }
        other => panic!("unknown profile {other}"),
    };
    let mut p = p;
    if matches!(profile, "C01" | "C02" | "C03" | "C12" | "smoke") {
        // stream-centric profiles exercise every read/write interface of the stream API
        let mut r = Rng::new(vq_util::mix(vq_util::mix(seed, 0xa91), index));
        for c in p.clients.iter_mut() {
            for s in c.streams.iter_mut().chain(c.server_streams.iter_mut()) {
                crate::params::diversify_api(&mut r, &mut s.fwd);
                if let Some(rv) = s.rev.as_mut() {
                    crate::params::diversify_api(&mut r, rv);
                }
            }
        }
    }
    (p, ex)
}

/// which observed features make an execution non-trivial for a profile
pub fn nontrivial_features(profile: &str) -> &'static [&'static str] {
    match profile {
        "C01" => &["loss", "reordered_rx", "net_dup", "net_corrupt", "blocked_stream_credit", "blocked_conn_credit", "retransmission", "app_reset"],
        "C03" => &["tight_stream_limit", "tight_conn_limit", "tight_stream_count", "blocked_stream_credit", "blocked_conn_credit", "blocked_stream_count"],
        "C08" => &["loss", "reordered_rx", "gap_rx", "duplicate_rx", "ack_range_evicted"],
        "C09" => &["loss", "pto_probe", "discard_with_outstanding"],
        "C12" => &["retransmission", "resegmented", "reset_sent", "close_sent"],
        "C02" => &["blocked_stream_credit", "blocked_conn_credit", "blocked_stream_count", "loss", "net_drop", "congestion_event"],
        "C02bh" => &["net_drop"],
        "C09bh" => &["pto_probe"],
        "C14idle" => &["net_drop"],
        "C06" => &["injection"],
        "C15" => &["key_updated"],
        "C14" => &["error_close", "tight_stream_limit", "tight_conn_limit", "tight_stream_count", "blocked_stream_count", "stream_completed"],
        "C04" => &["attack_delivered", "max_data", "max_stream_data", "max_streams"],
        "C13" => &["cid_retired", "retire_prior_to", "cid_at_limit", "rebind", "path_migrated"],
        "C10" => &["sent_at_window_limit", "cc_loss", "persistent_congestion", "mtu_changed", "congestion_event"],
        "C11" => &["net_drop", "net_dup", "server_at_amplification_limit", "retry_sent", "rebind", "loss"],
        _ => &["loss", "reordered_rx"],
    }
}
