//! C02 — every operation terminates: data gets through or the failure is reported.
//!
//! Unbounded liveness restated in virtual time (see DESIGN.md C02):
//!  (a) no stall (the simulator's stall detector, mapped in main.rs) and no application
//!      future still pending when the generous virtual deadline T_max is reached;
//!  (c) must-deliver: when the fault phase is finite and idle/handshake timeouts are at least
//!      4x as long as the whole fault period (+2 s), benign applications must see every flow
//!      complete cleanly at both ends and no connection error at all;
//!  (d) never-recovers: after a permanent blackhole both endpoints must report the failure
//!      within max(idle timeout, 3 PTO) (+ slack) of the last moment the idle timer could
//!      have been restarted; before the handshake completes the bound is
//!      max_handshake_duration.

use super::Monitor;
use crate::{params::Params, world::*};
use std::collections::{BTreeMap, BTreeSet, HashMap};
use vq_util::json;

#[derive(Default)]
struct Conn {
    started: u64,
    closed_at: Option<u64>,
    close: Option<CloseKind>,
    handshake_complete: bool,
    peer_idle_ms: Option<u64>,
    /// largest PTO period seen (us), recomputed from recovery metrics
    pto_max: u64,
    /// last time the idle timer can have been restarted
    idle_base: u64,
    /// an ack-eliciting packet was sent since the last packet was received
    sent_since_rx: bool,
    remote_port: u16,
    rx_seen: BTreeSet<(Space, u64)>,
    /// a Handshake-space packet carrying CRYPTO data was declared lost at this endpoint
    /// after its own handshake had completed, and no CRYPTO frame left in that space since
    hs_crypto_sent: BTreeSet<u64>,
    hs_crypto_lost_unrepaired: bool,
}

pub struct C02 {
    mode: i64,
    conns: HashMap<(EpId, u64), Conn>,
    /// live application tasks: (ep, flow, sender?) -> start time
    tasks: BTreeMap<(EpId, FlowKey, bool), u64>,
    pending_connect: BTreeMap<EpId, u64>,
    pending_open: BTreeMap<EpId, u32>,
    finished: BTreeMap<FlowKey, u64>,
    recv_end: BTreeSet<FlowKey>,
    errors: Vec<String>,
    idle_ms: Vec<u64>,
    handshake_ms: Vec<u64>,
    blocked_kinds: BTreeSet<&'static str>,
    t_max: u64,
    last_delivery_to: HashMap<EpId, u64>,
    blackhole_started: Option<u64>,
}

impl C02 {
    pub fn new(p: &Params) -> Self {
        C02 {
            mode: p.knob("c02_mode"),
            conns: HashMap::new(),
            tasks: BTreeMap::new(),
            pending_connect: BTreeMap::new(),
            pending_open: BTreeMap::new(),
            finished: BTreeMap::new(),
            recv_end: BTreeSet::new(),
            errors: Vec::new(),
            idle_ms: std::iter::once(p.server.idle_timeout_ms)
                .chain(p.clients.iter().map(|c| c.cfg.idle_timeout_ms))
                .collect(),
            handshake_ms: std::iter::once(p.server.handshake_ms)
                .chain(p.clients.iter().map(|c| c.cfg.handshake_ms))
                .collect(),
            blocked_kinds: BTreeSet::new(),
            t_max: p.t_max_us,
            last_delivery_to: HashMap::new(),
            blackhole_started: None,
        }
    }
}

const SLACK_US: u64 = 1_500_000;

/// a flow the scenario's own application turns down (reset by the writer, stop_sending /
/// drop by the reader): its operations are expected to fail, it makes no delivery claim
fn rejected_by_app(cx: &Ctx, flow: &FlowKey) -> bool {
    use crate::params::{End, ReadMode};
    let Some(plan) = cx.plans.get(&(flow.client, flow.stream)) else { return false };
    let fwd_dir = if plan.by_server { Dir::S2C } else { Dir::C2S };
    let f = if flow.dir == fwd_dir { Some(&plan.fwd) } else { plan.rev.as_ref() };
    match f {
        Some(f) => {
            matches!(f.end, End::Reset { .. } | End::ResetAfter { .. })
                || matches!(f.read, ReadMode::StopSending { .. } | ReadMode::RejectAfter { .. })
        }
        None => false,
    }
}

impl Monitor for C02 {
    fn on_app(&mut self, cx: &mut Ctx, ep: EpId, t: u64, op: &AppOp) {
        match op {
            AppOp::TaskStart { flow, sender } => {
                self.tasks.insert((ep, *flow, *sender), t);
            }
            AppOp::TaskEnd { flow, sender } => {
                self.tasks.remove(&(ep, *flow, *sender));
                cx.summary.count("c02.tasks_resolved", 1);
            }
            AppOp::ConnectBegin => {
                self.pending_connect.insert(ep, t);
            }
            AppOp::ConnectOk { .. } => {
                self.pending_connect.remove(&ep);
                cx.summary.count("c02.connects_ok", 1);
            }
            AppOp::ConnectErr { kind } => {
                if let Some(t0) = self.pending_connect.remove(&ep) {
                    cx.summary.max("c02.max_connect_fail_ms", ((t - t0) / 1000) as i64);
                }
                cx.summary.count("c02.connects_failed", 1);
                cx.summary.set("c02.connect_errors", kind.short());
                self.errors.push(format!("ep{ep} connect failed: {}", kind.short()));
            }
            AppOp::OpenBegin => *self.pending_open.entry(ep).or_insert(0) += 1,
            AppOp::Opened { .. } | AppOp::OpenErr { .. } => {
                if let Some(n) = self.pending_open.get_mut(&ep) {
                    *n = n.saturating_sub(1);
                }
                if let AppOp::OpenErr { kind } = op {
                    self.errors.push(format!("ep{ep} open failed: {}", kind.short()));
                }
            }
            AppOp::Finished { flow, total } => {
                self.finished.insert(*flow, *total);
            }
            AppOp::RecvEnd { flow, .. } => {
                self.recv_end.insert(*flow);
                cx.summary.count("c02.flows_completed", 1);
            }
            AppOp::SendErr { flow, err, .. } => {
                if rejected_by_app(cx, flow) && err.contains("StreamReset") {
                    cx.summary.count("c02.rejected_flow_errors", 1);
                } else {
                    self.errors.push(format!("ep{ep} send {flow:?}: {err}"))
                }
            }
            AppOp::SendClosed {
                flow,
                ok: false,
                err,
            } => {
                if rejected_by_app(cx, flow) && err.contains("StreamReset") {
                    cx.summary.count("c02.rejected_flow_errors", 1);
                } else {
                    self.errors.push(format!("ep{ep} close {flow:?}: {err}"))
                }
            }
            AppOp::RecvErr { flow, err, .. } => {
                if rejected_by_app(cx, flow) && err.contains("StreamReset") {
                    cx.summary.count("c02.rejected_flow_errors", 1);
                } else {
                    self.errors.push(format!("ep{ep} recv {flow:?}: {err}"))
                }
            }
            AppOp::StopSending { .. } => {
                cx.summary.count("c02.streams_rejected_by_reader", 1);
                cx.feature("app_rejected_stream");
            }
            _ => {}
        }
    }

    fn on_tx(&mut self, cx: &mut Ctx, p: &Pkt) {
        for f in &p.frames {
            let k = match f {
                Frame::DataBlocked { .. } => "connection-credit",
                Frame::StreamDataBlocked { .. } => "stream-credit",
                Frame::StreamsBlocked { .. } => "stream-count",
                _ => continue,
            };
            if self.blocked_kinds.insert(k) {
                cx.summary.count(&format!("c02.runs_blocked_on.{k}"), 1);
            }
        }
        let c = self.conns.entry((p.ep, p.conn)).or_default();
        if p.space == Space::Handshake && p.frames.iter().any(|f| matches!(f, Frame::Crypto { .. })) {
            c.hs_crypto_sent.insert(p.pn);
            c.hs_crypto_lost_unrepaired = false;
        }
        if p.ack_eliciting() && !c.sent_since_rx {
            // RFC 9000 10.1: the idle timer also restarts when the first ack-eliciting packet
            // after the last received one is sent
            c.sent_since_rx = true;
            c.idle_base = c.idle_base.max(p.t);
        }
    }

    fn on_rx(&mut self, _cx: &mut Ctx, p: &Pkt) {
        let c = self.conns.entry((p.ep, p.conn)).or_default();
        // only a packet processed for the first time restarts the idle timer (a replayed
        // datagram authenticates, but it is a duplicate and must be ignored)
        if !c.rx_seen.insert((p.space, p.pn)) {
            return;
        }
        c.idle_base = c.idle_base.max(p.t);
        c.sent_since_rx = false;
    }

    fn on_cc(&mut self, cx: &mut Ctx, o: &CcObs) {
        if o.limited_before {
            if self.blocked_kinds.insert("congestion") {
                cx.summary.count("c02.runs_blocked_on.congestion", 1);
            }
        }
    }

    fn on_evt(&mut self, cx: &mut Ctx, ep: EpId, conn: u64, t: u64, e: &Evt) {
        if conn == u64::MAX {
            return;
        }
        let c = self.conns.entry((ep, conn)).or_default();
        match e {
            Evt::Started { remote_port, .. } => {
                c.started = t;
                c.idle_base = t;
                c.remote_port = *remote_port;
            }
            Evt::PeerParams(pp) => c.peer_idle_ms = Some(pp.max_idle_timeout_ms),
            Evt::PacketLost { space: Space::Handshake, pn, .. } => {
                if c.handshake_complete && c.hs_crypto_sent.contains(pn) {
                    c.hs_crypto_lost_unrepaired = true;
                }
            }
            Evt::Handshake { status } => {
                if *status == "complete" || *status == "confirmed" {
                    c.handshake_complete = true;
                }
            }
            Evt::Metrics(m) => {
                let pto = (m.smoothed_rtt + (4 * m.rtt_variance).max(1000) + m.max_ack_delay)
                    .saturating_mul(1u64 << m.pto_count.min(20));
                c.pto_max = c.pto_max.max(pto);
            }
            Evt::Closed(k) => {
                if c.closed_at.is_none() {
                    c.closed_at = Some(t);
                    c.close = Some(k.clone());
                    cx.summary.set("c02.close_kinds", k.short());
                    // (d) was the failure reported in time?
                    if self.mode == 2 && matches!(k, CloseKind::IdleTimeout | CloseKind::MaxHandshakeDuration | CloseKind::NoValidPath) {
                        let local_idle = self.idle_ms.get(ep).copied().unwrap_or(30_000);
                        let idle = match c.peer_idle_ms {
                            Some(p) if p > 0 && local_idle > 0 => p.min(local_idle),
                            Some(p) if p > 0 => p,
                            _ => local_idle,
                        } * 1000;
                        let hs = self.handshake_ms.get(ep).copied().unwrap_or(10_000) * 1000;
                        let bound = if c.handshake_complete {
                            c.idle_base + idle.max(3 * c.pto_max) + SLACK_US
                        } else {
                            // before the handshake completes whichever of the two fires first ends it
                            (c.started + hs).max(c.idle_base + idle.max(3 * c.pto_max)) + SLACK_US
                        };
                        cx.summary.count("c02.failure_reports_timed", 1);
                        cx.summary.max("c02.max_report_delay_ms", (t.saturating_sub(c.idle_base) / 1000) as i64);
                        if t > bound {
                            cx.violate(
                                "C02",
                                "failure-reported-late",
                                format!(
                                    "ep{ep} c{conn}: connection failure ({}) reported at {t}us, later than the bound {bound}us (idle timer base {}us, idle {idle}us, 3*PTO {}us)",
                                    k.short(), c.idle_base, 3 * c.pto_max
                                ),
                                json!({"ep": ep, "conn": conn, "t": t, "bound": bound, "idle_base": c.idle_base, "idle_us": idle, "pto_max": c.pto_max}),
                            );
                        }
                    }
                }
            }
            _ => {}
        }
    }

    fn on_wire(&mut self, _cx: &mut Ctx, w: &Wire, fate: &Fate) {
        if let Fate::Drop("blackhole") = fate {
            if self.blackhole_started.is_none() {
                self.blackhole_started = Some(w.t);
            }
        }
    }

    fn on_delivered(&mut self, _cx: &mut Ctx, w: &Wire, at: u64) {
        if let Some(d) = w.dst {
            self.last_delivery_to.insert(d, at);
        }
    }

    fn on_workload_done(&mut self, cx: &mut Ctx) {
        let now = cx.now;
        // (a) anything still pending when the supervisor gave up?
        let mut pending: Vec<String> = self
            .tasks
            .iter()
            .map(|((ep, flow, sender), t0)| {
                format!("ep{ep} {} {flow:?} since {}ms", if *sender { "send" } else { "recv" }, t0 / 1000)
            })
            .collect();
        for (ep, t0) in &self.pending_connect {
            pending.push(format!("ep{ep} connect() since {}ms", t0 / 1000));
        }
        for (ep, n) in &self.pending_open {
            if *n > 0 {
                pending.push(format!("ep{ep} {n} open_stream() calls"));
            }
        }
        if !pending.is_empty() && now >= self.t_max {
            cx.violate(
                "C02",
                "future-pending-at-deadline",
                format!(
                    "{} application futures still pending at the virtual deadline {}s: {}",
                    pending.len(),
                    self.t_max / 1_000_000,
                    pending.iter().take(6).cloned().collect::<Vec<_>>().join("; ")
                ),
                json!({"pending": pending, "blocked_kinds": self.blocked_kinds.iter().collect::<Vec<_>>()}),
            );
        }
        cx.summary.max("c02.max_virtual_s", (now / 1_000_000) as i64);
        // (c) must-deliver
        if self.mode == 1 {
            cx.summary.count("c02.must_deliver_runs", 1);
            if !self.errors.is_empty() {
                // One way to get here is known (known_findings.jsonl): a client whose Finished
                // was lost cannot retransmit it because its congestion window is taken by the
                // 1-RTT packets it sent at once (which the server cannot process before it has
                // the Finished, and which have no probe timer before the handshake is
                // confirmed). Told apart by what was observed, not by the error text.
                let finished_stuck = self.conns.iter().any(|((ep, _), c)| *ep != SERVER && c.hs_crypto_lost_unrepaired)
                    && self.conns.iter().any(|((ep, _), c)| *ep == SERVER && matches!(c.close, Some(CloseKind::MaxHandshakeDuration)));
                cx.violate(
                    "C02",
                    if finished_stuck { "must-deliver:error:client-finished-not-retransmitted" } else { "must-deliver:error" },
                    format!(
                        "the network healed after a finite fault period and timeouts are >= 4x that period, yet operations failed: {}",
                        self.errors.iter().take(5).cloned().collect::<Vec<_>>().join("; ")
                    ),
                    json!({"errors": self.errors}),
                );
            }
            let missing: Vec<String> = self
                .finished
                .keys()
                .filter(|f| !self.recv_end.contains(f) && !rejected_by_app(cx, f))
                .map(|f| format!("{f:?}"))
                .collect();
            if !missing.is_empty() && self.errors.is_empty() && pending.is_empty() {
                cx.violate(
                    "C02",
                    "must-deliver:incomplete",
                    format!("finished streams never completed at the receiving application: {}", missing.join(", ")),
                    json!({"missing": missing}),
                );
            }
        }
    }

    fn finish(&mut self, cx: &mut Ctx) {
        let now = cx.now;
        // (d) never-recovers: every connection that existed must have reported failure
        if self.mode == 2 {
            cx.summary.count("c02.never_recovers_runs", 1);
            for ((ep, conn), c) in &self.conns {
                // the simulation may end before this endpoint's (backed-off) deadline is due
                let local_idle = self.idle_ms.get(*ep).copied().unwrap_or(30_000);
                let idle = match c.peer_idle_ms {
                    Some(p) if p > 0 && local_idle > 0 => p.min(local_idle),
                    Some(p) if p > 0 => p,
                    _ => local_idle,
                } * 1000;
                let hs = self.handshake_ms.get(*ep).copied().unwrap_or(10_000) * 1000;
                let bound = if c.handshake_complete {
                    c.idle_base + idle.max(3 * c.pto_max) + SLACK_US
                } else {
                    (c.started + hs).max(c.idle_base + idle.max(3 * c.pto_max)) + SLACK_US
                };
                if c.closed_at.is_none() && now <= bound {
                    cx.summary.count("c02.failure_report_not_yet_due_at_end", 1);
                    continue;
                }
                if c.closed_at.is_none() {
                    cx.violate(
                        "C02",
                        "no-failure-report",
                        format!("ep{ep} c{conn}: the network never recovered but the connection was never reported closed (now {}us)", now),
                        json!({"ep": ep, "conn": conn, "idle_base": c.idle_base}),
                    );
                }
            }
        }
    }
}
