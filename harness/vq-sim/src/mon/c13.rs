//! C13 — connection IDs are issued, routed and retired consistently.
//!
//! Issuer side (TX tap): NEW_CONNECTION_ID sequence numbers are consecutive, values and
//! stateless-reset tokens pairwise distinct, retire_prior_to <= seq, and the number of issued
//! ids that are neither retired by the peer (RETIRE_CONNECTION_ID seen in the issuer's RX tap)
//! nor covered by a retire_prior_to the issuer itself sent never exceeds the peer's
//! active_connection_id_limit. Retirer side: RETIRE_CONNECTION_ID only for sequence numbers
//! the peer issued, and never in a packet whose wire destination connection id is the one
//! being retired. Routing: a genuine datagram addressed to an unretired id is processed by the
//! connection that issued the id (never another one, never dropped as unknown).

use super::Monitor;
use crate::{params::Params, world::*};
use std::collections::{BTreeMap, BTreeSet, HashMap};
use vq_util::json;

#[derive(Default)]
struct Conn {
    client: Option<EpId>,
    /// ids this endpoint issued: seq -> (cid, token)
    issued: BTreeMap<u64, (Vec<u8>, Option<[u8; 16]>)>,
    max_rpt_sent: u64,
    /// seqs of our ids the peer asked to retire (RX tap)
    retired_by_peer: BTreeSet<u64>,
    /// ids the peer issued, as seen by our RX tap: seq -> cid
    peer_issued: BTreeMap<u64, Vec<u8>>,
    peer_limit: Option<u64>,
    /// RETIRE_CONNECTION_ID frames we put into packets: pn -> seqs
    retire_in_pkt: HashMap<u64, Vec<u64>>,
    closed: bool,
    max_outstanding: u64,
}

pub struct C13 {
    conns: HashMap<(EpId, u64), Conn>,
    /// every id ever issued by an endpoint -> issuing connection and seq
    owner: HashMap<(EpId, Vec<u8>), (u64, u64)>,
    /// (client ep) -> server connection id, client connection id
    pair_server: HashMap<EpId, u64>,
    pair_client: HashMap<EpId, u64>,
    /// genuine intact datagrams delivered: (dst, at) -> (dcid, pkts)
    delivered: HashMap<(EpId, u64), Vec<(Vec<u8>, Vec<(Space, u64)>)>>,
    /// the same with the datagram length, for attributing endpoint-level drop events
    delivered_len: HashMap<(EpId, u64), Vec<(usize, Vec<u8>, Vec<(Space, u64)>)>>,
    /// (dst, at, len) of datagrams that are not genuine (garbled in flight, injected)
    garbage_len: std::collections::HashSet<(EpId, u64, usize)>,
    cid_len: Vec<usize>,
    max_mtu: Vec<u16>,
}

impl C13 {
    pub fn new(p: &Params) -> Self {
        C13 {
            conns: HashMap::new(),
            owner: HashMap::new(),
            pair_server: HashMap::new(),
            pair_client: HashMap::new(),
            delivered: HashMap::new(),
            delivered_len: HashMap::new(),
            garbage_len: Default::default(),
            cid_len: std::iter::once(p.server.cid_len)
                .chain(p.clients.iter().map(|c| c.cfg.cid_len))
                .collect(),
            max_mtu: std::iter::once(p.server.max_mtu)
                .chain(p.clients.iter().map(|c| c.cfg.max_mtu))
                .collect(),
        }
    }

    fn peer_of(&self, ep: EpId, conn: u64) -> Option<(EpId, u64)> {
        let c = self.conns.get(&(ep, conn))?;
        let client = c.client?;
        if ep == SERVER {
            self.pair_client.get(&client).map(|cc| (client, *cc))
        } else {
            self.pair_server.get(&client).map(|sc| (SERVER, *sc))
        }
    }
}

impl Monitor for C13 {
    fn on_evt(&mut self, cx: &mut Ctx, ep: EpId, conn: u64, t: u64, e: &Evt) {
        match e {
            Evt::Started {
                local_cid,
                remote_port,
                ..
            } => {
                let client = if ep == SERVER {
                    cx.ep_of_port(*remote_port)
                } else {
                    Some(ep)
                };
                let c = self.conns.entry((ep, conn)).or_default();
                c.client = client;
                c.issued.insert(0, (local_cid.clone(), None));
                self.owner.insert((ep, local_cid.clone()), (conn, 0));
                if let Some(cl) = client {
                    if ep == SERVER {
                        // the latest server connection for that client wins (earlier attempts died)
                        self.pair_server.insert(cl, conn);
                    } else {
                        self.pair_client.insert(cl, conn);
                    }
                }
            }
            Evt::PeerParams(pp) => {
                let c = self.conns.entry((ep, conn)).or_default();
                c.peer_limit = Some(pp.active_connection_id_limit);
                // the server's seq-0 id as the client learns it
                if !pp.initial_source_cid.is_empty() {
                    c.peer_issued.insert(0, pp.initial_source_cid.clone());
                }
            }
            Evt::Closed(_) => {
                self.conns.entry((ep, conn)).or_default().closed = true;
            }
            Evt::EndpointDatagramDropped { reason, len } if reason.contains("UnknownDestinationConnectionId") => {
                // was a genuine datagram for a live, unretired id delivered right now? The event
                // carries the datagram's length: blame a genuine datagram only when no garbled or
                // injected datagram of that length arrived at the same instant.
                let len = *len as usize;
                if self.garbage_len.contains(&(ep, t, len)) {
                    return;
                }
                if let Some(list) = self.delivered_len.get(&(ep, t)) {
                    for (dlen, dcid, pkts) in list {
                        if *dlen != len {
                            continue;
                        }
                        if let Some((oc, seq)) = self.owner.get(&(ep, dcid.clone())) {
                            let c = &self.conns[&(ep, *oc)];
                            let retired = c.retired_by_peer.contains(seq) || *seq < c.max_rpt_sent;
                            if !c.closed && !retired && !pkts.is_empty() {
                                cx.violate(
                                    "C13",
                                    "datagram-for-live-cid-dropped",
                                    format!(
                                        "ep{ep}: a genuine datagram addressed to connection id seq {seq} of c{oc} (not retired) was dropped as unknown destination connection id"
                                    ),
                                    json!({"ep": ep, "conn": oc, "seq": seq, "t": t, "len": len, "pkts": format!("{pkts:?}")}),
                                );
                            }
                        }
                    }
                }
            }
            _ => {}
        }
    }

    fn on_tx(&mut self, cx: &mut Ctx, p: &Pkt) {
        if p.space != Space::App {
            return;
        }
        let key = (p.ep, p.conn);
        for f in &p.frames {
            match f {
                Frame::NewConnectionId {
                    seq,
                    retire_prior_to,
                    cid,
                    token,
                } => {
                    cx.summary.count("c13.new_cid_frames", 1);
                    // distinctness across everything this endpoint ever issued
                    if let Some((oc, os)) = self.owner.get(&(p.ep, cid.clone())) {
                        if (*oc, *os) != (p.conn, *seq) {
                            cx.violate(
                                "C13",
                                "cid-reused",
                                format!("ep{} c{}: connection id issued with seq {seq} was already issued as seq {os} of c{oc}", p.ep, p.conn),
                                json!({"ep": p.ep, "conn": p.conn, "seq": seq, "other_conn": oc, "other_seq": os}),
                            );
                        }
                    }
                    self.owner.insert((p.ep, cid.clone()), (p.conn, *seq));
                    let c = self.conns.entry(key).or_default();
                    if retire_prior_to > seq {
                        cx.violate(
                            "C13",
                            "retire-prior-to-beyond-seq",
                            format!("ep{} c{}: NEW_CONNECTION_ID seq {seq} asks to retire prior to {retire_prior_to}", p.ep, p.conn),
                            json!({"ep": p.ep, "conn": p.conn, "seq": seq, "rpt": retire_prior_to}),
                        );
                    }
                    match c.issued.get(seq) {
                        Some((old, tok)) => {
                            if old != cid || tok.map(|t| &t != token).unwrap_or(false) {
                                cx.violate(
                                    "C13",
                                    "seq-reissued-with-different-id",
                                    format!("ep{} c{}: sequence number {seq} retransmitted with a different id or token", p.ep, p.conn),
                                    json!({"ep": p.ep, "conn": p.conn, "seq": seq}),
                                );
                            }
                        }
                        None => {
                            let max = c.issued.keys().next_back().copied().unwrap_or(0);
                            if *seq != max + 1 {
                                cx.violate(
                                    "C13",
                                    "seq-not-consecutive",
                                    format!("ep{} c{}: NEW_CONNECTION_ID seq {seq} issued after {max}", p.ep, p.conn),
                                    json!({"ep": p.ep, "conn": p.conn, "seq": seq, "prev": max}),
                                );
                            }
                            for (s, (_, tok)) in c.issued.iter() {
                                if tok.map(|t| &t == token).unwrap_or(false) {
                                    cx.violate(
                                        "C13",
                                        "reset-token-reused",
                                        format!("ep{} c{}: stateless reset token of seq {seq} equals the one of seq {s}", p.ep, p.conn),
                                        json!({"ep": p.ep, "conn": p.conn, "seq": seq, "other": s}),
                                    );
                                }
                            }
                            c.issued.insert(*seq, (cid.clone(), Some(*token)));
                            cx.summary.count("c13.cids_issued", 1);
                        }
                    }
                    c.max_rpt_sent = c.max_rpt_sent.max(*retire_prior_to);
                    if *retire_prior_to > 0 {
                        cx.feature("retire_prior_to");
                    }
                    // active limit
                    let active = c
                        .issued
                        .keys()
                        .filter(|s| **s >= c.max_rpt_sent && !c.retired_by_peer.contains(s))
                        .count() as u64;
                    c.max_outstanding = c.max_outstanding.max(active);
                    if let Some(lim) = c.peer_limit {
                        cx.summary.count("c13.limit_checks", 1);
                        if active > lim {
                            cx.violate(
                                "C13",
                                "active-cid-limit-exceeded",
                                format!(
                                    "ep{} c{}: {active} unretired connection ids outstanding after issuing seq {seq}, peer's active_connection_id_limit is {lim}",
                                    p.ep, p.conn
                                ),
                                json!({"ep": p.ep, "conn": p.conn, "active": active, "limit": lim, "seq": seq, "rpt": c.max_rpt_sent}),
                            );
                        } else if active == lim {
                            cx.summary.count("c13.at_limit", 1);
                            cx.feature("cid_at_limit");
                        }
                    }
                }
                Frame::RetireConnectionId { seq } => {
                    cx.summary.count("c13.retire_frames", 1);
                    let c = self.conns.entry(key).or_default();
                    if !c.peer_issued.contains_key(seq) && *seq != 0 {
                        cx.violate(
                            "C13",
                            "retire-of-unissued",
                            format!("ep{} c{}: RETIRE_CONNECTION_ID for sequence number {seq}, which the peer never issued", p.ep, p.conn),
                            json!({"ep": p.ep, "conn": p.conn, "seq": seq, "known": c.peer_issued.keys().collect::<Vec<_>>()}),
                        );
                    }
                    c.retire_in_pkt.entry(p.pn).or_default().push(*seq);
                }
                _ => {}
            }
        }
    }

    fn on_rx(&mut self, cx: &mut Ctx, p: &Pkt) {
        // routing: which connection does the datagram's destination id belong to?
        if let Some(list) = self.delivered.get_mut(&(p.ep, p.t)) {
            let mut candidates = 0;
            let mut ok = false;
            let mut wrong = None;
            for (dcid, pkts) in list.iter_mut() {
                if let Some(i) = pkts.iter().position(|x| *x == (p.space, p.pn)) {
                    candidates += 1;
                    match self.owner.get(&(p.ep, dcid.clone())) {
                        Some((oc, _)) if *oc == p.conn => {
                            ok = true;
                            pkts.swap_remove(i);
                            break;
                        }
                        Some((oc, seq)) => wrong = Some((*oc, *seq)),
                        None => {
                            // id unknown to the monitor (client's original destination id)
                            ok = true;
                        }
                    }
                }
            }
            if candidates > 0 {
                cx.summary.count("c13.routed_packets_checked", 1);
                if !ok {
                    if let Some((oc, seq)) = wrong {
                        cx.violate(
                            "C13",
                            "misrouted",
                            format!(
                                "ep{} : packet {:?}#{} addressed to connection id seq {seq} of c{oc} was processed by c{}",
                                p.ep, p.space, p.pn, p.conn
                            ),
                            json!({"ep": p.ep, "processed_by": p.conn, "owner": oc, "seq": seq}),
                        );
                    }
                }
            }
        }
        if p.space != Space::App {
            return;
        }
        let c = self.conns.entry((p.ep, p.conn)).or_default();
        for f in &p.frames {
            match f {
                Frame::NewConnectionId { seq, cid, .. } => {
                    c.peer_issued.insert(*seq, cid.clone());
                }
                Frame::RetireConnectionId { seq } => {
                    if c.retired_by_peer.insert(*seq) {
                        cx.summary.count("c13.cids_retired_by_peer", 1);
                        cx.feature("cid_retired");
                    }
                }
                _ => {}
            }
        }
    }

    fn on_wire(&mut self, cx: &mut Ctx, w: &Wire, _fate: &Fate) {
        if w.injected || w.pkts.len() != 1 || w.bytes.is_empty() || w.bytes[0] & 0x80 != 0 {
            return;
        }
        let (Some(src), Some(dst)) = (w.src, w.dst) else { return };
        let (conn, _space, pn) = w.pkts[0];
        let Some(c) = self.conns.get(&(src, conn)) else { return };
        let Some(seqs) = c.retire_in_pkt.get(&pn) else { return };
        let dlen = self.cid_len.get(dst).copied().unwrap_or(16);
        if w.bytes.len() < 1 + dlen {
            return;
        }
        let dcid = &w.bytes[1..1 + dlen];
        for seq in seqs {
            cx.summary.count("c13.retire_packets_checked", 1);
            if c.peer_issued.get(seq).map(|x| x.as_slice() == dcid).unwrap_or(false) {
                cx.violate(
                    "C13",
                    "retire-sent-on-retired-cid",
                    format!("ep{src} c{conn}: RETIRE_CONNECTION_ID({seq}) travels in packet {pn} that is addressed with that very connection id"),
                    json!({"ep": src, "conn": conn, "seq": seq, "pn": pn}),
                );
            }
        }
    }

    fn on_delivered(&mut self, _cx: &mut Ctx, w: &Wire, at: u64) {
        let Some(dst) = w.dst else { return };
        if w.injected || w.pkts.is_empty() {
            self.garbage_len.insert((dst, at, w.bytes.len()));
            if self.garbage_len.len() > 8192 {
                let cutoff = at.saturating_sub(2_000_000);
                self.garbage_len.retain(|(_, t, _)| *t >= cutoff);
            }
            return;
        }
        if w.bytes.is_empty() {
            return;
        }
        if dst >= crate::app::PROBER_BASE {
            return;
        }
        if w.bytes.len() > self.max_mtu.get(dst).copied().unwrap_or(u16::MAX) as usize {
            return;
        }
        let dlen = self.cid_len.get(dst).copied().unwrap_or(16);
        let dcid = if w.bytes[0] & 0x80 == 0 {
            if w.bytes.len() < 1 + dlen {
                return;
            }
            w.bytes[1..1 + dlen].to_vec()
        } else {
            match vq_wire::header(&w.bytes, dlen) {
                Ok(vq_wire::Header::Long { dcid, .. }) => dcid,
                _ => return,
            }
        };
        let pkts: Vec<(Space, u64)> = w.pkts.iter().map(|(_, s, pn)| (*s, *pn)).collect();
        self.delivered_len
            .entry((dst, at))
            .or_default()
            .push((w.bytes.len(), dcid.clone(), pkts.clone()));
        self.delivered.entry((dst, at)).or_default().push((dcid, pkts));
        if self.delivered.len() > 4096 {
            let cutoff = at.saturating_sub(2_000_000);
            self.delivered.retain(|(_, t), _| *t >= cutoff);
            self.delivered_len.retain(|(_, t), _| *t >= cutoff);
        }
    }

    fn finish(&mut self, cx: &mut Ctx) {
        let _ = self.peer_of(0, 0);
        for c in self.conns.values() {
            cx.summary.max("c13.max_outstanding_cids", c.max_outstanding as i64);
            if let Some(l) = c.peer_limit {
                cx.summary.max("c13.max_peer_limit", l as i64);
            }
        }
    }
}
