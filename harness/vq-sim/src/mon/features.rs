//! Not a property monitor: records which mechanisms an execution actually exercised, for the
//! scenario signature (distinct non-trivial executions) and the evidence counters.

use super::Monitor;
use crate::world::*;
use std::collections::HashMap;

#[derive(Default)]
pub struct Features {
    largest_rx: HashMap<(EpId, u64, Space), u64>,
}

impl Monitor for Features {
    fn on_tx(&mut self, cx: &mut Ctx, p: &Pkt) {
        cx.summary.count("tx_packets", 1);
        if p.parse_error.is_some() {
            cx.summary.count("tx_payload_unparsed_by_reference", 1);
        }
        for f in &p.frames {
            match f {
                Frame::DataBlocked { .. } => cx.feature("blocked_conn_credit"),
                Frame::StreamDataBlocked { .. } => cx.feature("blocked_stream_credit"),
                Frame::StreamsBlocked { .. } => cx.feature("blocked_stream_count"),
                Frame::MaxData { .. } => cx.feature("max_data"),
                Frame::MaxStreamData { .. } => cx.feature("max_stream_data"),
                Frame::MaxStreams { .. } => cx.feature("max_streams"),
                Frame::NewConnectionId { .. } => cx.feature("new_cid"),
                Frame::RetireConnectionId { .. } => cx.feature("retire_cid"),
                Frame::PathChallenge { .. } => cx.feature("path_challenge"),
                Frame::StopSending { .. } => cx.feature("stop_sending"),
                Frame::ResetStream { .. } => cx.feature("reset_stream"),
                _ => {}
            }
        }
    }

    fn on_rx(&mut self, cx: &mut Ctx, p: &Pkt) {
        cx.summary.count("rx_packets", 1);
        if p.parse_error.is_some() {
            cx.summary.count("rx_payload_unparsed_by_reference", 1);
        }
        let e = self.largest_rx.entry((p.ep, p.conn, p.space)).or_insert(0);
        if p.pn < *e {
            cx.feature("reordered_rx");
            cx.summary.max("max_reorder_distance", (*e - p.pn) as i64);
        } else {
            if p.pn > *e + 1 {
                cx.feature("gap_rx");
            }
            *e = p.pn;
        }
    }

    fn on_evt(&mut self, cx: &mut Ctx, _ep: EpId, _conn: u64, _t: u64, e: &Evt) {
        match e {
            Evt::PacketLost { .. } => cx.feature("loss"),
            Evt::Duplicate { .. } => cx.feature("duplicate_rx"),
            Evt::PacketDropped {
                decrypt_failed: true,
                ..
            } => cx.feature("decrypt_failed"),
            Evt::KeyUpdate { .. } => cx.feature("key_update"),
            Evt::ActivePath { .. } => cx.feature("path_migrated"),
            Evt::MtuUpdated { .. } => cx.feature("mtu_updated"),
            Evt::Congestion { .. } => cx.feature("congestion_event"),
            Evt::Closed(k) => {
                cx.summary.set("close_kinds", k.short());
                if !k.is_clean() {
                    cx.feature("error_close");
                }
            }
            Evt::BbrState(s) => cx.summary.set("bbr_states", *s),
            Evt::DatagramDropped { reason, .. } => cx.summary.set("datagram_drop_reasons", reason.clone()),
            Evt::PacketDropped { reason, .. } => cx.summary.set("packet_drop_reasons", reason.clone()),
            _ => {}
        }
    }

    fn on_wire(&mut self, cx: &mut Ctx, _w: &Wire, fate: &Fate) {
        cx.summary.count("datagrams", 1);
        match fate {
            Fate::Drop(r) => {
                cx.summary.count(&format!("net_drop.{r}"), 1);
                cx.feature("net_drop");
            }
            Fate::Deliver {
                copies, mutated, ..
            } => {
                if *copies > 1 {
                    cx.feature("net_dup");
                    cx.summary.count("net_dup", 1);
                }
                if *mutated {
                    cx.feature("net_corrupt");
                    cx.summary.count("net_corrupt", 1);
                }
            }
        }
    }
}
