//! Property monitors: online oracles fed by the taps.

use crate::{params::Params, world::*};

pub mod c01;
pub mod c03;
pub mod c08;
pub mod c09;
pub mod c02;
pub mod c04;
pub mod c06;
pub mod c10;
pub mod c11;
pub mod c12;
pub mod c13;
pub mod c14;
pub mod c15;
pub mod features;

pub trait Monitor: Send {
    fn on_tx(&mut self, _cx: &mut Ctx, _p: &Pkt) {}
    fn on_rx(&mut self, _cx: &mut Ctx, _p: &Pkt) {}
    fn on_evt(&mut self, _cx: &mut Ctx, _ep: EpId, _conn: u64, _t: u64, _e: &Evt) {}
    fn on_cc(&mut self, _cx: &mut Ctx, _o: &CcObs) {}
    fn on_app(&mut self, _cx: &mut Ctx, _ep: EpId, _t: u64, _op: &AppOp) {}
    fn on_wire(&mut self, _cx: &mut Ctx, _w: &Wire, _fate: &Fate) {}
    fn on_delivered(&mut self, _cx: &mut Ctx, _w: &Wire, _at: u64) {}
    fn on_workload_done(&mut self, _cx: &mut Ctx) {}
    fn finish(&mut self, _cx: &mut Ctx) {}
}

pub struct Monitors {
    v: Vec<Box<dyn Monitor>>,
}

impl Monitors {
    pub fn new(p: &Params) -> Self {
        let mut v: Vec<Box<dyn Monitor>> = vec![Box::new(features::Features::default())];
        for m in &p.monitors {
            match m.as_str() {
                "C01" => v.push(Box::new(c01::C01::new(p))),
                "C03" => v.push(Box::new(c03::C03::new(p))),
                "C08" => v.push(Box::new(c08::C08::new(p))),
                "C09" => v.push(Box::new(c09::C09::new(p))),
                "C12" => v.push(Box::new(c12::C12::new(p))),
                "C02" => v.push(Box::new(c02::C02::new(p))),
                "C11" => v.push(Box::new(c11::C11::new(p))),
                "C06" => v.push(Box::new(c06::C06::new(p))),
                "C10" => v.push(Box::new(c10::C10::new(p))),
                "C13" => v.push(Box::new(c13::C13::new(p))),
                "C04" => v.push(Box::new(c04::C04::new(p))),
                "C14" => v.push(Box::new(c14::C14::new(p))),
                "C15" => v.push(Box::new(c15::C15::new(p))),
                other => panic!("unknown monitor {other}"),
            }
        }
        Monitors { v }
    }
    pub fn on_tx(&mut self, cx: &mut Ctx, p: &Pkt) {
        for m in self.v.iter_mut() {
            m.on_tx(cx, p)
        }
    }
    pub fn on_rx(&mut self, cx: &mut Ctx, p: &Pkt) {
        for m in self.v.iter_mut() {
            m.on_rx(cx, p)
        }
    }
    pub fn on_evt(&mut self, cx: &mut Ctx, ep: EpId, conn: u64, t: u64, e: &Evt) {
        for m in self.v.iter_mut() {
            m.on_evt(cx, ep, conn, t, e)
        }
    }
    pub fn on_cc(&mut self, cx: &mut Ctx, o: &CcObs) {
        for m in self.v.iter_mut() {
            m.on_cc(cx, o)
        }
    }
    pub fn on_app(&mut self, cx: &mut Ctx, ep: EpId, t: u64, op: &AppOp) {
        for m in self.v.iter_mut() {
            m.on_app(cx, ep, t, op)
        }
    }
    pub fn on_wire(&mut self, cx: &mut Ctx, w: &Wire, fate: &Fate) {
        for m in self.v.iter_mut() {
            m.on_wire(cx, w, fate)
        }
    }
    pub fn on_delivered(&mut self, cx: &mut Ctx, w: &Wire, at: u64) {
        for m in self.v.iter_mut() {
            m.on_delivered(cx, w, at)
        }
    }
    pub fn on_workload_done(&mut self, cx: &mut Ctx) {
        for m in self.v.iter_mut() {
            m.on_workload_done(cx)
        }
    }
    pub fn finish(&mut self, cx: &mut Ctx) {
        for m in self.v.iter_mut() {
            m.finish(cx)
        }
    }
}
