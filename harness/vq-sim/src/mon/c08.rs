//! C08 — ACKs name only packets really received; prompt acknowledgement; packet numbers
//! strictly increase and reconstruct.
//!
//! (a) every range of every ACK frame in the TX tap is a subset of the packet numbers the
//!     RX tap of that endpoint/connection/space has fired for (authenticated, non-duplicate);
//! (b) every ack-eliciting 1-RTT packet is covered by a transmitted ACK frame within
//!     max_ack_delay (+ granularity); lateness is attributed to a cause, see `late()`;
//! (c) packet numbers in TX-tap order strictly increase per connection and space;
//! (d) a genuine datagram delivered intact is never dropped as DecryptionFailed (a wrong
//!     truncation yields a wrong nonce) while its keys are available.

use super::Monitor;
use crate::{params::Params, world::*};
use std::collections::{BTreeMap, BTreeSet, HashMap};
use vq_util::json;

#[derive(Default)]
struct SpaceState {
    received: BTreeSet<u64>,
    last_tx_pn: Option<u64>,
    /// ack-eliciting packets waiting for an ACK: pn -> (rx time, arrived out of order)
    pending: BTreeMap<u64, (u64, bool)>,
    largest_rx: Option<u64>,
    /// largest packet number of ours the peer has acknowledged, as far as our RX tap has seen
    largest_acked_seen: Option<u64>,
    discarded: bool,
}

#[derive(Default)]
struct Conn {
    spaces: [SpaceState; 3],
    closed: bool,
    close_sent: bool,
    last_tx_t: u64,
    /// time of the last transmission before the current one
    prev_tx_t: u64,
    remote_ports: BTreeSet<u16>,
    handshake_confirmed: bool,
    /// current 1-RTT key generation (KeyUpdate events)
    key_gen: u16,
    /// change points: first 1-RTT packet number tapped at each generation
    tx_gen: Vec<(u64, u16)>,
    /// undecryptable genuine packets of the receiver's own generation, waiting for the next
    /// key update to tell who initiated it (see `Held`)
    held: Vec<Held>,
    last_evt_t: u64,
}

/// A genuine 1-RTT packet that failed to decrypt although sender and receiver were at the same
/// key generation when it was tapped. The sender may have *initiated* the next update with it
/// (KeySet::encryption_phase switches keys at encryption time, the KeyUpdate event only comes
/// with the peer's answer), and a receiver that still retains the previous read keys cannot
/// open such packets yet (RFC 9001 6.5 warns about exactly this). The verdict is deferred to
/// the receiver's next KeyUpdate event: if the update to the next generation completes, the
/// packets are explained; if it does not (or the receiver lives on for 5 s without one) they
/// are reported.
struct Held {
    t: u64,
    gen: u16,
    src: (EpId, u64),
    what: String,
    detail: vq_util::Value,
}

impl Conn {
    /// the generation the endpoint was at when it handed packet `pn` to the tx tap. The packet
    /// may have been protected with the next one (rotation happens at encryption time), never
    /// with an older one.
    fn tx_gen_of(&self, pn: u64) -> u16 {
        self.tx_gen.iter().rev().find(|(first, _)| *first <= pn).map(|(_, g)| *g).unwrap_or(0)
    }
}

pub struct C08 {
    conns: HashMap<(EpId, u64), Conn>,
    mad_us: Vec<u64>,
    /// latest pacer departure time per (ep, remote port)
    edt: HashMap<(EpId, u16), (u64, Option<u64>)>,
    /// genuine intact datagrams delivered: (dst ep, at) -> packets inside
    delivered: HashMap<(EpId, u64), (Vec<(Space, u64, Option<u32>)>, u32)>,
    /// sender of the genuine packets above: (dst ep, at, space, pn) -> (src ep, src conn)
    delivered_src: HashMap<(EpId, u64, u64), (EpId, u64)>,
    net_corrupts: bool,
    /// the scenario runs with tiny AEAD limits (hook H1): endpoints initiate key updates
    limit_driven_key_updates: bool,
    enforce_promptness: bool,
    /// receive buffer size of each endpoint's socket: larger datagrams are truncated there
    max_mtu: Vec<u16>,
}

impl C08 {
    pub fn new(p: &Params) -> Self {
        let mut mad_us = vec![p.server.max_ack_delay_ms * 1000];
        for c in &p.clients {
            mad_us.push(c.cfg.max_ack_delay_ms * 1000);
        }
        C08 {
            conns: HashMap::new(),
            mad_us,
            edt: HashMap::new(),
            delivered: HashMap::new(),
            delivered_src: HashMap::new(),
            net_corrupts: p.net.phases.iter().any(|p| p.corrupt > 0.0 || p.truncate > 0.0),
            limit_driven_key_updates: p.knob("c15_interval") != 0,
            enforce_promptness: p.knob("c08_promptness") != 0 || std::env::var("VQ_C08_PROMPT").is_ok(),
            max_mtu: std::iter::once(p.server.max_mtu)
                .chain(p.clients.iter().map(|c| c.cfg.max_mtu))
                .collect(),
        }
    }
}

const GRANULARITY_US: u64 = 1_000;

impl Monitor for C08 {
    fn on_rx(&mut self, cx: &mut Ctx, p: &Pkt) {
        if let Some((pkts, _)) = self.delivered.get_mut(&(p.ep, p.t)) {
            if let Some(i) = pkts.iter().position(|x| (x.0, x.1) == (p.space, p.pn)) {
                pkts.swap_remove(i);
                cx.summary.count("c08.genuine_authenticated", 1);
            }
        }
        let c = self.conns.entry((p.ep, p.conn)).or_default();
        let s = &mut c.spaces[p.space.idx()];
        if !s.received.insert(p.pn) {
            // the RX tap fired twice for the same packet number: that is C06's business,
            // but it also means the ACK state may be inflated; count it
            cx.summary.count("c08.rx_tap_repeat", 1);
        }
        let out_of_order = match s.largest_rx {
            Some(l) => p.pn != l + 1,
            None => false,
        };
        if s.largest_rx.map(|l| p.pn > l).unwrap_or(true) {
            s.largest_rx = Some(p.pn);
        }
        if p.ack_eliciting() && p.space == Space::App {
            s.pending.insert(p.pn, (p.t, out_of_order));
        }
        for f in &p.frames {
            if let Frame::Ack { largest, .. } = f {
                if s.largest_acked_seen.map(|l| *largest > l).unwrap_or(true) {
                    s.largest_acked_seen = Some(*largest);
                }
            }
        }
        // a packet carrying CONNECTION_CLOSE ends the obligation to acknowledge
        if p.frames.iter().any(|f| matches!(f, Frame::ConnectionClose { .. })) {
            c.closed = true;
        }
    }

    fn on_tx(&mut self, cx: &mut Ctx, p: &Pkt) {
        let mad = self.mad_us.get(p.ep).copied().unwrap_or(25_000);
        let c = self.conns.entry((p.ep, p.conn)).or_default();
        c.prev_tx_t = c.last_tx_t;
        c.last_tx_t = p.t;
        let prev_tx_t = c.prev_tx_t;
        let closed = c.closed;
        let ports: Vec<u16> = c.remote_ports.iter().copied().collect();
        if p.frames.iter().any(|f| matches!(f, Frame::ConnectionClose { .. })) {
            c.close_sent = true;
        }
        let s = &mut c.spaces[p.space.idx()];
        // (c) strictly increasing packet numbers
        if let Some(last) = s.last_tx_pn {
            if p.pn <= last {
                cx.violate(
                    "C08",
                    "pn-not-increasing",
                    format!("ep{} c{} {:?}: packet number {} sent after {}", p.ep, p.conn, p.space, p.pn, last),
                    json!({"ep": p.ep, "conn": p.conn, "space": format!("{:?}", p.space), "pn": p.pn, "prev": last}),
                );
            } else if p.pn > last + 1 {
                cx.summary.count("c08.pn_gaps", 1);
            }
        }
        s.last_tx_pn = Some(p.pn);
        cx.summary.count("c08.tx_packets", 1);
        if p.space == Space::App && c.tx_gen.last().map(|(_, g)| *g) != Some(c.key_gen) {
            c.tx_gen.push((p.pn, c.key_gen));
        }

        for f in &p.frames {
            let Frame::Ack { ranges, .. } = f else { continue };
            cx.summary.count("c08.ack_frames", 1);
            for (lo, hi) in ranges {
                cx.summary.count("c08.ack_ranges", 1);
                let n = s.received.range(*lo..=*hi).count() as u64;
                if n != hi - lo + 1 {
                    let missing: Vec<u64> = (*lo..=*hi)
                        .filter(|x| !s.received.contains(x))
                        .take(8)
                        .collect();
                    cx.violate(
                        "C08",
                        "ack-of-unreceived",
                        format!(
                            "ep{} c{} {:?}: ACK range {lo}..={hi} covers packet numbers never received/processed: {missing:?}",
                            p.ep, p.conn, p.space
                        ),
                        json!({"ep": p.ep, "conn": p.conn, "space": format!("{:?}", p.space), "range": [lo, hi], "missing": missing, "pkt": p.brief()}),
                    );
                }
                // (b) promptness bookkeeping
                if p.space == Space::App {
                    let covered: Vec<u64> = s.pending.range(*lo..=*hi).map(|(k, _)| *k).collect();
                    for pn in covered {
                        let (t_rx, ooo) = s.pending.remove(&pn).unwrap();
                        let lat = p.t.saturating_sub(t_rx);
                        cx.summary.count("c08.acks_timed", 1);
                        cx.summary.max("c08.max_ack_latency_us", lat as i64);
                        let bound = mad + 2 * GRANULARITY_US;
                        if ooo {
                            // measured only: how quickly are packets that arrive out of order
                            // acknowledged (RFC 9000 13.2.1: SHOULD be immediate)
                            cx.summary.count("c08.out_of_order_acks_timed", 1);
                            if lat > 2 * GRANULARITY_US {
                                cx.summary.count("c08.out_of_order_ack_not_immediate", 1);
                                cx.summary.max("c08.out_of_order_ack_max_us", lat as i64);
                            }
                        }
                        if lat > bound {
                            // attribute the lateness
                            let mut cause = "unexplained";
                            if closed {
                                cause = "closing";
                            } else {
                                // was the pacer holding the connection back until just now? (the
                                // departure time recorded at the last controller call before this
                                // packet lies after the ack was due and is only now reached)
                                let _ = prev_tx_t;
                                for port in &ports {
                                    if let Some((_, Some(edt))) = self.edt.get(&(p.ep, *port)) {
                                        if *edt + GRANULARITY_US >= p.t && *edt > t_rx + mad {
                                            cause = "held-by-pacer";
                                        }
                                    }
                                }
                            }
                            cx.summary.count(&format!("c08.late_ack.{cause}"), 1);
                            cx.summary
                                .max(&format!("c08.late_ack_max_us.{cause}"), lat as i64);
                            if self.enforce_promptness && cause != "closing" {
                                cx.violate(
                                    "C08",
                                    format!("late-ack:{cause}"),
                                    format!(
                                        "ep{} c{}: ack-eliciting packet {pn} received at {}us was first acknowledged {}us later (max_ack_delay {}us, out-of-order={ooo}); cause: {cause}",
                                        p.ep, p.conn, t_rx, lat, mad
                                    ),
                                    json!({"ep": p.ep, "conn": p.conn, "pn": pn, "rx_t": t_rx, "ack_t": p.t, "max_ack_delay_us": mad, "cause": cause}),
                                );
                            }
                        }
                    }
                }
            }
        }
    }

    fn on_cc(&mut self, _cx: &mut Ctx, o: &CcObs) {
        self.edt.insert((o.ep, o.peer_port), (o.now_us, o.edt_us));
    }

    fn on_evt(&mut self, cx: &mut Ctx, ep: EpId, conn: u64, t: u64, e: &Evt) {
        if conn == u64::MAX {
            return;
        }
        // (d) candidates protected before the sender followed a key update (see below)
        let old_gen_pns: Vec<u64> = match e {
            Evt::PacketDropped { decrypt_failed: true, .. } => {
                let my_gen = self.conns.get(&(ep, conn)).map(|c| c.key_gen).unwrap_or(0);
                self.delivered
                    .get(&(ep, t))
                    .map(|(pkts, _)| {
                        pkts.iter()
                            .filter(|(s, pn, _)| {
                                *s == Space::App
                                    && self
                                        .delivered_src
                                        .get(&(ep, t, *pn))
                                        .and_then(|src| self.conns.get(src))
                                        .map(|sc| sc.tx_gen_of(*pn) < my_gen)
                                        .unwrap_or(false)
                            })
                            .map(|x| x.1)
                            .collect()
                    })
                    .unwrap_or_default()
            }
            _ => Vec::new(),
        };
        // (d) candidates tapped while their sender was at the receiver's own generation
        let same_gen: Vec<(u64, (EpId, u64))> = match e {
            Evt::PacketDropped { decrypt_failed: true, .. } => {
                let my_gen = self.conns.get(&(ep, conn)).map(|c| c.key_gen).unwrap_or(0);
                self.delivered
                    .get(&(ep, t))
                    .map(|(pkts, _)| {
                        pkts.iter()
                            .filter(|(s, _, _)| *s == Space::App)
                            .filter_map(|(_, pn, _)| {
                                let src = *self.delivered_src.get(&(ep, t, *pn))?;
                                (self.conns.get(&src)?.tx_gen_of(*pn) == my_gen).then_some((*pn, src))
                            })
                            .collect()
                    })
                    .unwrap_or_default()
            }
            _ => Vec::new(),
        };
        // the receiver rotates: held packets of the generation before are resolved now
        if let Evt::KeyUpdate { generation } = e {
            let held = self.conns.get_mut(&(ep, conn)).map(|c| std::mem::take(&mut c.held)).unwrap_or_default();
            for h in held {
                let sender_gen = self.conns.get(&h.src).map(|c| c.key_gen);
                if h.gen + 1 == *generation && (sender_gen == Some(h.gen) || sender_gen == Some(h.gen + 1)) {
                    // the update to the next generation completes: the held packets may have
                    // been protected with the next keys (their sender initiating) while the
                    // receiver still retained the previous ones. The order of the two
                    // KeyUpdate events does not settle who initiated - both ends reach their
                    // limit at about the same time and may both initiate - so this is as
                    // much as can be said from outside.
                    cx.summary.count(if sender_gen == Some(h.gen) { "c08.undecryptable_next_key_generation" } else { "c08.undecryptable_next_key_generation_both_initiating" }, 1);
                    cx.feature("next_generation_packet_during_retention");
                } else {
                    cx.violate("C08", "genuine-packet-undecryptable", h.what, h.detail);
                }
            }
        }
        let c = self.conns.entry((ep, conn)).or_default();
        c.last_evt_t = t;
        match e {
            Evt::Started { remote_port, .. } => {
                c.remote_ports.insert(*remote_port);
            }
            Evt::ActivePath { remote_port, .. } => {
                c.remote_ports.insert(*remote_port);
            }
            Evt::RxAckRangeDropped { lo, hi } => {
                cx.feature("ack_range_evicted");
                let s = &mut c.spaces[Space::App.idx()];
                let ks: Vec<u64> = s.pending.range(*lo..=*hi).map(|(k, _)| *k).collect();
                for k in ks {
                    s.pending.remove(&k);
                }
            }
            Evt::SpaceDiscarded { space } => {
                c.spaces[space.idx()].discarded = true;
                c.spaces[space.idx()].pending.clear();
            }
            Evt::Closed(_) => {
                c.closed = true;
            }
            Evt::Handshake { status } => {
                if *status == "confirmed" {
                    c.handshake_confirmed = true;
                }
            }
            Evt::KeyUpdate { generation } => {
                c.key_gen = *generation;
            }
            Evt::PacketDropped {
                decrypt_failed: true,
                space_pn,
                reason,
            } => {
                cx.summary.count("c08.decrypt_failed_events", 1);
                // (d) was a genuine intact datagram delivered to this endpoint at this instant?
                if let Some((pkts, nonintact)) = self.delivered.get_mut(&(ep, t)) {
                    if *nonintact > 0 {
                        // a garbled / truncated / forged datagram arrived at the same instant:
                        // the failure is attributed to it
                        *nonintact -= 1;
                        cx.summary.count("c08.decrypt_failed_attributed_to_nonintact", 1);
                    } else {
                        // packets that arrived so late that the receiver's largest received
                        // number has moved beyond the truncation window cannot be expanded
                        // (RFC 9000 A.3 only promises it relative to the window): not candidates
                        let mut late = 0;
                        pkts.retain(|(s, pn, bits)| {
                            if let (Some(bits), Some(lr)) = (bits, c.spaces[s.idx()].largest_rx) {
                                let bits = bits * 8;
                                let mask = if bits >= 64 { u64::MAX } else { (1u64 << bits) - 1 };
                                if vq_wire::pn_decode(Some(lr), pn & mask, bits) != *pn {
                                    late += 1;
                                    return false;
                                }
                            }
                            true
                        });
                        if late > 0 {
                            cx.summary.count("c08.undecodable_beyond_window", late);
                            cx.feature("late_beyond_pn_window");
                        }
                        // Initial packets are protected with keys derived from the destination
                        // id of the client's first flight, which changes with a Retry: a
                        // delayed copy of a pre-Retry Initial is routed to the connection (by
                        // its original id) and legitimately fails there. Only the spaces whose
                        // keys are fixed per connection are candidates.
                        let initial_only = matches!(space_pn, Some((Space::Initial, _)))
                            || pkts.iter().all(|(s, _, _)| *s == Space::Initial);
                        // RFC 9001 6.5: read keys of the previous generation are only retained
                        // for a while after an update; a packet the sender protected before it
                        // followed the update and that arrives after the receiver let go of the
                        // old keys is legitimately undecryptable. The monitor cannot see the
                        // retention timer, so such packets are never candidates.
                        let mut old_gen = 0;
                        pkts.retain(|(s, pn, _)| {
                            if *s == Space::App && old_gen_pns.contains(pn) {
                                old_gen += 1;
                                return false;
                            }
                            true
                        });
                        if old_gen > 0 {
                            cx.summary.count("c08.undecryptable_previous_key_generation", old_gen);
                            cx.feature("old_generation_packet_after_update");
                        }
                        let late = late + old_gen;
                        let relevant = late == 0
                            && !initial_only
                            && match space_pn {
                                Some((sp, _)) => pkts.iter().any(|(s, _, _)| s == sp),
                                None => !pkts.is_empty(),
                            };
                        let discarded = space_pn
                            .map(|(sp, _)| c.spaces[sp.idx()].discarded)
                            .unwrap_or(false);
                        if relevant && !discarded && !c.closed {
                            let pk = pkts.clone();
                            let what = format!(
                                "ep{ep} c{conn}: a genuine, intact datagram delivered at {t}us (not yet authenticated packets of that instant: {pk:?}) was dropped: {reason} (receiver reconstructed {space_pn:?})"
                            );
                            let detail = json!({"ep": ep, "conn": conn, "t": t, "sent": format!("{pk:?}"), "reconstructed": format!("{space_pn:?}")});
                            // every candidate is a 1-RTT packet of the receiver's own generation:
                            // possibly the first packets of an update the sender initiates
                            let src = same_gen.first().map(|x| x.1);
                            let all_same_gen = !pk.is_empty()
                                && pk.iter().all(|(s, pn, _)| *s == Space::App && same_gen.iter().any(|(q, sr)| q == pn && Some(*sr) == src));
                            match src {
                                Some(src) if all_same_gen && self.limit_driven_key_updates => {
                                    cx.summary.count("c08.undecryptable_held_until_next_key_update", 1);
                                    if c.held.len() < 4096 {
                                        c.held.push(Held { t, gen: c.key_gen, src, what, detail });
                                    }
                                }
                                _ => cx.violate("C08", "genuine-packet-undecryptable", what, detail),
                            }
                        }
                    }
                }
            }
            _ => {}
        }
    }

    fn on_wire(&mut self, cx: &mut Ctx, w: &Wire, _fate: &Fate) {
        // (d) sender side: the truncated packet number must expand to the full one for a peer
        // that knows nothing but the largest packet number it has acknowledged
        if w.injected {
            return;
        }
        let Some(src) = w.src else { return };
        let Some(m) = cx.dgram_meta.get(&vq_util::fnv(&w.bytes)) else { return };
        let (Some(n), Some((conn, space, pn))) = (m.pn_len, m.pkts.first().copied()) else {
            return;
        };
        let Some(c) = self.conns.get(&(src, conn)) else { return };
        let la = c.spaces[space.idx()].largest_acked_seen;
        let bits = n * 8;
        let mask = (1u64 << bits) - 1;
        cx.summary.count("c08.truncations_checked", 1);
        cx.summary.count(&format!("c08.pn_len_{n}"), 1);
        let got = vq_wire::pn_decode(la, pn & mask, bits);
        if got != pn {
            cx.violate(
                "C08",
                "pn-truncation-ambiguous",
                format!(
                    "ep{src} c{conn} {space:?}: packet {pn} was sent with a {n}-byte packet number while the largest acknowledged is {la:?}: a peer expanding it from that knowledge obtains {got}"
                ),
                json!({"ep": src, "conn": conn, "pn": pn, "pn_len": n, "largest_acked": la, "decoded": got}),
            );
        } else if n < 4 {
            // how close to the edge of the window was it?
            let dist = pn - la.map(|l| l + 1).unwrap_or(0);
            cx.summary.max("c08.max_pn_distance_over_window_permille", (dist * 1000 / (1u64 << (bits - 1))) as i64);
        }
    }

    fn on_delivered(&mut self, cx: &mut Ctx, w: &Wire, at: u64) {
        let Some(dst) = w.dst else { return };
        if w.injected || w.pkts.is_empty() {
            // garbled in transit / forged / not produced by a connection: may fail decryption
            self.delivered.entry((dst, at)).or_default().1 += 1;
            return;
        }
        if w.bytes.len() > self.max_mtu.get(dst).copied().unwrap_or(u16::MAX) as usize {
            // the receiving socket's buffer is max_mtu bytes: the datagram arrives truncated
            cx.summary.count("c08.deliveries_truncated_by_receiver_mtu", 1);
            self.delivered.entry((dst, at)).or_default().1 += 1;
            return;
        }
        cx.summary.count("c08.genuine_deliveries", 1);
        let pn_len = cx
            .dgram_meta
            .get(&vq_util::fnv(&w.bytes))
            .and_then(|m| m.pn_len);
        self.delivered
            .entry((dst, at))
            .or_default()
            .0
            .extend(w.pkts.iter().map(|(_, s, pn)| (*s, *pn, pn_len)));
        if let Some(src) = w.src {
            for (conn, s, pn) in &w.pkts {
                if *s == Space::App {
                    self.delivered_src.insert((dst, at, *pn), (src, *conn));
                }
            }
        }
        // keep the map small
        if self.delivered.len() > 4096 {
            let cutoff = at.saturating_sub(2_000_000);
            self.delivered.retain(|(_, t), _| *t >= cutoff);
            self.delivered_src.retain(|(_, t, _), _| *t >= cutoff);
        }
    }

    fn finish(&mut self, cx: &mut Ctx) {
        let _ = self.net_corrupts;
        // acks still owed at the end of the run: only count, the run may simply have ended
        let mut owed = 0u64;
        for c in self.conns.values() {
            if !c.closed && !c.close_sent {
                owed += c.spaces[Space::App.idx()].pending.len() as u64;
            }
        }
        cx.summary.count("c08.acks_owed_at_end", owed);
        // held packets whose receiver never rotated again: if it lived on for more than 5 s
        // (virtual) nothing explains them; if the run or the connection ended before, the
        // question stays open and is only counted
        let mut late = Vec::new();
        for c in self.conns.values_mut() {
            for h in std::mem::take(&mut c.held) {
                if c.last_evt_t.saturating_sub(h.t) >= 5_000_000 {
                    late.push(h);
                } else {
                    cx.summary.count("c08.undecryptable_unresolved_at_end", 1);
                }
            }
        }
        for h in late {
            cx.violate("C08", "genuine-packet-undecryptable", format!("{} - and no key update followed within 5 s", h.what), h.detail);
        }
    }
}
