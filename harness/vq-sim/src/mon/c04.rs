//! C04 — peer protocol violations are rejected with the right error; buffering is bounded.
//!
//! Victim = an unmodified endpoint with all taps. Attacker = an honest s2n-quic peer whose
//! packet interceptor (attacker mode) replaces the cleartext payload of one outgoing packet
//! with frames that break a transport rule (`Attack`). Oracle:
//!  (1) once the victim has authenticated the attack packet it closes the connection with a
//!      transport error whose code is the one RFC 9000 prescribes for that violation or a
//!      generic one section 11 permits (PROTOCOL_VIOLATION, INTERNAL_ERROR) — on the
//!      `connection_closed` event and on the CONNECTION_CLOSE frame it sends;
//!  (2) none of the offending bytes reaches the victim's application (C01's monitor, which
//!      runs alongside, compares everything handed out with the honest PRF stream);
//!  (3) credit bound, on every run: MAX_STREAM_DATA <= bytes the application consumed on that
//!      stream + configured stream window, MAX_DATA <= total consumed (+ final sizes of reset
//!      / stopped streams) + configured connection window, MAX_STREAMS <= peer-opened streams
//!      seen + configured limit;
//!  benign near-miss controls (a frame exactly at the limit) must not close the connection.

use super::Monitor;
use crate::{params::*, taps::Rewriter, world::*};
use std::collections::{BTreeMap, HashMap};
use vq_util::{json, Rng};
use vq_wire::put_varint;

pub const E_INTERNAL: u64 = 0x1;
pub const E_FLOW_CONTROL: u64 = 0x3;
pub const E_STREAM_LIMIT: u64 = 0x4;
pub const E_STREAM_STATE: u64 = 0x5;
pub const E_FINAL_SIZE: u64 = 0x6;
pub const E_FRAME_ENCODING: u64 = 0x7;
pub const E_PROTOCOL_VIOLATION: u64 = 0xa;
pub const E_CRYPTO_BUFFER: u64 = 0xd;

#[derive(Clone, Copy, Debug, PartialEq, Eq, PartialOrd, Ord)]
pub enum Attack {
    StreamBeyondStreamLimit,
    StreamAtStreamLimit, // control
    StreamBeyondConnLimit,
    StreamIdBeyondMaxStreams,
    StreamIdAtMaxStreams, // control
    DataBeyondFinalSize,
    SecondFinDifferent,
    ResetBelowReceived,
    StreamOnPeerUniStream,
    StreamOnUnopenedPeerBidi,
    MaxStreamDataOnOwnUni,
    StopSendingOnOwnUni,
    MaxStreamsTooLarge,
    NewCidRetireBeyondSeq,
    NewCidBadLength,
    HandshakeDoneFromClient,
    NewTokenFromClient,
    StreamInHandshakeSpace,
    MaxDataInInitialSpace,
    CryptoBeyondBuffer,
    ResetBeyondStreamLimit,
    /// two packets: data on a fresh stream, and - a few packets later, when the victim's
    /// application has long read it - a FIN whose final size lies below that data
    FinBelowConsumed,
}

pub const ALL_ATTACKS: &[Attack] = &[
    Attack::StreamBeyondStreamLimit,
    Attack::StreamAtStreamLimit,
    Attack::StreamBeyondConnLimit,
    Attack::StreamIdBeyondMaxStreams,
    Attack::StreamIdAtMaxStreams,
    Attack::DataBeyondFinalSize,
    Attack::SecondFinDifferent,
    Attack::ResetBelowReceived,
    Attack::StreamOnPeerUniStream,
    Attack::StreamOnUnopenedPeerBidi,
    Attack::MaxStreamDataOnOwnUni,
    Attack::StopSendingOnOwnUni,
    Attack::MaxStreamsTooLarge,
    Attack::NewCidRetireBeyondSeq,
    Attack::NewCidBadLength,
    Attack::HandshakeDoneFromClient,
    Attack::NewTokenFromClient,
    Attack::StreamInHandshakeSpace,
    Attack::MaxDataInInitialSpace,
    Attack::CryptoBeyondBuffer,
    Attack::ResetBeyondStreamLimit,
    Attack::FinBelowConsumed,
];

impl Attack {
    pub fn is_control(self) -> bool {
        matches!(self, Attack::StreamAtStreamLimit | Attack::StreamIdAtMaxStreams)
    }
    /// only a client can mount it
    pub fn client_only(self) -> bool {
        matches!(self, Attack::HandshakeDoneFromClient | Attack::NewTokenFromClient)
    }
    pub fn space(self) -> Space {
        match self {
            Attack::StreamInHandshakeSpace | Attack::CryptoBeyondBuffer => Space::Handshake,
            Attack::MaxDataInInitialSpace => Space::Initial,
            _ => Space::App,
        }
    }
    /// transport error codes RFC 9000 prescribes (generic codes are added by the monitor)
    pub fn prescribed(self) -> &'static [u64] {
        match self {
            Attack::StreamBeyondStreamLimit | Attack::StreamBeyondConnLimit | Attack::ResetBeyondStreamLimit => &[E_FLOW_CONTROL],
            Attack::StreamIdBeyondMaxStreams => &[E_STREAM_LIMIT],
            Attack::DataBeyondFinalSize | Attack::SecondFinDifferent | Attack::ResetBelowReceived | Attack::FinBelowConsumed => &[E_FINAL_SIZE],
            Attack::StreamOnPeerUniStream
            | Attack::StreamOnUnopenedPeerBidi
            | Attack::MaxStreamDataOnOwnUni
            | Attack::StopSendingOnOwnUni => &[E_STREAM_STATE],
            // 19.11: MUST be FRAME_ENCODING_ERROR; 4.6 also names STREAM_LIMIT_ERROR for the same condition
            Attack::MaxStreamsTooLarge => &[E_FRAME_ENCODING, E_STREAM_LIMIT],
            Attack::NewCidRetireBeyondSeq | Attack::NewCidBadLength => &[E_FRAME_ENCODING],
            Attack::HandshakeDoneFromClient | Attack::NewTokenFromClient => &[E_PROTOCOL_VIOLATION],
            Attack::StreamInHandshakeSpace | Attack::MaxDataInInitialSpace => &[E_PROTOCOL_VIOLATION],
            Attack::CryptoBeyondBuffer => &[E_CRYPTO_BUFFER],
            Attack::StreamAtStreamLimit | Attack::StreamIdAtMaxStreams => &[],
        }
    }
}

// ---- tiny frame encoder (the harness' own; RFC 9000 section 19)

fn stream(out: &mut Vec<u8>, id: u64, offset: u64, data: &[u8], fin: bool) {
    out.push(0x08 | 0x04 | 0x02 | fin as u8);
    put_varint(out, id);
    put_varint(out, offset);
    put_varint(out, data.len() as u64);
    out.extend_from_slice(data);
}

fn pad_to(out: &mut Vec<u8>, n: usize, cap: usize) {
    while out.len() < n.min(cap) {
        out.push(0);
    }
}

/// what the attacker needs to know about the victim's configuration
#[derive(Clone, Debug)]
pub struct VictimView {
    pub attacker_is_client: bool,
    pub bidi_remote_window: u64,
    pub uni_window: u64,
    pub data_window: u64,
    pub max_remote_bidi: u64,
    pub max_remote_uni: u64,
    /// number of bidirectional / unidirectional streams the honest workload of the attacker opens
    pub honest_bidi_streams: u64,
    pub honest_uni_streams: u64,
}

/// Builds the payload-rewriting closure for one attack.
pub fn rewriter(attack: Attack, v: VictimView, after_packets: u32, seed: u64) -> Rewriter {
    let mut count = 0u32;
    let mut done = false;
    // second step of a two-packet attack: (ack-eliciting packets still to let pass, frames)
    let mut step2: Option<(u32, Vec<u8>)> = None;
    let mut r = Rng::new(seed ^ 0xa77ac);
    Box::new(move |p: &Pkt, cap: usize| -> Option<Vec<u8>> {
        if let Some((wait, frames)) = step2.as_mut() {
            if p.space != Space::App || !p.ack_eliciting() || p.frames.iter().any(|f| matches!(f, Frame::ConnectionClose { .. })) {
                return None;
            }
            if *wait > 0 {
                *wait -= 1;
                return None;
            }
            let mut out = std::mem::take(frames);
            step2 = None;
            out.push(0x01);
            let want = out.len() + 8;
            pad_to(&mut out, want, cap);
            return if out.len() <= cap { Some(out) } else { None };
        }
        if done || p.space != attack.space() {
            return None;
        }
        // only replace packets that are ack-eliciting anyway and not closing
        if p.frames.iter().any(|f| matches!(f, Frame::ConnectionClose { .. })) {
            return None;
        }
        if attack.space() == Space::App {
            // let the handshake finish and an honest prefix pass
            if !p.ack_eliciting() {
                return None;
            }
            count += 1;
            if count <= after_packets {
                return None;
            }
        } else if !p.frames.iter().any(|f| matches!(f, Frame::Crypto { .. })) {
            return None;
        }
        done = true;
        // stream ids from the attacker's point of view
        let my_bit = if v.attacker_is_client { 0 } else { 1 };
        let peer_bit = 1 - my_bit;
        // a fresh bidirectional stream of the attacker, beyond the ones its honest app uses
        let fresh_idx = v.honest_bidi_streams;
        let fresh_bidi = 4 * fresh_idx + my_bit;
        let mut garbage = vec![0u8; 32];
        r.fill(&mut garbage);
        let mut out = Vec::new();
        match attack {
            Attack::StreamBeyondStreamLimit => {
                if fresh_idx >= v.max_remote_bidi {
                    return None;
                }
                // last byte lands one beyond the limit of a stream that never got MAX_STREAM_DATA
                stream(&mut out, fresh_bidi, v.bidi_remote_window, &garbage[..1], false);
            }
            Attack::StreamAtStreamLimit => {
                if fresh_idx >= v.max_remote_bidi || v.bidi_remote_window == 0 || v.bidi_remote_window > v.data_window / 2 {
                    return None;
                }
                // exactly at the limit: fine. (content is garbage for a stream nobody reads)
                stream(&mut out, fresh_bidi, v.bidi_remote_window - 1, &garbage[..1], false);
            }
            Attack::StreamBeyondConnLimit => {
                if fresh_idx >= v.max_remote_bidi {
                    return None;
                }
                stream(&mut out, fresh_bidi, (1 << 40) + r.range(0, 1000), &garbage[..1], false);
            }
            Attack::StreamIdBeyondMaxStreams => {
                let delta = *r.pick(&[0u64, 1, 5, 1000]);
                stream(&mut out, 4 * (v.max_remote_bidi + delta) + my_bit, 0, &garbage[..1], false);
            }
            Attack::StreamIdAtMaxStreams => {
                if v.max_remote_bidi == 0 || v.max_remote_bidi <= fresh_idx {
                    return None;
                }
                stream(&mut out, 4 * (v.max_remote_bidi - 1) + my_bit, 0, &[], false);
            }
            Attack::DataBeyondFinalSize => {
                if fresh_idx >= v.max_remote_bidi || v.bidi_remote_window < 64 {
                    return None;
                }
                stream(&mut out, fresh_bidi, 0, &garbage[..10], true);
                stream(&mut out, fresh_bidi, 20, &garbage[..4], false);
            }
            Attack::SecondFinDifferent => {
                if fresh_idx >= v.max_remote_bidi || v.bidi_remote_window < 64 {
                    return None;
                }
                stream(&mut out, fresh_bidi, 0, &garbage[..10], true);
                stream(&mut out, fresh_bidi, 0, &garbage[..5], true);
            }
            Attack::ResetBelowReceived => {
                if fresh_idx >= v.max_remote_bidi || v.bidi_remote_window < 64 {
                    return None;
                }
                stream(&mut out, fresh_bidi, 0, &garbage[..20], false);
                out.push(0x04);
                put_varint(&mut out, fresh_bidi);
                put_varint(&mut out, 7);
                put_varint(&mut out, 5);
            }
            Attack::FinBelowConsumed => {
                // a fresh unidirectional stream of the attacker (the victim only receives on it)
                let idx = v.honest_uni_streams;
                let fresh_uni = 4 * idx + 2 + my_bit;
                if idx >= v.max_remote_uni || v.uni_window < 64 {
                    return None;
                }
                stream(&mut out, fresh_uni, 0, &garbage[..20], false);
                let mut second = Vec::new();
                let off = r.range(0, 4);
                stream(&mut second, fresh_uni, off, &garbage[off as usize..off as usize + r.range(0, 3) as usize], true);
                step2 = Some((r.range(2, 8) as u32, second));
            }
            Attack::ResetBeyondStreamLimit => {
                if fresh_idx >= v.max_remote_bidi {
                    return None;
                }
                out.push(0x04);
                put_varint(&mut out, fresh_bidi);
                put_varint(&mut out, 7);
                put_varint(&mut out, v.bidi_remote_window + 1 + *r.pick(&[0u64, 1, 1 << 30]));
            }
            Attack::StreamOnPeerUniStream => {
                // a unidirectional stream only the victim may send on (one it has not opened:
                // frames for streams that are already closed are ignored by design)
                stream(&mut out, 4 * r.range(50, 90) + 2 + peer_bit, 0, &garbage[..3], false);
            }
            Attack::StreamOnUnopenedPeerBidi => {
                // a bidirectional stream the victim has not opened
                stream(&mut out, 4 * r.range(50, 90) + peer_bit, 0, &garbage[..3], false);
            }
            Attack::MaxStreamDataOnOwnUni => {
                // MAX_STREAM_DATA for a stream the victim can only receive on
                out.push(0x11);
                put_varint(&mut out, 4 * (v.honest_uni_streams + r.range(0, 2)) + 2 + my_bit);
                put_varint(&mut out, 100_000);
            }
            Attack::StopSendingOnOwnUni => {
                out.push(0x05);
                put_varint(&mut out, 4 * (v.honest_uni_streams + r.range(0, 2)) + 2 + my_bit);
                put_varint(&mut out, 3);
            }
            Attack::MaxStreamsTooLarge => {
                out.push(if r.chance(1, 2) { 0x12 } else { 0x13 });
                put_varint(&mut out, (1 << 60) + r.range(1, 1000));
            }
            Attack::NewCidRetireBeyondSeq => {
                out.push(0x18);
                put_varint(&mut out, 40);
                put_varint(&mut out, 41);
                out.push(8);
                out.extend_from_slice(&garbage[..8]);
                out.extend_from_slice(&garbage[8..24]);
            }
            Attack::NewCidBadLength => {
                out.push(0x18);
                put_varint(&mut out, 40);
                put_varint(&mut out, 0);
                let len = if r.chance(1, 2) { 0u8 } else { 21 };
                out.push(len);
                out.extend_from_slice(&garbage[..len as usize]);
                out.extend_from_slice(&garbage[..16]);
            }
            Attack::HandshakeDoneFromClient => out.push(0x1e),
            Attack::NewTokenFromClient => {
                out.push(0x07);
                put_varint(&mut out, 8);
                out.extend_from_slice(&garbage[..8]);
            }
            Attack::StreamInHandshakeSpace => stream(&mut out, my_bit, 0, &garbage[..4], false),
            Attack::MaxDataInInitialSpace => {
                out.push(0x10);
                put_varint(&mut out, 1_000_000);
            }
            Attack::CryptoBeyondBuffer => {
                out.push(0x06);
                put_varint(&mut out, (1 << 30) + r.range(0, 1 << 20));
                put_varint(&mut out, 4);
                out.extend_from_slice(&garbage[..4]);
            }
        }
        // keep the packet ack-eliciting and of a plausible size
        out.push(0x01);
        let want = if attack.space() == Space::Initial { cap } else { out.len() + 8 };
        pad_to(&mut out, want, cap);
        if out.len() > cap {
            return None;
        }
        Some(out)
    })
}

// ---------------------------------------------------------------------------

#[derive(Default)]
struct StreamCredit {
    consumed: u64,
    highest_rx: u64,
    reset_final: Option<u64>,
    stopped: bool,
}

#[derive(Default)]
struct EpCredit {
    streams: BTreeMap<u64, StreamCredit>,
    /// per stream type bits: highest peer-opened index seen + 1
    opened_seen: HashMap<u64, u64>,
}

pub struct C04 {
    attack: Option<Attack>,
    attacker: EpId,
    victim: EpId,
    seed: u64,
    cfg: Vec<EpCfg>,
    credit: HashMap<(EpId, u64), EpCredit>,
    /// stream -> consumed bytes reported by the application tap, per (ep, client)
    conn_client: HashMap<(EpId, u64), EpId>,
    attack_rx_t: Option<u64>,
    step1_rx: bool,
    victim_closed: HashMap<u64, (u64, CloseKind)>,
    victim_close_frame: HashMap<u64, (bool, u64)>,
    victim_sent_any: std::collections::HashSet<u64>,
    attack_conn: Option<u64>,
    victim_max_streams_bidi: u64,
    attack_became_benign: bool,
    /// bidirectional streams the attacker's honest application has opened
    attacker_opened_bidi: u64,
    errors: Vec<String>,
}

impl C04 {
    pub fn new(p: &Params) -> Self {
        let attack = p
            .knobs
            .get("c04_attack")
            .map(|i| ALL_ATTACKS[*i as usize % ALL_ATTACKS.len()]);
        let attacker = p.knob("c04_attacker") as usize;
        C04 {
            attack,
            attacker,
            victim: if attacker == SERVER { 1 } else { SERVER },
            seed: p.seed,
            cfg: std::iter::once(p.server.clone())
                .chain(p.clients.iter().map(|c| c.cfg.clone()))
                .collect(),
            credit: HashMap::new(),
            conn_client: HashMap::new(),
            attack_rx_t: None,
            step1_rx: false,
            victim_closed: HashMap::new(),
            victim_close_frame: HashMap::new(),
            victim_sent_any: Default::default(),
            attack_conn: None,
            victim_max_streams_bidi: 0,
            attack_became_benign: false,
            attacker_opened_bidi: 0,
            errors: Vec::new(),
        }
    }

    fn window_for(cfg: &EpCfg, ep: EpId, id: u64) -> u64 {
        let i_am_server = ep == SERVER;
        let by_server = id & 1 == 1;
        if id & 2 == 2 {
            cfg.uni_window
        } else if by_server == i_am_server {
            cfg.bidi_local_window
        } else {
            cfg.bidi_remote_window
        }
    }
}

impl Monitor for C04 {
    fn on_evt(&mut self, cx: &mut Ctx, ep: EpId, conn: u64, t: u64, e: &Evt) {
        match e {
            Evt::Started { remote_port, .. } => {
                let client = if ep == SERVER { cx.ep_of_port(*remote_port) } else { Some(ep) };
                if let Some(c) = client {
                    self.conn_client.insert((ep, conn), c);
                }
            }
            Evt::Closed(k) => {
                if ep == self.victim {
                    self.victim_closed.entry(conn).or_insert((t, k.clone()));
                }
                if !k.is_clean() {
                    self.errors.push(format!("ep{ep} c{conn}: {}", k.short()));
                }
                cx.summary.set("c04.close_kinds", k.short());
            }
            _ => {}
        }
    }

    fn on_app(&mut self, _cx: &mut Ctx, ep: EpId, _t: u64, op: &AppOp) {
        if let AppOp::Opened { stream } = op {
            if ep == self.attacker && stream & 2 == 0 {
                self.attacker_opened_bidi += 1;
            }
        }
        // consumption as seen at the application boundary
        let (flow, n, stop) = match op {
            AppOp::RecvChunk { flow, data, .. } => (*flow, data.len() as u64, false),
            AppOp::Drained { flow, n } => (*flow, *n, false),
            AppOp::StopSending { flow, .. } => (*flow, 0, true),
            _ => return,
        };
        if flow.receiver() != ep {
            return;
        }
        // find the connection of `ep` that belongs to flow.client
        // (the latest one: earlier connection attempts of that client may have died)
        let conn = self
            .conn_client
            .iter()
            .filter(|((e, _), c)| *e == ep && **c == flow.client)
            .map(|((_, c), _)| *c)
            .max();
        let Some(conn) = conn else { return };
        let s = self
            .credit
            .entry((ep, conn))
            .or_default()
            .streams
            .entry(flow.stream)
            .or_default();
        s.consumed += n;
        s.stopped |= stop;
    }

    fn on_rx(&mut self, cx: &mut Ctx, p: &Pkt) {
        if p.ep == self.victim {
            if let Some((_, _, _, _)) = cx
                .attack_pkts
                .iter()
                .find(|(a, s, pn, _)| *a == self.attacker && *s == p.space && *pn == p.pn)
            {
                let has_fin = p.frames.iter().any(|f| matches!(f, Frame::Stream { fin: true, .. }));
                if self.attack == Some(Attack::FinBelowConsumed) && !has_fin {
                    // first step (plain data on a fresh stream): nothing to reject yet
                    self.step1_rx = true;
                    cx.summary.count("c04.two_step_first_packets_delivered", 1);
                } else if self.attack_rx_t.is_none() {
                    if self.attack == Some(Attack::FinBelowConsumed) && !self.step1_rx {
                        // the data packet was lost (and is never retransmitted: the library
                        // does not know the frames the tap put there): a FIN at offset <= 5 on
                        // an otherwise empty stream breaks no rule
                        self.attack_became_benign = true;
                    }
                    self.attack_rx_t = Some(p.t);
                    self.attack_conn = Some(p.conn);
                    cx.summary.count("c04.attacks_delivered", 1);
                    cx.feature("attack_delivered");
                    // is it (still) a violation, judged by the largest limit the victim itself
                    // ever put on the wire?
                    if self.attack == Some(Attack::StreamIdBeyondMaxStreams) {
                        let cfg_lim = self.cfg[self.victim].max_open_remote_bidi;
                        // The victim may already have decided to allow one more stream for every
                        // stream of the attacker's honest application that has ended, without
                        // having put the new MAX_STREAMS on the wire yet, and s2n-quic polices
                        // against that internal value. Whether the limit "sent" or the limit
                        // "decided" counts in that window is left open here: ids within it are
                        // neither required to be rejected nor to be accepted.
                        let lim = cfg_lim.max(self.victim_max_streams_bidi) + self.attacker_opened_bidi;
                        for f in &p.frames {
                            if let Frame::Stream { id, .. } = f {
                                if (id >> 2) < lim {
                                    self.attack_became_benign = true;
                                }
                            }
                        }
                    }
                }
            }
        }
        if p.space != Space::App {
            return;
        }
        let c = self.credit.entry((p.ep, p.conn)).or_default();
        let i_am_server = p.ep == SERVER;
        for f in &p.frames {
            match f {
                Frame::Stream { id, offset, data, .. } => {
                    let s = c.streams.entry(*id).or_default();
                    s.highest_rx = s.highest_rx.max(offset + data.len() as u64);
                    if (id & 1 == 1) != i_am_server {
                        let e = c.opened_seen.entry(id & 3).or_insert(0);
                        *e = (*e).max((id >> 2) + 1);
                    }
                }
                Frame::ResetStream { id, final_size, .. } => {
                    let s = c.streams.entry(*id).or_default();
                    s.reset_final = Some(*final_size);
                    if (id & 1 == 1) != i_am_server {
                        let e = c.opened_seen.entry(id & 3).or_insert(0);
                        *e = (*e).max((id >> 2) + 1);
                    }
                }
                _ => {}
            }
        }
    }

    fn on_tx(&mut self, cx: &mut Ctx, p: &Pkt) {
        if p.ep == self.victim {
            self.victim_sent_any.insert(p.conn);
            for f in &p.frames {
                if let Frame::ConnectionClose { transport, code, .. } = f {
                    self.victim_close_frame
                        .entry(p.conn)
                        .or_insert((*transport, *code));
                }
                if let Frame::MaxStreams { bidi: true, max } = f {
                    self.victim_max_streams_bidi = self.victim_max_streams_bidi.max(*max);
                }
            }
        }
        if p.space != Space::App {
            return;
        }
        // (3) credit bound — on every endpoint that is observed
        let cfg = match self.cfg.get(p.ep) {
            Some(c) => c.clone(),
            None => return,
        };
        let c = self.credit.entry((p.ep, p.conn)).or_default();
        for f in &p.frames {
            match f {
                Frame::MaxStreamData { id, max } => {
                    let s = c.streams.entry(*id).or_default();
                    let win = Self::window_for(&cfg, p.ep, *id);
                    let base = s.consumed.max(if s.stopped { s.highest_rx } else { 0 });
                    cx.summary.count("c04.max_stream_data_checked", 1);
                    if *max > base + win {
                        cx.violate(
                            "C04",
                            "stream-credit-exceeds-window",
                            format!(
                                "ep{} c{}: MAX_STREAM_DATA({id}) = {max} but the application consumed {base} and the configured window is {win}",
                                p.ep, p.conn
                            ),
                            json!({"ep": p.ep, "conn": p.conn, "stream": id, "max": max, "consumed": base, "window": win}),
                        );
                    } else if *max == base + win {
                        cx.summary.count("c04.credit_tight", 1);
                    }
                }
                Frame::MaxData { max } => {
                    let total: u64 = c
                        .streams
                        .values()
                        .map(|s| {
                            let mut v = s.consumed;
                            if let Some(fs) = s.reset_final {
                                v = v.max(fs);
                            }
                            if s.stopped {
                                v = v.max(s.highest_rx);
                            }
                            v
                        })
                        .sum();
                    cx.summary.count("c04.max_data_checked", 1);
                    if *max > total + cfg.data_window {
                        cx.violate(
                            "C04",
                            "connection-credit-exceeds-window",
                            format!(
                                "ep{} c{}: MAX_DATA = {max} but consumed (incl. final sizes of reset streams) is {total} and the configured window is {}",
                                p.ep, p.conn, cfg.data_window
                            ),
                            json!({"ep": p.ep, "conn": p.conn, "max": max, "consumed": total, "window": cfg.data_window}),
                        );
                    }
                }
                Frame::MaxStreams { bidi, max } => {
                    let i_am_server = p.ep == SERVER;
                    let ty = (if *bidi { 0 } else { 2 }) + if i_am_server { 0 } else { 1 };
                    let seen = c.opened_seen.get(&ty).copied().unwrap_or(0);
                    let lim = if *bidi { cfg.max_open_remote_bidi } else { cfg.max_open_remote_uni };
                    cx.summary.count("c04.max_streams_checked", 1);
                    if *max > seen + lim {
                        cx.violate(
                            "C04",
                            "stream-count-credit-exceeds-limit",
                            format!(
                                "ep{} c{}: MAX_STREAMS({}) = {max} but only {seen} peer streams were ever opened and the configured limit is {lim}",
                                p.ep, p.conn, if *bidi { "bidi" } else { "uni" }
                            ),
                            json!({"ep": p.ep, "conn": p.conn, "max": max, "seen": seen, "limit": lim}),
                        );
                    }
                }
                _ => {}
            }
        }
    }

    fn on_workload_done(&mut self, cx: &mut Ctx) {
        let Some(attack) = self.attack else {
            cx.summary.count("c04.honest_runs", 1);
            return;
        };
        cx.summary.count(&format!("c04.attack.{attack:?}"), 1);
        let Some(t_rx) = self.attack_rx_t else {
            cx.summary.count("c04.attack_not_delivered", 1);
            return;
        };
        let _ = self.seed;
        if self.attack_became_benign {
            cx.summary.count("c04.attack_within_limits_by_then", 1);
            return;
        }
        if attack.is_control() {
            cx.summary.count("c04.controls_run", 1);
            for (t, k) in self.victim_closed.values() {
                // only an error the victim itself raised counts: after the control frame the
                // attacker's own endpoint may well close (it never opened that stream)
                if matches!(k, CloseKind::Transport { local: true, .. }) {
                    cx.violate(
                        "C04",
                        format!("control-rejected:{attack:?}"),
                        format!("a frame exactly at the limit ({attack:?}) made the victim close at {t}us with {}", k.short()),
                        json!({"attack": format!("{attack:?}"), "close": k.short()}),
                    );
                }
            }
            return;
        }
        let mut allowed: Vec<u64> = attack.prescribed().to_vec();
        allowed.push(E_PROTOCOL_VIOLATION);
        allowed.push(E_INTERNAL);
        let aconn = self.attack_conn.unwrap_or(u64::MAX);
        // a close initiated by the peer (the attacker's own endpoint giving up) is not a rejection
        let vclosed = match self.victim_closed.get(&aconn) {
            Some((_, CloseKind::Transport { local: false, .. }))
            | Some((_, CloseKind::Application { local: false, .. }))
            | Some((_, CloseKind::Closed { local: false })) => None,
            // the victim's own application closing the connection when it is done is no
            // rejection either: the violation went unanswered
            Some((_, CloseKind::Application { local: true, .. })) | Some((_, CloseKind::Closed { local: true })) => None,
            other => other,
        };
        match vclosed {
            None => cx.violate(
                "C04",
                format!("violation-not-rejected:{attack:?}"),
                format!("the victim authenticated the {attack:?} packet at {t_rx}us but never closed the connection"),
                json!({"attack": format!("{attack:?}"), "t_rx": t_rx}),
            ),
            Some((t, CloseKind::Transport { code, local: true, reason, .. })) => {
                cx.summary.set(&format!("c04.codes.{attack:?}"), format!("{code:#x}"));
                if !allowed.contains(code) {
                    cx.violate(
                        "C04",
                        format!("wrong-error-code:{attack:?}"),
                        format!("the victim rejected {attack:?} with transport error {code:#x} ({reason}); RFC 9000 prescribes one of {:x?} (or a generic code)", attack.prescribed()),
                        json!({"attack": format!("{attack:?}"), "code": code, "allowed": allowed}),
                    );
                }
                if *t > t_rx + 1_000 {
                    cx.violate(
                        "C04",
                        format!("rejected-late:{attack:?}"),
                        format!("the victim authenticated the {attack:?} packet at {t_rx}us but closed only at {t}us"),
                        json!({"attack": format!("{attack:?}"), "t_rx": t_rx, "t_close": t}),
                    );
                }
                cx.summary.count("c04.attacks_rejected", 1);
            }
            Some((_, other)) => cx.violate(
                "C04",
                format!("not-a-transport-error:{attack:?}"),
                format!("after {attack:?} the victim's connection ended with {} instead of a local transport error", other.short()),
                json!({"attack": format!("{attack:?}"), "close": other.short()}),
            ),
        }
        // the CONNECTION_CLOSE frame on the wire (required once the victim has sent packets)
        if vclosed.is_none() {
            return;
        }
        match self.victim_close_frame.get(&aconn).copied() {
            Some((true, code)) => {
                if !allowed.contains(&code) {
                    cx.violate(
                        "C04",
                        format!("wrong-code-on-wire:{attack:?}"),
                        format!("CONNECTION_CLOSE on the wire carries {code:#x} after {attack:?}"),
                        json!({"attack": format!("{attack:?}"), "code": code}),
                    );
                }
                cx.summary.count("c04.close_frames_seen", 1);
            }
            Some((false, code)) => cx.violate(
                "C04",
                format!("application-close-on-wire:{attack:?}"),
                format!("after {attack:?} the victim sent an application CONNECTION_CLOSE ({code})"),
                json!({"attack": format!("{attack:?}"), "code": code}),
            ),
            None => {
                if self.victim_sent_any.contains(&aconn) {
                    cx.violate(
                        "C04",
                        format!("no-close-frame:{attack:?}"),
                        format!("the victim closed after {attack:?} but never put a CONNECTION_CLOSE frame on the wire"),
                        json!({"attack": format!("{attack:?}")}),
                    );
                }
            }
        }
    }
}
