//! C01 — stream bytes are delivered exactly once, in order, unaltered.
//!
//! Oracle: application tap on both endpoints. Payload is a position-keyed PRF stream per
//! (connection, stream, direction); every chunk the receiver is handed must equal the PRF
//! at the receiver's running offset; a clean end of stream must coincide with the sender's
//! finish() at exactly the number of bytes it wrote.

use super::Monitor;
use crate::{params::Params, world::*};
use std::collections::BTreeMap;
use vq_util::json;

#[derive(Default, Debug)]
struct Flow {
    attempted: u64,
    written: u64,
    finished: Option<u64>,
    reset: Option<u64>,
    read: u64,
    ended: bool,
    errored: bool,
}

pub struct C01 {
    seed: u64,
    flows: BTreeMap<FlowKey, Flow>,
}

impl C01 {
    pub fn new(p: &Params) -> Self {
        C01 {
            seed: p.seed,
            flows: BTreeMap::new(),
        }
    }
}

impl Monitor for C01 {
    fn on_app(&mut self, cx: &mut Ctx, _ep: EpId, _t: u64, op: &AppOp) {
        match op {
            AppOp::SendBegin { flow, off, len } => {
                let f = self.flows.entry(*flow).or_default();
                f.attempted = f.attempted.max(off + *len as u64);
            }
            AppOp::SendOk { flow, off, len } => {
                let f = self.flows.entry(*flow).or_default();
                f.written = f.written.max(off + *len as u64);
                cx.summary.count("c01.bytes_written", *len as u64);
            }
            AppOp::Finished { flow, total } => {
                self.flows.entry(*flow).or_default().finished = Some(*total);
            }
            AppOp::Reset { flow, at, .. } => {
                self.flows.entry(*flow).or_default().reset = Some(*at);
                cx.feature("app_reset");
            }
            AppOp::StopSending { .. } => cx.feature("app_stop_sending"),
            AppOp::RecvChunk { flow, off, data } => {
                let key = flow.prf_key(self.seed);
                let f = self.flows.entry(*flow).or_default();
                if f.ended || f.errored {
                    cx.violate(
                        "C01",
                        "data-after-end",
                        format!("{flow:?}: {} bytes handed out after end of stream / error", data.len()),
                        json!({"flow": format!("{flow:?}"), "off": off}),
                    );
                }
                if *off != f.read {
                    // harness invariant, not a property of the code under test
                    panic!("harness: receiver offset bookkeeping broken");
                }
                if let Some(i) = vq_util::prf_check(key, *off, data) {
                    let pos = off + i as u64;
                    // classify: is it a displaced copy of genuine data?
                    let got: Vec<u8> = data[i..data.len().min(i + 16)].to_vec();
                    let mut displaced_from = None;
                    if got.len() >= 8 {
                        let lo = pos.saturating_sub(300_000);
                        for cand in lo..pos + 300_000 {
                            if cand != pos && vq_util::prf_check(key, cand, &got).is_none() {
                                displaced_from = Some(cand);
                                break;
                            }
                        }
                    }
                    cx.violate(
                        "C01",
                        "content-mismatch",
                        format!(
                            "{flow:?}: byte at stream offset {pos} differs from what the sender wrote{}",
                            displaced_from
                                .map(|d| format!(" (it is the sender's data from offset {d})"))
                                .unwrap_or_default()
                        ),
                        json!({"flow": format!("{flow:?}"), "chunk_off": off, "chunk_len": data.len(), "first_bad": pos, "displaced_from": displaced_from}),
                    );
                }
                let end = off + data.len() as u64;
                if end > f.attempted {
                    cx.violate(
                        "C01",
                        "beyond-written",
                        format!("{flow:?}: receiver was handed bytes up to {end} but sender only wrote {}", f.attempted),
                        json!({"flow": format!("{flow:?}"), "end": end, "attempted": f.attempted}),
                    );
                }
                f.read = end;
                cx.summary.count("c01.bytes_compared", data.len() as u64);
                cx.summary.count("c01.chunks", 1);
            }
            AppOp::RecvEnd { flow, total } => {
                let f = self.flows.entry(*flow).or_default();
                f.ended = true;
                match f.finished {
                    Some(fin) if fin == *total => {
                        cx.summary.count("c01.streams_completed", 1);
                        if *total > 0 {
                            cx.feature("stream_completed");
                        }
                    }
                    Some(fin) => cx.violate(
                        "C01",
                        "short-or-long-fin",
                        format!("{flow:?}: clean end of stream after {total} bytes but sender finished at {fin}"),
                        json!({"flow": format!("{flow:?}"), "read": total, "finished": fin}),
                    ),
                    None => cx.violate(
                        "C01",
                        "fin-without-finish",
                        format!("{flow:?}: clean end of stream after {total} bytes but sender never finished (written {}, reset {:?})", f.written, f.reset),
                        json!({"flow": format!("{flow:?}"), "read": total}),
                    ),
                }
            }
            AppOp::RecvErr { flow, .. } => {
                self.flows.entry(*flow).or_default().errored = true;
                cx.summary.count("c01.recv_errors", 1);
            }
            _ => {}
        }
    }

    fn finish(&mut self, cx: &mut Ctx) {
        cx.summary.count("c01.flows", self.flows.len() as u64);
    }
}
