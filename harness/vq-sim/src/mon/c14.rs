//! C14 (end-to-end part) — transport parameters are validated and applied as RFC 9000 says.
//!
//! A wrapper around the real TLS endpoint (tlswrap.rs) hands the TLS session of ONE side a
//! rewritten transport-parameter block. Invalid blocks (table: RFC 9000 7.4 / 18.2) must make
//! the OTHER side fail the handshake with TRANSPORT_PARAMETER_ERROR or a permitted generic
//! transport error; valid blocks (unknown ids, reserved ids, tighter limits) must be accepted
//! and the receiving endpoint must then operate under exactly the declared limits — the C03
//! monitor runs alongside, seeded with the rewritten values.

use super::Monitor;
use crate::{params::Params, tlswrap::Rewrite, world::*};
use std::sync::Arc;
use vq_util::{json, Rng};
use vq_wire::tp;

pub const E_INTERNAL: u64 = 0x1;
pub const E_TRANSPORT_PARAMETER: u64 = 0x8;
pub const E_PROTOCOL_VIOLATION: u64 = 0xa;

#[derive(Clone, Copy, Debug, PartialEq, Eq)]
pub enum Case {
    // ---- must be rejected
    AckDelayExponent21,
    MaxAckDelay16384,
    MaxAckDelayHuge,
    MaxUdpPayload1199,
    ActiveCidLimit1,
    ActiveCidLimit0,
    MaxStreamsBidiTooLarge,
    MaxStreamsUniTooLarge,
    DuplicateKnown,
    ClientSendsOdcid,
    ClientSendsResetToken,
    ClientSendsRetryScid,
    ClientSendsPreferredAddress,
    WrongInitialScid,
    MissingInitialScid,
    ServerMissingOdcid,
    ServerWrongOdcid,
    ServerRetryScidWithoutRetry,
    // ---- must be accepted
    UnknownId,
    ReservedGreaseId,
    AckDelayExponent20,
    MaxAckDelay16383,
    MaxUdpPayload1200,
    ActiveCidLimit2,
    MaxStreamsBidiAtLimit,
    TightLimits,
    NonMinimalVarintValue,
}

/// a connection id that differs from the genuine one: a flipped bit, a proper prefix
/// (truncated, possibly to nothing) or an extension (RFC 9000 7.3: the values must MATCH)
fn wrong_cid(id: &mut Vec<u8>, r: &mut vq_util::Rng) {
    if id.is_empty() {
        id.push(1);
        return;
    }
    match r.below(5) {
        0 | 1 => {
            let k = r.below(id.len() as u64) as usize;
            id[k] ^= 1 << r.below(8);
        }
        2 => {
            let keep = r.below(id.len() as u64) as usize;
            id.truncate(keep);
        }
        3 => id.clear(),
        _ => {
            if id.len() < 20 {
                id.push(r.below(256) as u8);
            } else {
                id.truncate(id.len() - 1);
            }
        }
    }
}

pub const CASES: &[Case] = &[
    Case::AckDelayExponent21,
    Case::MaxAckDelay16384,
    Case::MaxAckDelayHuge,
    Case::MaxUdpPayload1199,
    Case::ActiveCidLimit1,
    Case::ActiveCidLimit0,
    Case::MaxStreamsBidiTooLarge,
    Case::MaxStreamsUniTooLarge,
    Case::DuplicateKnown,
    Case::ClientSendsOdcid,
    Case::ClientSendsResetToken,
    Case::ClientSendsRetryScid,
    Case::ClientSendsPreferredAddress,
    Case::WrongInitialScid,
    Case::MissingInitialScid,
    Case::ServerMissingOdcid,
    Case::ServerWrongOdcid,
    Case::ServerRetryScidWithoutRetry,
    Case::UnknownId,
    Case::ReservedGreaseId,
    Case::AckDelayExponent20,
    Case::MaxAckDelay16383,
    Case::MaxUdpPayload1200,
    Case::ActiveCidLimit2,
    Case::MaxStreamsBidiAtLimit,
    Case::TightLimits,
    Case::NonMinimalVarintValue,
];

impl Case {
    pub fn must_reject(self) -> bool {
        !matches!(
            self,
            Case::UnknownId
                | Case::ReservedGreaseId
                | Case::AckDelayExponent20
                | Case::MaxAckDelay16383
                | Case::MaxUdpPayload1200
                | Case::ActiveCidLimit2
                | Case::MaxStreamsBidiAtLimit
                | Case::TightLimits
                | Case::NonMinimalVarintValue
        )
    }
    /// which side can send it: Some(true) client only, Some(false) server only, None either
    pub fn sender(self) -> Option<bool> {
        match self {
            Case::ClientSendsOdcid
            | Case::ClientSendsResetToken
            | Case::ClientSendsRetryScid
            | Case::ClientSendsPreferredAddress => Some(true),
            Case::ServerMissingOdcid | Case::ServerWrongOdcid | Case::ServerRetryScidWithoutRetry => Some(false),
            _ => None,
        }
    }
}

fn set(items: &mut Vec<(u64, Vec<u8>)>, id: u64, v: Vec<u8>) {
    if let Some(e) = items.iter_mut().find(|(i, _)| *i == id) {
        e.1 = v;
    } else {
        items.push((id, v));
    }
}

fn int(v: u64) -> Vec<u8> {
    let mut b = Vec::new();
    vq_wire::put_varint(&mut b, v);
    b
}

/// tight limits a TightLimits block declares (all below the real configuration)
pub const TIGHT_MAX_DATA: u64 = 7_000;
pub const TIGHT_STREAM_DATA: u64 = 3_000;
pub const TIGHT_STREAMS: u64 = 2;

/// Builds the block-rewriting closure for a case.
pub fn rewrite(case: Case, seed: u64) -> Rewrite {
    Arc::new(move |block: Vec<u8>| -> Vec<u8> {
        let mut r = Rng::new(seed ^ 0xc14);
        let mut items = match tp::split(&block) {
            Ok(i) => i,
            Err(_) => return block,
        };
        match case {
            Case::AckDelayExponent21 => set(&mut items, tp::ID_ADE, int(21 + r.range(0, 3) * 40)),
            Case::AckDelayExponent20 => set(&mut items, tp::ID_ADE, int(20)),
            Case::MaxAckDelay16384 => set(&mut items, tp::ID_MAD, int(1 << 14)),
            Case::MaxAckDelayHuge => set(&mut items, tp::ID_MAD, int((1 << 14) + r.range(1, 1 << 20))),
            Case::MaxAckDelay16383 => set(&mut items, tp::ID_MAD, int((1 << 14) - 1)),
            Case::MaxUdpPayload1199 => set(&mut items, tp::ID_MAX_UDP, int(*r.pick(&[1199u64, 0, 500]))),
            Case::MaxUdpPayload1200 => set(&mut items, tp::ID_MAX_UDP, int(1200)),
            Case::ActiveCidLimit1 => set(&mut items, tp::ID_ACIL, int(1)),
            Case::ActiveCidLimit0 => set(&mut items, tp::ID_ACIL, int(0)),
            Case::ActiveCidLimit2 => set(&mut items, tp::ID_ACIL, int(2)),
            Case::MaxStreamsBidiTooLarge => set(&mut items, tp::ID_MS_BIDI, int((1 << 60) + 1)),
            Case::MaxStreamsUniTooLarge => set(&mut items, tp::ID_MS_UNI, int((1 << 60) + r.range(1, 1000))),
            Case::MaxStreamsBidiAtLimit => set(&mut items, tp::ID_MS_BIDI, int(1 << 60)),
            Case::DuplicateKnown => {
                let id = *r.pick(&[tp::ID_MAX_IDLE, tp::ID_MAX_DATA, tp::ID_ISCID, tp::ID_ACIL, tp::ID_MSD_UNI]);
                let v = items.iter().find(|(i, _)| *i == id).map(|(_, v)| v.clone()).unwrap_or(int(5));
                let at = r.below(items.len() as u64 + 1) as usize;
                items.insert(at, (id, v));
                if items.iter().filter(|(i, _)| *i == id).count() < 2 {
                    items.push((id, int(6)));
                }
            }
            Case::ClientSendsOdcid => items.push((tp::ID_ODCID, vec![1, 2, 3, 4, 5, 6, 7, 8])),
            Case::ClientSendsResetToken => items.push((tp::ID_SRT, vec![7; 16])),
            Case::ClientSendsRetryScid => items.push((tp::ID_RSCID, vec![1, 2, 3, 4, 5, 6, 7, 8])),
            Case::ClientSendsPreferredAddress => {
                let mut v = vec![0u8; 4 + 2 + 16 + 2];
                v[0] = 10;
                v[4] = 1;
                v.push(8);
                v.extend_from_slice(&[9; 8]);
                v.extend_from_slice(&[3; 16]);
                items.push((tp::ID_PREF, v));
            }
            Case::WrongInitialScid => {
                if let Some(e) = items.iter_mut().find(|(i, _)| *i == tp::ID_ISCID) {
                    wrong_cid(&mut e.1, &mut r);
                }
            }
            Case::MissingInitialScid => items.retain(|(i, _)| *i != tp::ID_ISCID),
            Case::ServerMissingOdcid => items.retain(|(i, _)| *i != tp::ID_ODCID),
            Case::ServerWrongOdcid => {
                if let Some(e) = items.iter_mut().find(|(i, _)| *i == tp::ID_ODCID) {
                    wrong_cid(&mut e.1, &mut r);
                }
            }
            Case::ServerRetryScidWithoutRetry => items.push((tp::ID_RSCID, vec![1, 2, 3, 4, 5, 6, 7, 8])),
            Case::UnknownId => {
                for _ in 0..r.range(1, 3) {
                    let mut v = vec![0u8; r.range(0, 40) as usize];
                    r.fill(&mut v);
                    let at = r.below(items.len() as u64 + 1) as usize;
                    items.insert(at, (0x1000 + r.range(0, 1 << 20), v));
                }
            }
            Case::ReservedGreaseId => {
                let n = r.range(0, 1 << 30);
                let mut v = vec![0u8; r.range(0, 16) as usize];
                r.fill(&mut v);
                items.insert(0, (31 * n + 27, v));
            }
            Case::TightLimits => {
                set(&mut items, tp::ID_MAX_DATA, int(TIGHT_MAX_DATA));
                set(&mut items, tp::ID_MSD_BIDI_LOCAL, int(TIGHT_STREAM_DATA));
                set(&mut items, tp::ID_MSD_BIDI_REMOTE, int(TIGHT_STREAM_DATA));
                set(&mut items, tp::ID_MSD_UNI, int(TIGHT_STREAM_DATA));
                set(&mut items, tp::ID_MS_BIDI, int(TIGHT_STREAMS));
                set(&mut items, tp::ID_MS_UNI, int(TIGHT_STREAMS));
                r.shuffle(&mut items);
            }
            Case::NonMinimalVarintValue => {
                // a legal, longer-than-necessary varint as the value of an integer parameter
                let mut v = Vec::new();
                vq_wire::put_varint_len(&mut v, 30_000, 8);
                set(&mut items, tp::ID_MAX_IDLE, v);
            }
        }
        let mut out = Vec::new();
        for (id, v) in items {
            tp::put(&mut out, id, &v);
        }
        out
    })
}

pub struct C14 {
    case: Option<Case>,
    /// endpoint whose block was rewritten; the other one validates
    rewriter_ep: EpId,
    validator_ep: EpId,
    validator_closed: Option<(u64, CloseKind)>,
    validator_close_frame: Option<(bool, u64)>,
    connect_ok: bool,
    errors: Vec<String>,
    finished: u32,
    completed: u32,
    tls_failed: bool,
}

impl C14 {
    pub fn new(p: &Params) -> Self {
        let case = p.knobs.get("c14_case").map(|i| CASES[*i as usize % CASES.len()]);
        let rewriter_ep = p.knob("c14_rewriter") as usize;
        C14 {
            case,
            rewriter_ep,
            validator_ep: if rewriter_ep == SERVER { 1 } else { SERVER },
            validator_closed: None,
            validator_close_frame: None,
            connect_ok: false,
            errors: Vec::new(),
            finished: 0,
            completed: 0,
            tls_failed: false,
        }
    }
}

impl Monitor for C14 {
    fn on_evt(&mut self, cx: &mut Ctx, ep: EpId, conn: u64, t: u64, e: &Evt) {
        if let Evt::Closed(k) = e {
            cx.summary.set("c14.close_kinds", k.short());
            if ep == self.validator_ep && self.validator_closed.is_none() {
                // the first connection attempt is the one that saw the rewritten block
                self.validator_closed = Some((t, k.clone()));
            }
            if !k.is_clean() {
                self.errors.push(format!("ep{ep} c{conn}: {}", k.short()));
            }
        }
        if let Evt::PeerParams(pp) = e {
            if ep == self.validator_ep {
                cx.summary.count("c14.blocks_accepted_by_validator", 1);
                let _ = pp;
            }
        }
    }

    fn on_tx(&mut self, _cx: &mut Ctx, p: &Pkt) {
        if p.ep == self.validator_ep && self.validator_close_frame.is_none() {
            for f in &p.frames {
                if let Frame::ConnectionClose { transport, code, .. } = f {
                    self.validator_close_frame = Some((*transport, *code));
                }
            }
        }
    }

    fn on_app(&mut self, _cx: &mut Ctx, ep: EpId, _t: u64, op: &AppOp) {
        match op {
            AppOp::ConnectOk { .. } => self.connect_ok = true,
            AppOp::ConnectErr { kind } => {
                self.errors.push(format!("ep{ep} connect: {}", kind.short()));
                if format!("{kind:?}").contains("tls") {
                    self.tls_failed = true;
                }
            }
            AppOp::Finished { .. } => self.finished += 1,
            AppOp::RecvEnd { .. } => self.completed += 1,
            AppOp::SendErr { flow, err, .. } => self.errors.push(format!("ep{ep} send {flow:?}: {err}")),
            AppOp::RecvErr { flow, err, .. } => self.errors.push(format!("ep{ep} recv {flow:?}: {err}")),
            _ => {}
        }
    }

    fn on_workload_done(&mut self, cx: &mut Ctx) {
        let Some(case) = self.case else { return };
        cx.summary.count(&format!("c14.case.{case:?}"), 1);
        let allowed = [E_TRANSPORT_PARAMETER, E_PROTOCOL_VIOLATION, E_INTERNAL];
        if case.must_reject() {
            cx.summary.count("c14.invalid_blocks", 1);
            match &self.validator_closed {
                Some((_, CloseKind::Transport { code, local: true, reason, .. })) => {
                    cx.summary.set(&format!("c14.codes.{case:?}"), format!("{code:#x}"));
                    if !allowed.contains(code) {
                        cx.violate(
                            "C14",
                            format!("wrong-error-code:{case:?}"),
                            format!("invalid transport parameters ({case:?}) were refused with transport error {code:#x} ({reason}) instead of TRANSPORT_PARAMETER_ERROR"),
                            json!({"case": format!("{case:?}"), "code": code}),
                        );
                    } else {
                        cx.summary.count("c14.rejected_as_expected", 1);
                    }
                }
                other => {
                    cx.violate(
                        "C14",
                        format!("invalid-parameters-accepted:{case:?}"),
                        format!(
                            "ep{} was handed invalid transport parameters ({case:?}) by its peer but did not fail the handshake with a transport error (its connection: {}; handshake completed at the client: {})",
                            self.validator_ep,
                            other.as_ref().map(|(_, k)| k.short()).unwrap_or_else(|| "never closed".into()),
                            self.connect_ok
                        ),
                        json!({"case": format!("{case:?}"), "connect_ok": self.connect_ok, "errors": self.errors}),
                    );
                }
            }
            if let Some((transport, code)) = self.validator_close_frame {
                if !transport || !allowed.contains(&code) {
                    cx.violate(
                        "C14",
                        format!("wrong-code-on-wire:{case:?}"),
                        format!("CONNECTION_CLOSE on the wire after {case:?} carries {}{code:#x}", if transport { "transport " } else { "application " }),
                        json!({"case": format!("{case:?}"), "code": code, "transport": transport}),
                    );
                }
            }
        } else {
            cx.summary.count("c14.valid_blocks", 1);
            if case == Case::TightLimits {
                // The rewriting endpoint still runs its real (much larger) windows, so it never
                // sends the MAX_* updates a peer held to the declared limits would need: the
                // transfer is expected to stop AT the declared limits (checked by the limit
                // monitor running alongside) and idle out. Only the handshake must succeed.
                let bound = ["tight_conn_limit", "tight_stream_limit", "tight_stream_count", "blocked_conn_credit", "blocked_stream_credit", "blocked_stream_count"]
                    .iter()
                    .filter(|f| cx.features.contains_key(**f))
                    .count();
                cx.summary.count("c14.tight_limits_runs", 1);
                cx.summary.count("c14.tight_limits_kinds_bound", bound as u64);
                if !self.connect_ok {
                    cx.violate(
                        "C14",
                        "valid-parameters-refused:TightLimits",
                        format!("a permitted block with small limits made the handshake fail: {}", self.errors.join("; ")),
                        json!({"errors": self.errors}),
                    );
                } else {
                    cx.summary.count("c14.accepted_as_expected", 1);
                }
                return;
            }
            if !self.connect_ok || !self.errors.is_empty() {
                cx.violate(
                    "C14",
                    format!("valid-parameters-refused:{case:?}"),
                    format!(
                        "a permitted transport-parameter block ({case:?}) made the connection fail: connect ok = {}, errors: {}",
                        self.connect_ok,
                        self.errors.iter().take(4).cloned().collect::<Vec<_>>().join("; ")
                    ),
                    json!({"case": format!("{case:?}"), "errors": self.errors}),
                );
            } else if self.completed < self.finished {
                cx.violate(
                    "C14",
                    format!("valid-parameters-stall:{case:?}"),
                    format!("with {case:?} only {} of {} finished streams completed", self.completed, self.finished),
                    json!({"case": format!("{case:?}")}),
                );
            } else {
                cx.summary.count("c14.accepted_as_expected", 1);
            }
        }
    }
}
