//! C12 — what an endpoint sends on a stream and at close is self-consistent.
//!
//! Per endpoint, connection and stream (TX tap, online): every STREAM frame carries exactly
//! the bytes the application wrote at that offset (hence retransmissions are identical to
//! first transmissions); nothing at or beyond an announced final size; the final size never
//! changes and is never below data already sent; no STREAM / STREAM_DATA_BLOCKED for a stream
//! in packets numbered after its RESET_STREAM. Stream ids returned by open() increase.
//! After the first CONNECTION_CLOSE only copies of that close datagram leave the endpoint for
//! that peer, and no more of them than datagrams arrived from the peer.

use super::Monitor;
use crate::{params::Params, world::*};
use std::collections::{BTreeMap, HashMap};
use vq_util::json;

#[derive(Default)]
struct StreamSt {
    /// merged, sorted, disjoint [lo, hi) ranges already put on the wire
    sent: Vec<(u64, u64)>,
    highest: u64,
    final_size: Option<(u64, &'static str)>,
    reset_pn: Option<u64>,
    segmentations: u32,
}

impl StreamSt {
    /// returns number of bytes of [lo,hi) that were already sent before, and whether the frame
    /// boundaries differ from any earlier frame (re-segmentation)
    fn add(&mut self, lo: u64, hi: u64) -> (u64, bool) {
        if lo >= hi {
            return (0, false);
        }
        let mut overlap = 0;
        let mut exact = false;
        for (a, b) in &self.sent {
            let l = lo.max(*a);
            let h = hi.min(*b);
            if l < h {
                overlap += h - l;
            }
            if *a == lo && *b == hi {
                exact = true;
            }
        }
        // insert and merge
        self.sent.push((lo, hi));
        self.sent.sort();
        let mut merged: Vec<(u64, u64)> = Vec::with_capacity(self.sent.len());
        for (a, b) in self.sent.drain(..) {
            if let Some(last) = merged.last_mut() {
                if a <= last.1 {
                    last.1 = last.1.max(b);
                    continue;
                }
            }
            merged.push((a, b));
        }
        self.sent = merged;
        (overlap, overlap > 0 && !exact)
    }
}

#[derive(Default)]
struct Conn {
    client_ep: Option<EpId>,
    streams: HashMap<u64, StreamSt>,
    /// first CONNECTION_CLOSE seen in the TX tap: (time, pn)
    close_tx: Option<u64>,
    /// wire bytes hash of the first close datagram, destination port, copies seen, time
    close_wire: Option<(u64, u16, u64, u64)>,
    /// datagrams delivered to this endpoint from the peer port since the close datagram
    triggers_since_close: u64,
    remote_port: u16,
}

pub struct C12 {
    seed: u64,
    conns: HashMap<(EpId, u64), Conn>,
    /// last stream id returned by open() per (ep, client, type bits)
    opened: BTreeMap<(EpId, EpId, u64), u64>,
}

impl C12 {
    pub fn new(p: &Params) -> Self {
        C12 {
            seed: p.seed,
            conns: HashMap::new(),
            opened: BTreeMap::new(),
        }
    }
}

impl Monitor for C12 {
    fn on_evt(&mut self, cx: &mut Ctx, ep: EpId, conn: u64, _t: u64, e: &Evt) {
        if let Evt::Started { remote_port, .. } = e {
            let c = self.conns.entry((ep, conn)).or_default();
            c.remote_port = *remote_port;
            c.client_ep = if ep == SERVER {
                cx.ep_of_port(*remote_port)
            } else {
                Some(ep)
            };
        }
        if let Evt::ActivePath { remote_port, .. } = e {
            self.conns.entry((ep, conn)).or_default().remote_port = *remote_port;
        }
    }

    fn on_app(&mut self, cx: &mut Ctx, ep: EpId, _t: u64, op: &AppOp) {
        if let AppOp::Opened { stream } = op {
            // which connection: for a client endpoint its only one; for the server the plan
            // registry tells the client
            let client = if ep == SERVER {
                cx.plans
                    .iter()
                    .find(|((_, id), _)| id == stream)
                    .map(|((c, _), _)| *c)
                    .unwrap_or(0)
            } else {
                ep
            };
            let key = (ep, client, stream & 3);
            if ep != SERVER || cx.params.clients.len() == 1 {
                if let Some(prev) = self.opened.get(&key) {
                    if *stream <= *prev {
                        cx.violate(
                            "C12",
                            "stream-id-not-increasing",
                            format!("ep{ep}: open() returned stream id {stream} after {prev}"),
                            json!({"ep": ep, "stream": stream, "prev": prev}),
                        );
                    }
                }
                self.opened.insert(key, *stream);
            }
            cx.summary.count("c12.opens_checked", 1);
        }
    }

    fn on_tx(&mut self, cx: &mut Ctx, p: &Pkt) {
        let seed = self.seed;
        let c = self.conns.entry((p.ep, p.conn)).or_default();
        let has_close = p
            .frames
            .iter()
            .any(|f| matches!(f, Frame::ConnectionClose { .. }));
        if let Some(t0) = c.close_tx {
            let only_close = p.frames.iter().all(|f| {
                matches!(f, Frame::ConnectionClose { .. } | Frame::Padding { .. })
            });
            if !only_close {
                cx.violate(
                    "C12",
                    "frames-after-close",
                    format!("ep{} c{}: packet {} sent after CONNECTION_CLOSE (first at {t0}us) carries other frames", p.ep, p.conn, p.brief()),
                    json!({"ep": p.ep, "conn": p.conn, "pkt": p.brief(), "close_t": t0}),
                );
            }
        } else if has_close {
            c.close_tx = Some(p.t);
            cx.summary.count("c12.close_episodes", 1);
            cx.feature("close_sent");
        }
        if p.space != Space::App {
            return;
        }
        let Some(client) = c.client_ep else { return };
        let dir = if p.ep == SERVER { Dir::S2C } else { Dir::C2S };
        for f in &p.frames {
            match f {
                Frame::Stream {
                    id,
                    offset,
                    data,
                    fin,
                    ..
                } => {
                    let st = c.streams.entry(*id).or_default();
                    let end = offset + data.len() as u64;
                    cx.summary.count("c12.stream_frames", 1);
                    // content = what the application wrote at that offset
                    let key = FlowKey {
                        client,
                        stream: *id,
                        dir,
                    }
                    .prf_key(seed);
                    if let Some(i) = vq_util::prf_check(key, *offset, data) {
                        cx.violate(
                            "C12",
                            "sent-bytes-differ",
                            format!(
                                "ep{} c{} stream {id}: STREAM frame at offset {offset} carries a byte at {} that differs from what the application wrote there",
                                p.ep, p.conn, offset + i as u64
                            ),
                            json!({"ep": p.ep, "conn": p.conn, "stream": id, "offset": offset, "len": data.len(), "bad_at": offset + i as u64, "pkt": p.brief()}),
                        );
                    }
                    let (overlap, reseg) = st.add(*offset, end);
                    if overlap > 0 {
                        cx.summary.count("c12.retransmitted_bytes", overlap);
                        cx.feature("retransmission");
                    }
                    if reseg {
                        st.segmentations += 1;
                        cx.summary.count("c12.resegmented_retransmissions", 1);
                        cx.feature("resegmented");
                    }
                    st.highest = st.highest.max(end);
                    if let Some(rpn) = st.reset_pn {
                        // frames are visited in packet order and `reset_pn` is set when the RESET_STREAM frame is
                        // reached: equality means this frame follows it inside the same packet
                        if p.pn >= rpn {
                            // the bare "stream opened" notification (offset 0, no data, no
                            // FIN) is told apart from frames carrying data or a FIN
                            let sig = if data.is_empty() && *offset == 0 && !*fin {
                                cx.summary.count("c12.open_notify_after_reset", 1);
                                "stream-after-reset:empty-open-notify"
                            } else {
                                "stream-after-reset"
                            };
                            cx.violate(
                                "C12",
                                sig,
                                format!("ep{} c{} stream {id}: STREAM frame in packet {} after RESET_STREAM in packet {rpn}", p.ep, p.conn, p.pn),
                                json!({"ep": p.ep, "conn": p.conn, "stream": id, "pn": p.pn, "reset_pn": rpn}),
                            );
                        }
                    }
                    if let Some((fs, how)) = st.final_size {
                        if end > fs {
                            cx.violate(
                                "C12",
                                "data-beyond-final-size",
                                format!("ep{} c{} stream {id}: data up to {end} sent although {how} announced final size {fs}", p.ep, p.conn),
                                json!({"ep": p.ep, "conn": p.conn, "stream": id, "end": end, "final": fs}),
                            );
                        }
                        if *fin && end != fs {
                            cx.violate(
                                "C12",
                                "final-size-changed",
                                format!("ep{} c{} stream {id}: FIN at {end} but {how} announced final size {fs}", p.ep, p.conn),
                                json!({"ep": p.ep, "conn": p.conn, "stream": id, "end": end, "final": fs}),
                            );
                        }
                    } else if *fin {
                        if end < st.highest {
                            cx.violate(
                                "C12",
                                "final-size-below-sent",
                                format!("ep{} c{} stream {id}: FIN announces final size {end} but data up to {} was already sent", p.ep, p.conn, st.highest),
                                json!({"ep": p.ep, "conn": p.conn, "stream": id, "final": end, "highest": st.highest}),
                            );
                        }
                        st.final_size = Some((end, "FIN"));
                        cx.summary.count("c12.fins", 1);
                    }
                }
                Frame::ResetStream { id, final_size, .. } => {
                    let st = c.streams.entry(*id).or_default();
                    cx.summary.count("c12.resets", 1);
                    cx.feature("reset_sent");
                    if *final_size < st.highest {
                        cx.violate(
                            "C12",
                            "final-size-below-sent",
                            format!("ep{} c{} stream {id}: RESET_STREAM final size {final_size} but data up to {} was already sent", p.ep, p.conn, st.highest),
                            json!({"ep": p.ep, "conn": p.conn, "stream": id, "final": final_size, "highest": st.highest}),
                        );
                    }
                    if let Some((fs, how)) = st.final_size {
                        if fs != *final_size {
                            cx.violate(
                                "C12",
                                "final-size-changed",
                                format!("ep{} c{} stream {id}: RESET_STREAM final size {final_size} but {how} announced {fs}", p.ep, p.conn),
                                json!({"ep": p.ep, "conn": p.conn, "stream": id, "final": final_size, "earlier": fs}),
                            );
                        }
                    } else {
                        st.final_size = Some((*final_size, "RESET_STREAM"));
                    }
                    if st.reset_pn.is_none() {
                        st.reset_pn = Some(p.pn);
                    }
                }
                Frame::StreamDataBlocked { id, .. } => {
                    let st = c.streams.entry(*id).or_default();
                    if let Some(rpn) = st.reset_pn {
                        // frames are visited in packet order and `reset_pn` is set when the RESET_STREAM frame is
                        // reached: equality means this frame follows it inside the same packet
                        if p.pn >= rpn {
                            cx.violate(
                                "C12",
                                "blocked-after-reset",
                                format!("ep{} c{} stream {id}: STREAM_DATA_BLOCKED in packet {} after RESET_STREAM in packet {rpn}", p.ep, p.conn, p.pn),
                                json!({"ep": p.ep, "conn": p.conn, "stream": id, "pn": p.pn, "reset_pn": rpn}),
                            );
                        }
                    }
                }
                _ => {}
            }
        }
    }

    fn on_wire(&mut self, cx: &mut Ctx, w: &Wire, _fate: &Fate) {
        if w.injected {
            return;
        }
        let Some(src) = w.src else { return };
        let h = vq_util::fnv(&w.bytes);
        let meta = cx.dgram_meta.get(&h).cloned();
        // find the connection of `src` that talks to w.dst_port and has sent a close
        for ((ep, conn), c) in self.conns.iter_mut() {
            if *ep != src || c.remote_port != w.dst_port {
                continue;
            }
            match &mut c.close_wire {
                None => {
                    if let Some(m) = &meta {
                        if m.conn == *conn && m.has_close {
                            c.close_wire = Some((h, w.dst_port, 1, w.t));
                            c.triggers_since_close = 0;
                        }
                    }
                }
                Some((h0, _port, copies, t0)) => {
                    if h == *h0 {
                        *copies += 1;
                        cx.summary.count("c12.close_copies", 1);
                        if *copies > c.triggers_since_close + 1 {
                            cx.violate(
                                "C12",
                                "close-not-in-response",
                                format!(
                                    "ep{ep} c{conn}: {} copies of the close datagram sent but only {} datagrams arrived from the peer since the first one",
                                    *copies, c.triggers_since_close
                                ),
                                json!({"ep": ep, "conn": conn, "copies": *copies, "triggers": c.triggers_since_close}),
                            );
                        }
                    } else if meta.as_ref().map(|m| m.conn == *conn).unwrap_or(false) {
                        cx.violate(
                            "C12",
                            "other-datagram-after-close",
                            format!("ep{ep} c{conn}: a datagram that is not a copy of the close datagram (sent at {t0}us) left the endpoint at {}us: {:?}", w.t, w.pkts),
                            json!({"ep": ep, "conn": conn, "t": w.t, "pkts": format!("{:?}", w.pkts)}),
                        );
                    } else if meta.is_none() {
                        // not produced by a connection: stateless reset after the closing period
                        cx.summary.count("c12.unattributed_after_close", 1);
                    }
                }
            }
        }
    }

    fn on_delivered(&mut self, _cx: &mut Ctx, w: &Wire, _at: u64) {
        let Some(dst) = w.dst else { return };
        for ((ep, _), c) in self.conns.iter_mut() {
            if *ep == dst && c.remote_port == w.src_port && c.close_wire.is_some() {
                c.triggers_since_close += 1;
            }
        }
    }
}
