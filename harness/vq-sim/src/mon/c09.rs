//! C09 — loss detection is sound and in-flight bookkeeping is exact.
//!
//! (a) every `packet_lost` must be justified by RFC 9002 section 6.1: a later packet was
//!     acknowledged and (packet threshold 3 or time threshold 9/8 * max(srtt, latest_rtt),
//!     at least 1 ms); a PTO alone never marks packets lost;
//! (b) every sent packet is resolved at most once (acked / lost / discarded with its space);
//! (c) bytes_in_flight of every controller equals sent - acked - lost - discarded after every
//!     call of the congestion-controller interface (boundary recording by the proxy);
//! (d) RTT estimates stay within the range of the samples, PTO back-off doubles.

use super::Monitor;
use crate::{params::Params, world::*};
use std::collections::{BTreeMap, HashMap};
use vq_util::json;

#[derive(Clone, Copy, PartialEq, Debug)]
enum Res {
    Outstanding,
    Acked,
    Lost,
}

struct Sent {
    t: u64,
    res: Res,
    probe: bool,
    /// remote port the datagram carrying the packet was addressed to (network tap)
    port: Option<u16>,
}

#[derive(Default)]
struct SpaceSt {
    sent: BTreeMap<u64, Sent>,
    largest_acked: Option<u64>,
    /// time the largest_acked value last changed (a new ack arrived)
    discarded: bool,
}

struct PendingLoss {
    space: Space,
    pn: u64,
    t: u64,
    t_sent: u64,
    largest_acked: Option<u64>,
    path_id: u64,
    mtu_probe: bool,
    metrics_before: Option<Metrics>,
}

#[derive(Default)]
struct Conn {
    spaces: [SpaceSt; 3],
    metrics: HashMap<u64, Metrics>,
    /// in-flight packets (ack-eliciting or padded, RFC 9002 2) handed to the TX tap and not
    /// yet acknowledged, declared lost or discarded - per packet number space
    in_flight: [std::collections::BTreeSet<u64>; 3],
    stale_metrics: u32,
    /// path id -> remote port (Started, PathCreated, ActivePath events)
    path_port: HashMap<u64, u16>,
    pending: Vec<PendingLoss>,
    /// global min of min_rtt and max of latest_rtt per path (range of samples)
    rtt_lo: HashMap<u64, u64>,
    rtt_hi: HashMap<u64, u64>,
    /// last probe burst bookkeeping for PTO doubling: (time, pto_count at that time)
    last_acked_t: u64,
    probes: Vec<(u64, Space)>,
    closed: bool,
    confirmed: bool,
    /// probe-mode packets since the last ACK was received, the anchor T0 of that chain and
    /// whether its first packet may be a left-over allowance (see clause (d))
    chain_n: u32,
    chain_t0: u64,
    chain_stale: u32,
    /// probe-mode packets since the recovery metrics last showed pto_count going up
    probes_since_expiry_marker: u32,
    last_pto_count: u32,
    /// times of the last two distinct instants at which an ack-eliciting 1-RTT packet was sent
    last_ae_tx: u64,
    prev_ae_tx: u64,
}

#[derive(Default)]
struct CcShadow {
    bif: i64,
    init: bool,
    sent: u64,
    resolved: u64,
}

pub struct C09 {
    retry_seen: std::collections::HashSet<EpId>,
    conns: HashMap<(EpId, u64), Conn>,
    cc: HashMap<u64, CcShadow>,
    initial_rtt_us: Vec<u64>,
}

const GRANULARITY_US: u64 = 1_000;

impl C09 {
    pub fn new(p: &Params) -> Self {
        let mut initial_rtt_us = vec![p.server.initial_rtt_ms * 1000];
        for c in &p.clients {
            initial_rtt_us.push(c.cfg.initial_rtt_ms * 1000);
        }
        C09 {
            retry_seen: Default::default(),
            conns: HashMap::new(),
            cc: HashMap::new(),
            initial_rtt_us,
        }
    }

    fn time_threshold(m: &Metrics) -> u64 {
        // RFC 9002 6.1.2: max(kTimeThreshold * max(smoothed_rtt, latest_rtt), kGranularity)
        let base = m.smoothed_rtt.max(m.latest_rtt);
        (base * 9 / 8).max(GRANULARITY_US)
    }

    fn judge(cx: &mut Ctx, ep: EpId, conn: u64, l: &PendingLoss, after: Option<&Metrics>) {
        cx.summary.count("c09.loss_declarations", 1);
        let la = match l.largest_acked {
            Some(la) if la > l.pn => la,
            other => {
                cx.violate(
                    "C09",
                    "lost-without-later-ack",
                    format!(
                        "ep{ep} c{conn} {:?}: packet {} declared lost at {}us but no later packet has been acknowledged (largest acked {:?})",
                        l.space, l.pn, l.t, other
                    ),
                    json!({"ep": ep, "conn": conn, "space": format!("{:?}", l.space), "pn": l.pn, "t": l.t, "largest_acked": other, "mtu_probe": l.mtu_probe}),
                );
                return;
            }
        };
        if la - l.pn >= 3 {
            cx.summary.count("c09.loss_by_packet_threshold", 1);
            if la - l.pn == 3 {
                cx.summary.count("c09.loss_at_exact_packet_threshold", 1);
            }
            return;
        }
        let age = l.t.saturating_sub(l.t_sent);
        let mut ok = false;
        let mut best_margin = i64::MIN;
        for m in [l.metrics_before.as_ref(), after].into_iter().flatten() {
            let thr = Self::time_threshold(m);
            // the implementation's timers fire up to kGranularity early by design
            let margin = age as i64 + GRANULARITY_US as i64 - thr as i64;
            best_margin = best_margin.max(margin);
            if margin >= 0 {
                ok = true;
            }
        }
        if l.metrics_before.is_none() && after.is_none() {
            cx.summary.count("c09.loss_without_metrics", 1);
            return;
        }
        if ok {
            cx.summary.count("c09.loss_by_time_threshold", 1);
            cx.summary.min("c09.min_time_margin_us", best_margin);
        } else {
            cx.violate(
                "C09",
                "lost-too-early",
                format!(
                    "ep{ep} c{conn} {:?}: packet {} declared lost {}us after it was sent; largest acked {la} (distance {}), time threshold not reached (short by {}us)",
                    l.space, l.pn, age, la - l.pn, -best_margin
                ),
                json!({"ep": ep, "conn": conn, "space": format!("{:?}", l.space), "pn": l.pn, "age_us": age, "largest_acked": la,
                       "metrics_before": format!("{:?}", l.metrics_before), "metrics_after": format!("{:?}", after), "mtu_probe": l.mtu_probe}),
            );
        }
    }
}

impl Monitor for C09 {
    fn on_evt(&mut self, cx: &mut Ctx, ep: EpId, conn: u64, t: u64, e: &Evt) {
        if conn == u64::MAX {
            return;
        }
        let c = self.conns.entry((ep, conn)).or_default();
        match e {
            Evt::Started { remote_port, .. } => {
                c.path_port.insert(0, *remote_port);
            }
            Evt::PathCreated { path_id, remote_port } => {
                c.path_port.insert(*path_id, *remote_port);
            }
            Evt::ActivePath { remote_port, path_id } => {
                c.path_port.insert(*path_id, *remote_port);
            }
            Evt::PacketSent {
                space, pn, probe, ..
            } => {
                c.spaces[space.idx()].sent.insert(
                    *pn,
                    Sent {
                        t,
                        res: Res::Outstanding,
                        probe: *probe,
                        port: None,
                    },
                );
                if *probe {
                    c.probes.push((t, *space));
                    cx.feature("pto_probe");
                    // (d) PTO back-off. What can be observed are packets sent in probe mode.
                    // One expiry allows two of them (RFC 9002 6.2.4) and the implementation may
                    // send the second one much later (pacing; the allowance even survives an
                    // ACK and then marks the next ordinary packet). So, for the N-th probe-mode
                    // packet since the last ACK was received, at least E = ceil((N - stale)/2)
                    // expiries happened in between without any acknowledgement, the first not
                    // before T0 + p and each one at least twice the previous period after the
                    // one before: the packet cannot leave before T0 + (2^E - 1) * p, where T0
                    // is the last ack-eliciting transmission before the chain began and
                    // p = srtt + max(4 rttvar, 1 ms) (max_ack_delay left out: lenient; the RTT
                    // estimate cannot change without an ACK).
                    if *space == Space::App && c.confirmed {
                        if c.chain_n == 0 {
                            c.chain_t0 = if c.last_ae_tx == t { c.prev_ae_tx } else { c.last_ae_tx };
                            // An expiry's allowance of two probe packets survives the ACK that
                            // resets the back-off (seen: an expiry and an ACK at the same
                            // instant, both probes sent 120 and 200 ms later in probe mode with
                            // the back-off already reset): up to two packets of the chain may
                            // be left-overs.
                            c.chain_stale = 2;
                        }
                        c.chain_n += 1;
                        c.probes_since_expiry_marker += 1;
                        let n_eff = c.chain_n.saturating_sub(c.chain_stale);
                        let e = (n_eff + 1) / 2;
                        if let (Some(m), true) = (c.metrics.values().next(), c.chain_t0 > 0 && c.chain_t0 < t && e >= 1) {
                            let p = m.smoothed_rtt + (4 * m.rtt_variance).max(GRANULARITY_US);
                            let expected = p.saturating_mul((1u64 << e.min(20)) - 1);
                            let got = t - c.chain_t0;
                            cx.summary.count("c09.pto_probe_packets_timed", 1);
                            cx.summary.max("c09.max_consecutive_ptos", e as i64);
                            if e >= 2 {
                                cx.summary.count("c09.pto_backoff_steps_checked", 1);
                            }
                            // timers fire up to one granularity early, once per expiry
                            if got + e as u64 * GRANULARITY_US < expected && c.metrics.len() == 1 {
                                cx.violate(
                                    "C09",
                                    "pto-fired-early",
                                    format!(
                                        "ep{ep} c{conn}: probe-mode packet #{} since the last ACK (at least {e} consecutive probe timeouts) left {got}us after the last ack-eliciting packet before the chain; with srtt {}us, rttvar {}us that takes at least {expected}us (period doubling per consecutive expiry)",
                                        c.chain_n, m.smoothed_rtt, m.rtt_variance
                                    ),
                                    json!({"ep": ep, "conn": conn, "n": c.chain_n, "stale": c.chain_stale, "expiries": e, "interval_us": got, "expected_us": expected, "metrics": format!("{m:?}")}),
                                );
                            }
                        }
                    }
                }
            }
            Evt::AckRange { space, lo, hi, .. } => {
                // any acknowledgement may reset the back-off
                c.chain_n = 0;
                let acked: Vec<u64> = c.in_flight[space.idx()].range(*lo..=*hi).copied().collect();
                for pn in acked {
                    c.in_flight[space.idx()].remove(&pn);
                }
                let s = &mut c.spaces[space.idx()];
                for (pn, st) in s.sent.range_mut(*lo..=*hi) {
                    match st.res {
                        Res::Outstanding => {
                            st.res = Res::Acked;
                            cx.summary.count("c09.acked", 1);
                            let _ = pn;
                        }
                        Res::Acked => {}
                        Res::Lost => {
                            // spurious loss: acknowledged after having been declared lost
                            cx.summary.count("c09.acked_after_lost", 1);
                        }
                    }
                }
                if s.largest_acked.map(|l| *hi > l).unwrap_or(true) {
                    s.largest_acked = Some(*hi);
                    c.last_acked_t = t;
                    c.probes.clear();
                }
            }
            Evt::PacketLost {
                space,
                pn,
                path_id,
                mtu_probe,
                ..
            } => {
                cx.feature("loss");
                c.in_flight[space.idx()].remove(pn);
                let s = &mut c.spaces[space.idx()];
                let la = s.largest_acked;
                match s.sent.get_mut(pn) {
                    None => {
                        cx.summary.count("c09.lost_unknown_pn", 1);
                    }
                    Some(st) => {
                        match st.res {
                            Res::Outstanding => {}
                            Res::Acked => cx.violate(
                                "C09",
                                "lost-after-acked",
                                format!("ep{ep} c{conn} {space:?}: packet {pn} declared lost after it had been acknowledged"),
                                json!({"ep": ep, "conn": conn, "pn": pn}),
                            ),
                            Res::Lost => cx.violate(
                                "C09",
                                "lost-twice",
                                format!("ep{ep} c{conn} {space:?}: packet {pn} declared lost twice"),
                                json!({"ep": ep, "conn": conn, "pn": pn}),
                            ),
                        }
                        st.res = Res::Lost;
                        let t_sent = st.t;
                        // The event names the path the ACK arrived on, not the path the packet
                        // was sent on (recovery/manager.rs builds it from `current_path_id`).
                        // The packet has to be judged against the estimates of ITS path: the
                        // one whose remote port the network tap saw the packet leave for.
                        let sent_path = st.port.and_then(|port| {
                            c.path_port.iter().filter(|(_, p)| **p == port).map(|(id, _)| *id).max()
                        });
                        let l = PendingLoss {
                            space: *space,
                            pn: *pn,
                            t,
                            t_sent,
                            largest_acked: la,
                            path_id: sent_path.unwrap_or(*path_id),
                            mtu_probe: *mtu_probe,
                            metrics_before: c.metrics.get(&sent_path.unwrap_or(*path_id)).cloned(),
                        };
                        match sent_path {
                            Some(sp) if sp != *path_id => {
                                // an ACK on another path does not touch this path's RTT
                                // estimate: judge right away with what is known about it
                                cx.summary.count("c09.loss_declared_via_other_path", 1);
                                cx.feature("loss_across_paths");
                                if l.metrics_before.is_some() {
                                    Self::judge(cx, ep, conn, &l, None);
                                } else {
                                    cx.summary.count("c09.loss_without_metrics", 1);
                                }
                            }
                            _ => c.pending.push(l),
                        }
                    }
                }
            }
            Evt::Metrics(m) => {
                if m.pto_count > c.last_pto_count {
                    // a probe timeout expired (the back-off went up): new allowance of two
                    c.probes_since_expiry_marker = 0;
                    cx.summary.count("c09.pto_expiries_seen", 1);
                }
                c.last_pto_count = m.pto_count;
                // (c) no leak: when every in-flight packet the endpoint ever produced is
                // resolved, the controller's bytes-in-flight figure must be back at zero
                let stale = c.stale_metrics > 0;
                c.stale_metrics = c.stale_metrics.saturating_sub(1);
                if !stale && !c.closed && c.in_flight.iter().all(|s| s.is_empty()) {
                    cx.summary.count("c09.bif_checked_at_quiescence", 1);
                    if m.bif > 0 {
                        cx.violate(
                            "C09",
                            "bif-leak",
                            format!(
                                "ep{ep} c{conn}: every in-flight packet is acknowledged, lost or discarded, yet path {} still reports {} bytes in flight",
                                m.path_id, m.bif
                            ),
                            json!({"ep": ep, "conn": conn, "metrics": format!("{m:?}")}),
                        );
                    }
                }
                // (d) RTT sanity
                let first = !c.metrics.contains_key(&m.path_id);
                let initial = self.initial_rtt_us.get(ep).copied().unwrap_or(333_000);
                let has_sample = m.latest_rtt != initial || m.min_rtt != initial || !first;
                let _ = has_sample;
                if m.min_rtt > m.latest_rtt && m.latest_rtt > 0 {
                    cx.violate(
                        "C09",
                        "min-rtt-above-latest",
                        format!("ep{ep} c{conn}: min_rtt {}us > latest_rtt {}us", m.min_rtt, m.latest_rtt),
                        json!({"metrics": format!("{m:?}")}),
                    );
                }
                let lo = c.rtt_lo.entry(m.path_id).or_insert(u64::MAX);
                *lo = (*lo).min(m.min_rtt).min(m.latest_rtt);
                let hi = c.rtt_hi.entry(m.path_id).or_insert(0);
                *hi = (*hi).max(m.latest_rtt).max(initial);
                if m.smoothed_rtt > *hi || m.smoothed_rtt < (*lo).min(initial) {
                    let (lo, hi) = (*lo, *hi);
                    cx.violate(
                        "C09",
                        "srtt-outside-samples",
                        format!("ep{ep} c{conn}: smoothed_rtt {}us outside the range of samples [{lo},{hi}]us", m.smoothed_rtt),
                        json!({"metrics": format!("{m:?}"), "lo": lo, "hi": hi}),
                    );
                }
                cx.summary.count("c09.metrics_checked", 1);
                // resolve pending losses of this path with the metrics that follow them
                let mut rest = Vec::new();
                for l in std::mem::take(&mut c.pending) {
                    if l.path_id == m.path_id {
                        Self::judge(cx, ep, conn, &l, Some(m));
                    } else {
                        rest.push(l);
                    }
                }
                c.pending = rest;
                c.metrics.insert(m.path_id, m.clone());
            }
            Evt::SpaceDiscarded { space } => {
                c.in_flight[space.idx()].clear();
                // recovery::Manager::on_packet_number_space_discarded publishes the recovery
                // metrics *before* it takes the discarded bytes out of the controller: the
                // metrics event that follows is one step behind
                c.stale_metrics = 1;
                let s = &mut c.spaces[space.idx()];
                s.discarded = true;
                let n = s.sent.values().filter(|x| x.res == Res::Outstanding).count();
                cx.summary.count("c09.discarded_outstanding", n as u64);
                if n > 0 {
                    cx.feature("discard_with_outstanding");
                }
                s.sent.clear();
            }
            Evt::Closed(_) => c.closed = true,
            Evt::Handshake { status } => {
                if *status == "confirmed" {
                    c.confirmed = true;
                }
            }
            _ => {}
        }
    }

    fn on_wire(&mut self, cx: &mut Ctx, w: &Wire, _fate: &Fate) {
        if w.injected {
            return;
        }
        let Some(src) = w.src else { return };
        // A client that accepted a Retry discards every Initial packet it had outstanding and
        // starts over with Initial packets that carry the token (a Retry it rejects - wrong
        // integrity tag, second Retry - changes nothing): the first token-bearing Initial on
        // the wire marks the point.
        if src != SERVER && !self.retry_seen.contains(&src) && w.bytes.first().map(|b| b & 0xf0) == Some(0xc0) {
            if let Ok(vq_wire::Header::Long { ty: vq_wire::LongType::Initial, token, .. }) = vq_wire::header(&w.bytes, 0) {
                if !token.is_empty() {
                    self.retry_seen.insert(src);
                    cx.summary.count("c09.retries_accepted", 1);
                    let keep: Vec<u64> = w.pkts.iter().filter(|(_, s, _)| *s == Space::Initial).map(|(_, _, pn)| *pn).collect();
                    for (conn, _, _) in w.pkts.iter().take(1) {
                        if let Some(c) = self.conns.get_mut(&(src, *conn)) {
                            c.in_flight[Space::Initial.idx()].retain(|pn| keep.contains(pn));
                        }
                    }
                }
            }
        }
        for (conn, space, pn) in &w.pkts {
            if let Some(c) = self.conns.get_mut(&(src, *conn)) {
                if let Some(st) = c.spaces[space.idx()].sent.get_mut(pn) {
                    st.port = Some(w.dst_port);
                }
            }
        }
    }

    fn on_tx(&mut self, _cx: &mut Ctx, p: &Pkt) {
        if p.ack_eliciting() || p.frames.iter().any(|f| matches!(f, vq_wire::Frame::Padding { .. })) {
            let c = self.conns.entry((p.ep, p.conn)).or_default();
            if !c.spaces[p.space.idx()].discarded {
                c.in_flight[p.space.idx()].insert(p.pn);
            }
        }
        if p.space == Space::App && p.ack_eliciting() {
            let c = self.conns.entry((p.ep, p.conn)).or_default();
            if p.t > c.last_ae_tx {
                c.prev_ae_tx = c.last_ae_tx;
                c.last_ae_tx = p.t;
            }
        }
    }

    fn on_cc(&mut self, cx: &mut Ctx, o: &CcObs) {
        let sh = self.cc.entry(o.cc_id).or_default();
        if !sh.init {
            sh.init = true;
            sh.bif = o.bif_before as i64;
        }
        if sh.bif != o.bif_before as i64 {
            cx.violate(
                "C09",
                "bif-changed-between-calls",
                format!("ep{} cc{}: bytes_in_flight changed from {} to {} between two calls of the controller interface", o.ep, o.cc_id, sh.bif, o.bif_before),
                json!({"obs": format!("{o:?}")}),
            );
            sh.bif = o.bif_before as i64;
        }
        match &o.call {
            CcCall::Sent { bytes, .. } => {
                sh.bif += *bytes as i64;
                sh.sent += *bytes as u64;
            }
            CcCall::Ack { bytes, .. } => {
                sh.bif -= *bytes as i64;
                sh.resolved += *bytes as u64;
            }
            CcCall::Lost { bytes, .. } => {
                sh.bif -= *bytes as i64;
                sh.resolved += *bytes as u64;
            }
            CcCall::Discarded { bytes } => {
                sh.bif -= *bytes as i64;
                sh.resolved += *bytes as u64;
            }
            _ => {}
        }
        cx.summary.count("c09.cc_calls_checked", 1);
        if sh.bif < 0 || sh.bif != o.bif_after as i64 {
            cx.violate(
                "C09",
                "bif-mismatch",
                format!(
                    "ep{} cc{}: after {:?} bytes_in_flight is {} but sent-acked-lost-discarded is {}",
                    o.ep, o.cc_id, o.call, o.bif_after, sh.bif
                ),
                json!({"obs": format!("{o:?}"), "shadow": sh.bif}),
            );
            sh.bif = o.bif_after as i64;
        }
    }

    fn finish(&mut self, cx: &mut Ctx) {
        for ((ep, conn), c) in self.conns.iter_mut() {
            for l in std::mem::take(&mut c.pending) {
                Self::judge(cx, *ep, *conn, &l, None);
            }
        }
    }
}
