//! C03 — a sender never exceeds the flow-control and stream limits its peer granted.
//!
//! Oracle, per endpoint and connection, online: the limit in force is the largest value the
//! endpoint has been *shown* — peer transport parameters plus every MAX_DATA /
//! MAX_STREAM_DATA / MAX_STREAMS frame in packets its RX tap has seen so far (RX-tap
//! visibility precedes frame processing, so the oracle's limit is >= the code's: lenient,
//! never stricter). Every STREAM / RESET_STREAM frame in the TX tap is checked against it.

use super::Monitor;
use crate::{params::Params, world::*};
use std::collections::{BTreeMap, HashMap};
use vq_util::json;

#[derive(Default)]
struct Conn {
    peer: Option<PeerParams>,
    /// initial_max_data of the peer (the event does not carry it): from the peer's config
    init_max_data: u64,
    max_data: u64,
    max_stream_data: HashMap<u64, u64>,
    max_streams_bidi: u64,
    max_streams_uni: u64,
    /// highest end offset (or final size) put on the wire per stream
    sent_end: BTreeMap<u64, u64>,
    sent_sum: u64,
    client_ep: Option<EpId>,
}

pub struct C03 {
    conns: HashMap<(EpId, u64), Conn>,
    server_data_window: u64,
    client_data_windows: Vec<u64>,
    /// C14: overrides for what the peer declared (rewritten transport parameters)
    override_for_client: Option<u64>,
    override_for_server: Option<u64>,
    prop: &'static str,
}

impl C03 {
    pub fn new(p: &Params) -> Self {
        C03 {
            conns: HashMap::new(),
            server_data_window: p.server.data_window,
            client_data_windows: p.clients.iter().map(|c| c.cfg.data_window).collect(),
            override_for_client: p.knobs.get("tp_max_data_seen_by_client").map(|v| *v as u64),
            override_for_server: p.knobs.get("tp_max_data_seen_by_server").map(|v| *v as u64),
            // when run as part of C14 ("operates under exactly the declared limits") violations
            // are reported under that property
            prop: if p.monitors.first().map(|m| m == "C14").unwrap_or(false) { "C14" } else { "C03" },
        }
    }

    fn stream_limit(c: &Conn, ep: EpId, id: u64) -> Option<u64> {
        let peer = c.peer.as_ref()?;
        let i_am_server = ep == SERVER;
        let initiated_by_server = id & 1 == 1;
        let uni = id & 2 == 2;
        let mine = initiated_by_server == i_am_server;
        let init = if uni {
            peer.initial_max_stream_data_uni
        } else if mine {
            // from the peer's view this stream is remote-initiated
            peer.initial_max_stream_data_bidi_remote
        } else {
            peer.initial_max_stream_data_bidi_local
        };
        Some(init.max(c.max_stream_data.get(&id).copied().unwrap_or(0)))
    }

    fn check_send(&mut self, cx: &mut Ctx, p: &Pkt, id: u64, end: u64, what: &str) {
        let ep = p.ep;
        let prop = self.prop;
        let c = self.conns.entry((ep, p.conn)).or_default();
        let i_am_server = ep == SERVER;
        let initiated_by_server = id & 1 == 1;
        let uni = id & 2 == 2;
        let mine = initiated_by_server == i_am_server;
        if c.peer.is_none() {
            cx.summary.count("c03.unchecked_no_peer_params", 1);
            return;
        }
        // per-stream limit
        let lim = Self::stream_limit(c, ep, id).unwrap();
        cx.summary.count("c03.frames_checked", 1);
        if end > lim {
            cx.violate(
                prop,
                "stream-limit-exceeded",
                format!("ep{ep} c{} {what} on stream {id} ends at {end} but the largest limit received is {lim}", p.conn),
                json!({"ep": ep, "conn": p.conn, "stream": id, "end": end, "limit": lim, "pkt": p.brief()}),
            );
        } else if end == lim && end > 0 {
            cx.summary.count("c03.tight_stream_limit", 1);
            cx.feature("tight_stream_limit");
        }
        // connection limit: sum of highest offsets
        let prev = c.sent_end.get(&id).copied().unwrap_or(0);
        if end > prev {
            c.sent_sum += end - prev;
            c.sent_end.insert(id, end);
        }
        let conn_lim = c.init_max_data.max(c.max_data);
        if c.sent_sum > conn_lim {
            cx.violate(
                prop,
                "connection-limit-exceeded",
                format!("ep{ep} c{} sum of stream offsets {} exceeds the largest MAX_DATA received {conn_lim}", p.conn, c.sent_sum),
                json!({"ep": ep, "conn": p.conn, "sum": c.sent_sum, "limit": conn_lim, "pkt": p.brief()}),
            );
        } else if c.sent_sum == conn_lim && conn_lim > 0 {
            cx.summary.count("c03.tight_conn_limit", 1);
            cx.feature("tight_conn_limit");
        }
        // stream-count limit for streams this endpoint opened
        if mine {
            let peer = c.peer.as_ref().unwrap();
            let lim = if uni {
                peer.initial_max_streams_uni.max(c.max_streams_uni)
            } else {
                peer.initial_max_streams_bidi.max(c.max_streams_bidi)
            };
            let idx = id >> 2;
            if idx >= lim {
                cx.violate(
                    prop,
                    "stream-count-exceeded",
                    format!("ep{ep} c{} references locally opened stream {id} (index {idx}) but the largest MAX_STREAMS received is {lim}", p.conn),
                    json!({"ep": ep, "conn": p.conn, "stream": id, "limit": lim, "pkt": p.brief()}),
                );
            } else if idx + 1 == lim {
                cx.summary.count("c03.tight_stream_count", 1);
                cx.feature("tight_stream_count");
            }
        }
    }
}

impl Monitor for C03 {
    fn on_evt(&mut self, cx: &mut Ctx, ep: EpId, conn: u64, _t: u64, e: &Evt) {
        match e {
            Evt::Started { remote_port, .. } => {
                let client_ep = if ep == SERVER {
                    cx.ep_of_port(*remote_port)
                } else {
                    Some(ep)
                };
                let c = self.conns.entry((ep, conn)).or_default();
                c.client_ep = client_ep;
                c.init_max_data = if ep == SERVER {
                    self.override_for_server.unwrap_or_else(|| {
                        client_ep
                            .and_then(|c| self.client_data_windows.get(c - 1).copied())
                            // unknown peer: be lenient
                            .unwrap_or(u64::MAX)
                    })
                } else {
                    self.override_for_client.unwrap_or(self.server_data_window)
                };
            }
            Evt::PeerParams(pp) => {
                let c = self.conns.entry((ep, conn)).or_default();
                c.peer = Some(pp.clone());
            }
            _ => {}
        }
    }

    fn on_rx(&mut self, cx: &mut Ctx, p: &Pkt) {
        let c = self.conns.entry((p.ep, p.conn)).or_default();
        for f in &p.frames {
            match f {
                Frame::MaxData { max } => {
                    c.max_data = c.max_data.max(*max);
                    cx.summary.count("c03.max_data_seen", 1);
                }
                Frame::MaxStreamData { id, max } => {
                    let e = c.max_stream_data.entry(*id).or_insert(0);
                    *e = (*e).max(*max);
                    cx.summary.count("c03.max_stream_data_seen", 1);
                }
                Frame::MaxStreams { bidi, max } => {
                    if *bidi {
                        c.max_streams_bidi = c.max_streams_bidi.max(*max);
                    } else {
                        c.max_streams_uni = c.max_streams_uni.max(*max);
                    }
                    cx.summary.count("c03.max_streams_seen", 1);
                }
                _ => {}
            }
        }
    }

    fn on_tx(&mut self, cx: &mut Ctx, p: &Pkt) {
        if p.space != Space::App {
            return;
        }
        for f in &p.frames {
            match f {
                Frame::Stream {
                    id, offset, data, ..
                } => {
                    let end = offset + data.len() as u64;
                    self.check_send(cx, p, *id, end, "STREAM");
                }
                Frame::ResetStream { id, final_size, .. } => {
                    cx.summary.count("c03.resets_checked", 1);
                    self.check_send(cx, p, *id, *final_size, "RESET_STREAM final size");
                }
                _ => {}
            }
        }
    }
}
