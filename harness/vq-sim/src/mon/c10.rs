//! C10 (live part) — a running connection sends a congestion-controlled packet only while
//! bytes in flight are below the congestion window, apart from the allowances RFC 9002 grants
//! (probes on PTO expiry, one packet when entering recovery). Also checks, on every call the
//! live connections make on the real controllers, the window floor and the in-flight counter.
//!
//! Observation: the congestion-controller proxy records every trait call with the
//! controller's window / bytes-in-flight before and after; the `packet_sent` event that
//! follows each `on_packet_sent` call names the transmission mode.

use super::Monitor;
use crate::{params::Params, world::*};
use std::collections::HashMap;
use vq_util::json;

pub struct C10 {
    /// time of the last window reduction per CUBIC controller
    last_reduction: HashMap<u64, u64>,
    /// on_packet_sent observation waiting for the packet_sent event of the same packet
    pending: HashMap<EpId, CcObs>,
    mtu: HashMap<u64, u16>,
    /// persistent congestion oracle, per (endpoint, connection)
    pc: HashMap<(EpId, u64), PcState>,
    /// (endpoint, remote port) -> time of the latest `persistent = true` loss call
    pc_declared: HashMap<(EpId, u16), u64>,
    cubic: Vec<bool>,
}

/// What is needed to tell, from packet-level events alone, that a loss-detection pass
/// established persistent congestion (RFC 9002 7.6.2)
#[derive(Default)]
struct PcState {
    remote_port: u16,
    paths: u32,
    /// 1-RTT packets handed to the TX tap: pn -> (send time, ack-eliciting)
    sent: std::collections::BTreeMap<u64, (u64, bool)>,
    /// packets declared lost at the current instant: (pn, is an MTU probe)
    batch: Vec<(u64, bool)>,
    batch_t: u64,
    /// estimates before the current batch
    before: Option<Metrics>,
    /// time of the first RTT sample
    first_sample_t: Option<u64>,
    initial_rtt: u64,
}

impl C10 {
    pub fn new(_p: &Params) -> Self {
        C10 {
            last_reduction: HashMap::new(),
            pending: HashMap::new(),
            mtu: HashMap::new(),
            pc: HashMap::new(),
            pc_declared: HashMap::new(),
            cubic: std::iter::once(!_p.server.bbr).chain(_p.clients.iter().map(|c| !c.cfg.bbr)).collect(),
        }
    }

    fn judge(cx: &mut Ctx, o: &CcObs, mode: Option<&str>, probe: bool) {
        let CcCall::Sent { bytes, .. } = &o.call else { return };
        if *bytes == 0 {
            cx.summary.count("c10.sends_not_congestion_controlled", 1);
            return;
        }
        cx.summary.count("c10.sends_checked", 1);
        if o.bif_before < o.cwnd_before {
            let room = o.cwnd_before - o.bif_before;
            cx.summary.min("c10.min_room_when_sending", room as i64);
            if (room as usize) < *bytes {
                cx.summary.count("c10.sends_overshooting_by_less_than_a_datagram", 1);
            }
            return;
        }
        // at or above the window: only the RFC 9002 section 7 allowances remain
        let allowance = if probe || mode == Some("probe") {
            "pto-probe"
        } else if o.fast_retx_before {
            "fast-retransmission"
        } else if mode == Some("mtu") {
            "mtu-probe"
        } else if mode == Some("pathval") {
            "path-validation"
        } else if mode.is_none() {
            "unknown-mode"
        } else {
            ""
        };
        if allowance.is_empty() {
            cx.violate(
                "C10",
                "sent-while-window-full",
                format!(
                    "ep{} cc{}: a {}-byte congestion-controlled packet was sent in {:?} mode with {} bytes in flight and a window of {} ({})",
                    o.ep, o.cc_id, bytes, mode, o.bif_before, o.cwnd_before, if o.bbr { "BBR" } else { "CUBIC" }
                ),
                json!({"obs": format!("{o:?}"), "mode": mode}),
            );
        } else {
            cx.summary.count(&format!("c10.sent_at_limit.{allowance}"), 1);
            cx.feature("sent_at_window_limit");
        }
    }
}

impl Monitor for C10 {
    fn on_cc(&mut self, cx: &mut Ctx, o: &CcObs) {
        match &o.call {
            CcCall::New { mtu } => {
                self.mtu.insert(o.cc_id, *mtu);
            }
            CcCall::Mtu { mtu } => {
                self.mtu.insert(o.cc_id, *mtu);
                cx.feature("mtu_changed");
            }
            CcCall::Sent { .. } => {
                if let Some(prev) = self.pending.insert(o.ep, o.clone()) {
                    Self::judge(cx, &prev, None, false);
                }
            }
            CcCall::Lost { persistent, .. } => {
                cx.feature("cc_loss");
                if *persistent {
                    self.pc_declared.insert((o.ep, o.peer_port), cx.now);
                    cx.feature("persistent_congestion");
                    cx.summary.count("c10.persistent_congestion_events", 1);
                }
                if !o.bbr && o.cwnd_after > o.cwnd_before {
                    cx.violate(
                        "C10",
                        "cubic-loss-grew-window",
                        format!("ep{} cc{}: a loss call increased the CUBIC window from {} to {}", o.ep, o.cc_id, o.cwnd_before, o.cwnd_after),
                        json!({"obs": format!("{o:?}")}),
                    );
                }
            }
            CcCall::Ecn { .. } => {
                cx.feature("cc_ecn");
                cx.summary.count("c10.ecn_congestion_calls", 1);
                if !o.bbr && o.cwnd_after > o.cwnd_before {
                    cx.violate(
                        "C10",
                        "cubic-ecn-grew-window",
                        format!("ep{} cc{}: an ECN call increased the CUBIC window from {} to {}", o.ep, o.cc_id, o.cwnd_before, o.cwnd_after),
                        json!({"obs": format!("{o:?}")}),
                    );
                }
            }
            _ => {}
        }
        // CUBIC shrinks the window at most once per round trip: a second reduction can only be
        // caused by a packet sent after the first one, and nothing sent after an instant can
        // be acknowledged or overtaken earlier than one network round trip later. The window
        // collapse of persistent congestion is exempt (RFC 9002 7.6.2).
        if !o.bbr {
            let reduced = match &o.call {
                CcCall::Lost { persistent, .. } => !*persistent && o.cwnd_after < o.cwnd_before,
                CcCall::Ecn { .. } => o.cwnd_after < o.cwnd_before,
                _ => false,
            };
            if reduced {
                let now = cx.now;
                let min_factor = cx.params.net.rebind_delay_permille.iter().copied().min().unwrap_or(1000).min(1000);
                let net_rtt = 2 * cx.params.net.delay_us * min_factor / 1000;
                cx.summary.count("c10.cubic_window_reductions", 1);
                if let Some(prev) = self.last_reduction.insert(o.cc_id, now) {
                    if now > prev {
                        cx.summary.min("c10.min_gap_between_reductions_in_network_rtts_permille", ((now - prev) * 1000 / net_rtt.max(1)) as i64);
                    }
                    if now - prev + 1_000 < net_rtt {
                        cx.violate(
                            "C10",
                            "cubic-reduced-twice-within-rtt",
                            format!(
                                "ep{} cc{}: CUBIC window reduced at {}us ({} -> {}) only {}us after the previous reduction; the network round trip is at least {}us",
                                o.ep, o.cc_id, now, o.cwnd_before, o.cwnd_after, now - prev, net_rtt
                            ),
                            json!({"obs": format!("{o:?}"), "previous_reduction_us": prev, "network_rtt_us": net_rtt}),
                        );
                    }
                }
            }
        }
        // the floor holds after every call
        if let Some(mtu) = self.mtu.get(&o.cc_id) {
            let floor = (*mtu as u32) * if o.bbr { 4 } else { 2 };
            cx.summary.count("c10.calls_checked", 1);
            cx.summary
                .min("c10.min_window_over_floor", o.cwnd_after as i64 - floor as i64);
            if o.cwnd_after < floor {
                cx.violate(
                    "C10",
                    "window-below-minimum",
                    format!(
                        "ep{} cc{} ({}): window {} below the minimum {} (max datagram size {}) after {:?}",
                        o.ep, o.cc_id, if o.bbr { "BBR" } else { "CUBIC" }, o.cwnd_after, floor, mtu, o.call
                    ),
                    json!({"obs": format!("{o:?}"), "floor": floor}),
                );
            }
        }
    }

    fn on_tx(&mut self, _cx: &mut Ctx, p: &Pkt) {
        if p.space == Space::App {
            let st = self.pc.entry((p.ep, p.conn)).or_default();
            st.sent.insert(p.pn, (p.t, p.ack_eliciting()));
            if st.sent.len() > 20_000 {
                let cut = *st.sent.keys().nth(10_000).unwrap();
                st.sent = st.sent.split_off(&cut);
            }
        }
    }

    fn on_evt(&mut self, cx: &mut Ctx, ep: EpId, conn: u64, t: u64, e: &Evt) {
        if let Evt::PacketSent { mode, probe, .. } = e {
            if let Some(o) = self.pending.remove(&ep) {
                Self::judge(cx, &o, Some(mode), *probe);
            }
        }
        if conn == u64::MAX {
            return;
        }
        // ---- persistent congestion (CUBIC): a loss-detection pass that declares lost a run of
        // consecutively numbered 1-RTT packets on the connection's only path, whose first and
        // last packet are ack-eliciting, sent after the first RTT sample and further apart than
        // the persistent congestion duration, has established persistent congestion under
        // RFC 9002 7.6.2 (and under the stricter per-space / contiguous reading the
        // implementation documents): the controller must be told (its window collapses).
        let st = self.pc.entry((ep, conn)).or_default();
        match e {
            Evt::Started { remote_port, .. } => {
                st.remote_port = *remote_port;
                st.paths = 1;
            }
            Evt::PathCreated { .. } => st.paths += 1,
            Evt::PacketLost { space: Space::App, pn, mtu_probe, .. } => {
                if st.batch_t != t {
                    st.batch.clear();
                    st.batch_t = t;
                }
                st.batch.push((*pn, *mtu_probe));
            }
            Evt::Metrics(m) => {
                if st.first_sample_t.is_none() {
                    if st.initial_rtt == 0 {
                        st.initial_rtt = m.smoothed_rtt;
                    }
                    if m.latest_rtt != st.initial_rtt || m.min_rtt != st.initial_rtt {
                        st.first_sample_t = Some(t);
                    }
                }
                if !st.batch.is_empty() && st.batch_t == t && st.paths == 1 && self.cubic.get(ep).copied().unwrap_or(false) {
                    let batch = std::mem::take(&mut st.batch);
                    let dur = |m: &Metrics| 3 * (m.smoothed_rtt + (4 * m.rtt_variance).max(1_000) + m.max_ack_delay);
                    let need = dur(m).max(st.before.as_ref().map(dur).unwrap_or(0)) + 2_000;
                    // runs of consecutive packet numbers
                    let mut best: Option<(u64, u64, u64)> = None;
                    let mut i = 0;
                    while i < batch.len() {
                        let mut j = i;
                        while j + 1 < batch.len() && batch[j + 1].0 == batch[j].0 + 1 && !batch[j + 1].1 {
                            j += 1;
                        }
                        if !batch[i].1 {
                            // trim to ack-eliciting ends that were sent after the first sample
                            let ae = |pn: u64| st.sent.get(&pn).map(|x| x.1).unwrap_or(false);
                            let ts = |pn: u64| st.sent.get(&pn).map(|x| x.0);
                            let (mut a, mut b) = (i, j);
                            while a <= b && !(ae(batch[a].0) && ts(batch[a].0).zip(st.first_sample_t).map(|(x, f)| x > f).unwrap_or(false)) {
                                a += 1;
                            }
                            while b > a && !ae(batch[b].0) {
                                b -= 1;
                            }
                            if a < b {
                                if let (Some(t0), Some(t1)) = (ts(batch[a].0), ts(batch[b].0)) {
                                    let span = t1.saturating_sub(t0);
                                    if best.map(|x| span > x.2).unwrap_or(true) {
                                        best = Some((batch[a].0, batch[b].0, span));
                                    }
                                }
                            }
                        }
                        i = j + 1;
                    }
                    if let Some((a, b, span)) = best {
                        cx.summary.max("c10.max_lost_run_span_over_pc_duration_permille", (span * 1000 / need.max(1)) as i64);
                        if span > need {
                            cx.summary.count("c10.persistent_congestion_expected", 1);
                            cx.feature("persistent_congestion_expected");
                            let declared = self.pc_declared.get(&(ep, st.remote_port)).copied() == Some(t);
                            if !declared {
                                cx.violate(
                                    "C10",
                                    "persistent-congestion-not-declared",
                                    format!(
                                        "ep{ep} c{conn}: packets {a}..={b} (consecutive numbers, ack-eliciting ends, sent {span}us apart, after the first RTT sample) were declared lost in one pass; the persistent congestion duration is {need}us, yet the controller was not told and keeps a window of {} bytes",
                                        m.cwnd
                                    ),
                                    json!({"ep": ep, "conn": conn, "first": a, "last": b, "span_us": span, "pc_duration_us": need, "metrics": format!("{m:?}")}),
                                );
                            }
                        }
                    }
                }
                if st.batch_t != t {
                    st.before = Some(m.clone());
                }
            }
            _ => {}
        }
    }

    fn finish(&mut self, cx: &mut Ctx) {
        for (_, o) in self.pending.drain() {
            Self::judge(cx, &o, None, false);
        }
    }
}
