//! C10 (live part) — a running connection sends a congestion-controlled packet only while
//! bytes in flight are below the congestion window, apart from the allowances RFC 9002 grants
//! (probes on PTO expiry, one packet when entering recovery). Also checks, on every call the
//! live connections make on the real controllers, the window floor and the in-flight counter.
//!
//! Observation: the congestion-controller proxy records every trait call with the
//! controller's window / bytes-in-flight before and after; the `packet_sent` event that
//! follows each `on_packet_sent` call names the transmission mode.

use super::Monitor;
use crate::{params::Params, world::*};
use std::collections::HashMap;
use vq_util::json;

pub struct C10 {
    /// time of the last window reduction per CUBIC controller
    last_reduction: HashMap<u64, u64>,
    /// on_packet_sent observation waiting for the packet_sent event of the same packet
    pending: HashMap<EpId, CcObs>,
    mtu: HashMap<u64, u16>,
}

impl C10 {
    pub fn new(_p: &Params) -> Self {
        C10 {
            last_reduction: HashMap::new(),
            pending: HashMap::new(),
            mtu: HashMap::new(),
        }
    }

    fn judge(cx: &mut Ctx, o: &CcObs, mode: Option<&str>, probe: bool) {
        let CcCall::Sent { bytes, .. } = &o.call else { return };
        if *bytes == 0 {
            cx.summary.count("c10.sends_not_congestion_controlled", 1);
            return;
        }
        cx.summary.count("c10.sends_checked", 1);
        if o.bif_before < o.cwnd_before {
            let room = o.cwnd_before - o.bif_before;
            cx.summary.min("c10.min_room_when_sending", room as i64);
            if (room as usize) < *bytes {
                cx.summary.count("c10.sends_overshooting_by_less_than_a_datagram", 1);
            }
            return;
        }
        // at or above the window: only the RFC 9002 section 7 allowances remain
        let allowance = if probe || mode == Some("probe") {
            "pto-probe"
        } else if o.fast_retx_before {
            "fast-retransmission"
        } else if mode == Some("mtu") {
            "mtu-probe"
        } else if mode == Some("pathval") {
            "path-validation"
        } else if mode.is_none() {
            "unknown-mode"
        } else {
            ""
        };
        if allowance.is_empty() {
            cx.violate(
                "C10",
                "sent-while-window-full",
                format!(
                    "ep{} cc{}: a {}-byte congestion-controlled packet was sent in {:?} mode with {} bytes in flight and a window of {} ({})",
                    o.ep, o.cc_id, bytes, mode, o.bif_before, o.cwnd_before, if o.bbr { "BBR" } else { "CUBIC" }
                ),
                json!({"obs": format!("{o:?}"), "mode": mode}),
            );
        } else {
            cx.summary.count(&format!("c10.sent_at_limit.{allowance}"), 1);
            cx.feature("sent_at_window_limit");
        }
    }
}

impl Monitor for C10 {
    fn on_cc(&mut self, cx: &mut Ctx, o: &CcObs) {
        match &o.call {
            CcCall::New { mtu } => {
                self.mtu.insert(o.cc_id, *mtu);
            }
            CcCall::Mtu { mtu } => {
                self.mtu.insert(o.cc_id, *mtu);
                cx.feature("mtu_changed");
            }
            CcCall::Sent { .. } => {
                if let Some(prev) = self.pending.insert(o.ep, o.clone()) {
                    Self::judge(cx, &prev, None, false);
                }
            }
            CcCall::Lost { persistent, .. } => {
                cx.feature("cc_loss");
                if *persistent {
                    cx.feature("persistent_congestion");
                    cx.summary.count("c10.persistent_congestion_events", 1);
                }
                if !o.bbr && o.cwnd_after > o.cwnd_before {
                    cx.violate(
                        "C10",
                        "cubic-loss-grew-window",
                        format!("ep{} cc{}: a loss call increased the CUBIC window from {} to {}", o.ep, o.cc_id, o.cwnd_before, o.cwnd_after),
                        json!({"obs": format!("{o:?}")}),
                    );
                }
            }
            CcCall::Ecn { .. } => {
                cx.feature("cc_ecn");
                cx.summary.count("c10.ecn_congestion_calls", 1);
                if !o.bbr && o.cwnd_after > o.cwnd_before {
                    cx.violate(
                        "C10",
                        "cubic-ecn-grew-window",
                        format!("ep{} cc{}: an ECN call increased the CUBIC window from {} to {}", o.ep, o.cc_id, o.cwnd_before, o.cwnd_after),
                        json!({"obs": format!("{o:?}")}),
                    );
                }
            }
            _ => {}
        }
        // CUBIC shrinks the window at most once per round trip: a second reduction can only be
        // caused by a packet sent after the first one, and nothing sent after an instant can
        // be acknowledged or overtaken earlier than one network round trip later. The window
        // collapse of persistent congestion is exempt (RFC 9002 7.6.2).
        if !o.bbr {
            let reduced = match &o.call {
                CcCall::Lost { persistent, .. } => !*persistent && o.cwnd_after < o.cwnd_before,
                CcCall::Ecn { .. } => o.cwnd_after < o.cwnd_before,
                _ => false,
            };
            if reduced {
                let now = cx.now;
                let min_factor = cx.params.net.rebind_delay_permille.iter().copied().min().unwrap_or(1000).min(1000);
                let net_rtt = 2 * cx.params.net.delay_us * min_factor / 1000;
                cx.summary.count("c10.cubic_window_reductions", 1);
                if let Some(prev) = self.last_reduction.insert(o.cc_id, now) {
                    if now > prev {
                        cx.summary.min("c10.min_gap_between_reductions_in_network_rtts_permille", ((now - prev) * 1000 / net_rtt.max(1)) as i64);
                    }
                    if now - prev + 1_000 < net_rtt {
                        cx.violate(
                            "C10",
                            "cubic-reduced-twice-within-rtt",
                            format!(
                                "ep{} cc{}: CUBIC window reduced at {}us ({} -> {}) only {}us after the previous reduction; the network round trip is at least {}us",
                                o.ep, o.cc_id, now, o.cwnd_before, o.cwnd_after, now - prev, net_rtt
                            ),
                            json!({"obs": format!("{o:?}"), "previous_reduction_us": prev, "network_rtt_us": net_rtt}),
                        );
                    }
                }
            }
        }
        // the floor holds after every call
        if let Some(mtu) = self.mtu.get(&o.cc_id) {
            let floor = (*mtu as u32) * if o.bbr { 4 } else { 2 };
            cx.summary.count("c10.calls_checked", 1);
            cx.summary
                .min("c10.min_window_over_floor", o.cwnd_after as i64 - floor as i64);
            if o.cwnd_after < floor {
                cx.violate(
                    "C10",
                    "window-below-minimum",
                    format!(
                        "ep{} cc{} ({}): window {} below the minimum {} (max datagram size {}) after {:?}",
                        o.ep, o.cc_id, if o.bbr { "BBR" } else { "CUBIC" }, o.cwnd_after, floor, mtu, o.call
                    ),
                    json!({"obs": format!("{o:?}"), "floor": floor}),
                );
            }
        }
    }

    fn on_evt(&mut self, cx: &mut Ctx, ep: EpId, _conn: u64, _t: u64, e: &Evt) {
        if let Evt::PacketSent { mode, probe, .. } = e {
            if let Some(o) = self.pending.remove(&ep) {
                Self::judge(cx, &o, Some(mode), *probe);
            }
        }
    }

    fn finish(&mut self, cx: &mut Ctx) {
        for (_, o) in self.pending.drain() {
            Self::judge(cx, &o, None, false);
        }
    }
}
