//! C10 (live part) — a running connection sends a congestion-controlled packet only while
//! bytes in flight are below the congestion window, apart from the allowances RFC 9002 grants
//! (probes on PTO expiry, one packet when entering recovery). Also checks, on every call the
//! live connections make on the real controllers, the window floor and the in-flight counter.
//!
//! Observation: the congestion-controller proxy records every trait call with the
//! controller's window / bytes-in-flight before and after; the `packet_sent` event that
//! follows each `on_packet_sent` call names the transmission mode.

use super::Monitor;
use crate::{params::Params, world::*};
use std::collections::HashMap;
use vq_util::json;

pub struct C10 {
    /// on_packet_sent observation waiting for the packet_sent event of the same packet
    pending: HashMap<EpId, CcObs>,
    mtu: HashMap<u64, u16>,
}

impl C10 {
    pub fn new(_p: &Params) -> Self {
        C10 {
            pending: HashMap::new(),
            mtu: HashMap::new(),
        }
    }

    fn judge(cx: &mut Ctx, o: &CcObs, mode: Option<&str>, probe: bool) {
        let CcCall::Sent { bytes, .. } = &o.call else { return };
        if *bytes == 0 {
            cx.summary.count("c10.sends_not_congestion_controlled", 1);
            return;
        }
        cx.summary.count("c10.sends_checked", 1);
        if o.bif_before < o.cwnd_before {
            let room = o.cwnd_before - o.bif_before;
            cx.summary.min("c10.min_room_when_sending", room as i64);
            if (room as usize) < *bytes {
                cx.summary.count("c10.sends_overshooting_by_less_than_a_datagram", 1);
            }
            return;
        }
        // at or above the window: only the RFC 9002 section 7 allowances remain
        let allowance = if probe || mode == Some("probe") {
            "pto-probe"
        } else if o.fast_retx_before {
            "fast-retransmission"
        } else if mode == Some("mtu") {
            "mtu-probe"
        } else if mode == Some("pathval") {
            "path-validation"
        } else if mode.is_none() {
            "unknown-mode"
        } else {
            ""
        };
        if allowance.is_empty() {
            cx.violate(
                "C10",
                "sent-while-window-full",
                format!(
                    "ep{} cc{}: a {}-byte congestion-controlled packet was sent in {:?} mode with {} bytes in flight and a window of {} ({})",
                    o.ep, o.cc_id, bytes, mode, o.bif_before, o.cwnd_before, if o.bbr { "BBR" } else { "CUBIC" }
                ),
                json!({"obs": format!("{o:?}"), "mode": mode}),
            );
        } else {
            cx.summary.count(&format!("c10.sent_at_limit.{allowance}"), 1);
            cx.feature("sent_at_window_limit");
        }
    }
}

impl Monitor for C10 {
    fn on_cc(&mut self, cx: &mut Ctx, o: &CcObs) {
        match &o.call {
            CcCall::New { mtu } => {
                self.mtu.insert(o.cc_id, *mtu);
            }
            CcCall::Mtu { mtu } => {
                self.mtu.insert(o.cc_id, *mtu);
                cx.feature("mtu_changed");
            }
            CcCall::Sent { .. } => {
                if let Some(prev) = self.pending.insert(o.ep, o.clone()) {
                    Self::judge(cx, &prev, None, false);
                }
            }
            CcCall::Lost { persistent, .. } => {
                cx.feature("cc_loss");
                if *persistent {
                    cx.feature("persistent_congestion");
                    cx.summary.count("c10.persistent_congestion_events", 1);
                }
                if !o.bbr && o.cwnd_after > o.cwnd_before {
                    cx.violate(
                        "C10",
                        "cubic-loss-grew-window",
                        format!("ep{} cc{}: a loss call increased the CUBIC window from {} to {}", o.ep, o.cc_id, o.cwnd_before, o.cwnd_after),
                        json!({"obs": format!("{o:?}")}),
                    );
                }
            }
            CcCall::Ecn { .. } => {
                if !o.bbr && o.cwnd_after > o.cwnd_before {
                    cx.violate(
                        "C10",
                        "cubic-ecn-grew-window",
                        format!("ep{} cc{}: an ECN call increased the CUBIC window from {} to {}", o.ep, o.cc_id, o.cwnd_before, o.cwnd_after),
                        json!({"obs": format!("{o:?}")}),
                    );
                }
            }
            _ => {}
        }
        // the floor holds after every call
        if let Some(mtu) = self.mtu.get(&o.cc_id) {
            let floor = (*mtu as u32) * if o.bbr { 4 } else { 2 };
            cx.summary.count("c10.calls_checked", 1);
            cx.summary
                .min("c10.min_window_over_floor", o.cwnd_after as i64 - floor as i64);
            if o.cwnd_after < floor {
                cx.violate(
                    "C10",
                    "window-below-minimum",
                    format!(
                        "ep{} cc{} ({}): window {} below the minimum {} (max datagram size {}) after {:?}",
                        o.ep, o.cc_id, if o.bbr { "BBR" } else { "CUBIC" }, o.cwnd_after, floor, mtu, o.call
                    ),
                    json!({"obs": format!("{o:?}"), "floor": floor}),
                );
            }
        }
    }

    fn on_evt(&mut self, cx: &mut Ctx, ep: EpId, _conn: u64, _t: u64, e: &Evt) {
        if let Evt::PacketSent { mode, probe, .. } = e {
            if let Some(o) = self.pending.remove(&ep) {
                Self::judge(cx, &o, Some(mode), *probe);
            }
        }
    }

    fn finish(&mut self, cx: &mut Ctx) {
        for (_, o) in self.pending.drain() {
            Self::judge(cx, &o, None, false);
        }
    }
}
