//! C15 (end-to-end part) — 1-RTT keys survive key updates on live connections.
//!
//! With hook H1 the key-update window is set so that both endpoints rotate their 1-RTT keys
//! every few dozen packets, under loss, duplication and reordering (within one PTO). Oracle:
//! application data stays intact (C01's monitor runs alongside), genuine intact datagrams
//! never fail decryption (C08's monitor runs alongside, relabelled), no connection closes with
//! KEY_UPDATE_ERROR / AEAD_LIMIT_REACHED / a crypto error, key generations advance one by one,
//! and both sides really performed updates (the run is inconclusive for this part otherwise).

use super::Monitor;
use crate::{params::Params, world::*};
use std::collections::HashMap;
use vq_util::json;

pub struct C15 {
    /// connection -> client endpoint (pairs the two ends of a connection)
    client_of: HashMap<(EpId, u64), EpId>,
    /// latest generation per (client endpoint, is_server_side)
    side_gen: HashMap<(EpId, bool), u16>,
    gens: HashMap<(EpId, u64), u16>,
    updates: HashMap<(EpId, u64), u32>,
    tx_pkts: HashMap<(EpId, u64), u64>,
    interval: u64,
    errors: Vec<String>,
}

impl C15 {
    pub fn new(p: &Params) -> Self {
        C15 {
            client_of: HashMap::new(),
            side_gen: HashMap::new(),
            gens: HashMap::new(),
            updates: HashMap::new(),
            tx_pkts: HashMap::new(),
            interval: p.knob("c15_interval").max(1) as u64,
            errors: Vec::new(),
        }
    }
}

impl Monitor for C15 {
    fn on_tx(&mut self, _cx: &mut Ctx, p: &Pkt) {
        if p.space == Space::App {
            *self.tx_pkts.entry((p.ep, p.conn)).or_insert(0) += 1;
        }
    }

    fn on_evt(&mut self, cx: &mut Ctx, ep: EpId, conn: u64, _t: u64, e: &Evt) {
        match e {
            Evt::Started { remote_port, .. } => {
                let client = if ep == SERVER { cx.ep_of_port(*remote_port) } else { Some(ep) };
                if let Some(c) = client {
                    self.client_of.insert((ep, conn), c);
                }
            }
            Evt::KeyUpdate { generation } => {
                // the two ends of a connection rotate one after the other: an honest pair is
                // never more than one generation apart. A spurious rotation (e.g. triggered by
                // a reordered packet of the previous phase) makes one end run ahead.
                if let Some(client) = self.client_of.get(&(ep, conn)).copied() {
                    self.side_gen.insert((client, ep == SERVER), *generation);
                    if let Some(peer) = self.side_gen.get(&(client, ep != SERVER)) {
                        let d = (*generation as i32 - *peer as i32).abs();
                        cx.summary.max("c15.max_generation_gap", d as i64);
                        if d > 1 {
                            cx.violate(
                                "C15",
                                "key-generation-divergence",
                                format!(
                                    "ep{ep} c{conn} moved to 1-RTT key generation {generation} while its peer is at {peer}: one end rotated without the other (packets with higher numbers end up protected by an older key, or keys get out of step)"
                                ),
                                json!({"ep": ep, "conn": conn, "generation": generation, "peer_generation": peer}),
                            );
                        }
                    }
                }
                let prev = self.gens.insert((ep, conn), *generation);
                match prev {
                    None => {}
                    Some(p) if *generation == p + 1 => {
                        *self.updates.entry((ep, conn)).or_insert(0) += 1;
                        cx.summary.count("c15.key_updates", 1);
                        cx.feature("key_updated");
                    }
                    Some(p) => cx.violate(
                        "C15",
                        "key-generation-jump",
                        format!("ep{ep} c{conn}: 1-RTT key generation went from {p} to {generation}"),
                        json!({"ep": ep, "conn": conn, "from": p, "to": generation}),
                    ),
                }
                cx.summary.max("c15.max_generation", *generation as i64);
            }
            Evt::Closed(CloseKind::Transport { code, reason, local, .. }) => {
                // KEY_UPDATE_ERROR, AEAD_LIMIT_REACHED, CRYPTO_ERROR range
                if *code == 0xe || *code == 0xf || (0x100..0x200).contains(code) {
                    cx.violate(
                        "C15",
                        format!("closed-with-crypto-error:{code:#x}"),
                        format!("ep{ep} c{conn}: connection closed with transport error {code:#x} ({reason}, local={local}) during key updates"),
                        json!({"ep": ep, "conn": conn, "code": code}),
                    );
                }
                self.errors.push(format!("ep{ep} c{conn}: {code:#x} {reason}"));
            }
            Evt::PacketDropped {
                decrypt_failed: true,
                ..
            } => cx.summary.count("c15.decrypt_failures", 1),
            _ => {}
        }
    }

    fn on_workload_done(&mut self, cx: &mut Ctx) {
        // did updates really happen? an endpoint that protected k*interval packets must have
        // rotated about k times; demand a third of that (an update needs a round trip)
        for ((ep, conn), n) in &self.tx_pkts {
            let expect = n / self.interval;
            let got = self.updates.get(&(*ep, *conn)).copied().unwrap_or(0) as u64;
            cx.summary.count("c15.expected_updates", expect);
            if expect >= 6 && got == 0 {
                cx.violate(
                    "C15",
                    "no-key-update-before-limit",
                    format!(
                        "ep{ep} c{conn}: {n} packets protected with an update due every {} packets, but the key was never updated",
                        self.interval
                    ),
                    json!({"ep": ep, "conn": conn, "packets": n, "interval": self.interval}),
                );
            }
        }
    }
}
