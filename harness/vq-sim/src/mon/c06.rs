//! C06 — only authentic packets have effect, and each at most once.
//!
//! An attacker inside the network (`Forger`) injects, between genuine datagrams of
//! established connections: random bytes behind a live header, bit-flipped / truncated /
//! extended / spliced copies of genuine datagrams, copies with a swapped connection id, and
//! exact replays (at once, later, many times).
//!
//! Oracle: (1) every packet an endpoint authenticates (RX tap) equals, byte for byte in
//! cleartext, a packet its peer's TX tap produced under the same (space, packet number), and
//! is authenticated at most once per connection and space; (2) ECN counts in emitted ACK
//! frames never exceed the number of packets authenticated in that space (ACK ranges are
//! C08's subset check, which also runs here); (3) application data stays intact (C01's
//! monitor runs alongside); (4) when genuine traffic is untouched, nothing fails: no error
//! close, no application error, every stream completes.

use super::Monitor;
use crate::{
    net::{Inject, Injector},
    params::Params,
    world::*,
};
use std::collections::{HashMap, HashSet, VecDeque};
use vq_util::{json, Rng};

pub struct C06 {
    /// cleartext of what each endpoint sent: (sender ep, client ep, space, pn) -> payload hash
    sent: HashMap<(EpId, EpId, Space, u64), u64>,
    /// what each endpoint authenticated: (receiver ep, conn, space, pn)
    seen: HashSet<(EpId, u64, Space, u64)>,
    rx_count: HashMap<(EpId, u64, Space), u64>,
    rx_set: HashMap<(EpId, u64, Space), std::collections::BTreeSet<u64>>,
    conn_client: HashMap<(EpId, u64), EpId>,
    pure_injection: bool,
    errors: Vec<String>,
    finished: HashSet<FlowKey>,
    ended: HashSet<FlowKey>,
    injected: u64,
}

impl C06 {
    pub fn new(p: &Params) -> Self {
        C06 {
            sent: HashMap::new(),
            seen: HashSet::new(),
            rx_count: HashMap::new(),
            rx_set: HashMap::new(),
            conn_client: HashMap::new(),
            pure_injection: !p.net.lossy(),
            errors: Vec::new(),
            finished: HashSet::new(),
            ended: HashSet::new(),
            injected: 0,
        }
    }
}

impl Monitor for C06 {
    fn on_evt(&mut self, cx: &mut Ctx, ep: EpId, conn: u64, _t: u64, e: &Evt) {
        match e {
            Evt::Started { remote_port, .. } => {
                let client = if ep == SERVER {
                    cx.ep_of_port(*remote_port)
                } else {
                    Some(ep)
                };
                if let Some(c) = client {
                    self.conn_client.insert((ep, conn), c);
                }
            }
            Evt::Closed(k) => {
                if !k.is_clean() {
                    self.errors.push(format!("ep{ep} c{conn} closed: {}", k.short()));
                }
            }
            Evt::PacketDropped {
                decrypt_failed: true,
                ..
            } => cx.summary.count("c06.rejected_by_authentication", 1),
            Evt::Duplicate { .. } => cx.summary.count("c06.replays_suppressed", 1),
            Evt::KeyUpdate { generation } => cx.summary.set("c06.key_generations", format!("{generation}")),
            _ => {}
        }
    }

    fn on_tx(&mut self, cx: &mut Ctx, p: &Pkt) {
        let Some(client) = self.conn_client.get(&(p.ep, p.conn)).copied() else { return };
        self.sent.insert((p.ep, client, p.space, p.pn), p.payload_hash);
        // (2) nothing is acknowledged that was not authenticated
        for f in &p.frames {
            if let Frame::Ack { ranges, .. } = f {
                let set = self.rx_set.entry((p.ep, p.conn, p.space)).or_default();
                for (lo, hi) in ranges {
                    cx.summary.count("c06.ack_ranges_checked", 1);
                    if set.range(*lo..=*hi).count() as u64 != hi - lo + 1 {
                        cx.violate(
                            "C06",
                            "ack-of-unauthenticated",
                            format!("ep{} c{} {:?}: ACK range {lo}..={hi} covers packet numbers that were never authenticated", p.ep, p.conn, p.space),
                            json!({"ep": p.ep, "conn": p.conn, "range": [lo, hi]}),
                        );
                    }
                }
            }
        }
        // (2) ECN counts cannot exceed what was authenticated
        for f in &p.frames {
            if let Frame::Ack {
                ecn: Some((e0, e1, ce)),
                ..
            } = f
            {
                let n = self.rx_count.get(&(p.ep, p.conn, p.space)).copied().unwrap_or(0);
                cx.summary.count("c06.ecn_ack_frames_checked", 1);
                if e0 + e1 + ce > n {
                    cx.violate(
                        "C06",
                        "ecn-counts-exceed-received",
                        format!(
                            "ep{} c{} {:?}: ACK frame reports ECN counts {e0}+{e1}+{ce} but only {n} packets were authenticated in that space",
                            p.ep, p.conn, p.space
                        ),
                        json!({"ep": p.ep, "conn": p.conn, "ecn": [e0, e1, ce], "authenticated": n}),
                    );
                }
            }
        }
    }

    fn on_rx(&mut self, cx: &mut Ctx, p: &Pkt) {
        cx.summary.count("c06.authenticated_packets", 1);
        *self.rx_count.entry((p.ep, p.conn, p.space)).or_insert(0) += 1;
        self.rx_set.entry((p.ep, p.conn, p.space)).or_default().insert(p.pn);
        // (1) at most once
        if !self.seen.insert((p.ep, p.conn, p.space, p.pn)) {
            cx.violate(
                "C06",
                "packet-processed-twice",
                format!("ep{} c{} {:?}: packet number {} was authenticated and processed a second time", p.ep, p.conn, p.space, p.pn),
                json!({"ep": p.ep, "conn": p.conn, "space": format!("{:?}", p.space), "pn": p.pn, "pkt": p.brief()}),
            );
        }
        // (1) must be what the peer really sent
        let Some(client) = self.conn_client.get(&(p.ep, p.conn)).copied() else { return };
        let peer = if p.ep == SERVER { client } else { SERVER };
        match self.sent.get(&(peer, client, p.space, p.pn)) {
            Some(h) if *h == p.payload_hash => {}
            Some(_) => cx.violate(
                "C06",
                "authenticated-payload-differs",
                format!(
                    "ep{} c{} {:?}#{}: authenticated a packet whose cleartext differs from what the peer sent under that number: {}",
                    p.ep, p.conn, p.space, p.pn, p.brief()
                ),
                json!({"ep": p.ep, "conn": p.conn, "pn": p.pn, "pkt": p.brief()}),
            ),
            None => cx.violate(
                "C06",
                "authenticated-packet-never-sent",
                format!(
                    "ep{} c{} {:?}#{}: authenticated a packet the peer never sent: {}",
                    p.ep, p.conn, p.space, p.pn, p.brief()
                ),
                json!({"ep": p.ep, "conn": p.conn, "pn": p.pn, "pkt": p.brief()}),
            ),
        }
    }

    fn on_wire(&mut self, cx: &mut Ctx, w: &Wire, _fate: &Fate) {
        if w.injected && w.src_idx == u64::MAX {
            self.injected += 1;
            cx.summary.count("c06.injected_datagrams", 1);
            if self.injected == 1 {
                cx.feature("injection");
            }
        }
    }

    fn on_app(&mut self, _cx: &mut Ctx, ep: EpId, _t: u64, op: &AppOp) {
        match op {
            AppOp::Finished { flow, .. } => {
                self.finished.insert(*flow);
            }
            AppOp::RecvEnd { flow, .. } => {
                self.ended.insert(*flow);
            }
            AppOp::SendErr { flow, err, .. } => self.errors.push(format!("ep{ep} send {flow:?}: {err}")),
            AppOp::RecvErr { flow, err, .. } => self.errors.push(format!("ep{ep} recv {flow:?}: {err}")),
            AppOp::SendClosed {
                flow,
                ok: false,
                err,
            } => self.errors.push(format!("ep{ep} close {flow:?}: {err}")),
            AppOp::ConnectErr { kind } => self.errors.push(format!("ep{ep} connect: {}", kind.short())),
            _ => {}
        }
    }

    fn on_workload_done(&mut self, cx: &mut Ctx) {
        // (4) with genuine traffic untouched the attacker must not be able to break anything
        if self.pure_injection {
            cx.summary.count("c06.pure_injection_runs", 1);
            if !self.errors.is_empty() {
                cx.violate(
                    "C06",
                    "injection-caused-failure",
                    format!(
                        "genuine traffic was delivered untouched, yet after {} injected datagrams operations failed: {}",
                        self.injected,
                        self.errors.iter().take(4).cloned().collect::<Vec<_>>().join("; ")
                    ),
                    json!({"errors": self.errors, "injected": self.injected}),
                );
            }
            let missing: Vec<String> = self
                .finished
                .iter()
                .filter(|f| !self.ended.contains(f))
                .map(|f| format!("{f:?}"))
                .collect();
            if !missing.is_empty() && self.errors.is_empty() {
                cx.violate(
                    "C06",
                    "injection-caused-incomplete-stream",
                    format!("finished streams did not complete at the receiver: {}", missing.join(", ")),
                    json!({"missing": missing}),
                );
            }
        }
    }
}

// ---------------------------------------------------------------------------

/// The attacker inside the network.
pub struct Forger {
    /// recent genuine datagrams per (src port, dst port)
    store: VecDeque<(u16, u16, Vec<u8>)>,
    /// injections per genuine datagram, in 1/1000
    rate_permille: u64,
    cid_len: usize,
    /// one victim datagram that is replayed many times
    flood: Option<(u16, u16, Vec<u8>, u32)>,
    budget: u64,
}

impl Forger {
    pub fn new(rate_permille: u64, cid_len: usize, budget: u64) -> Self {
        Forger {
            store: VecDeque::new(),
            rate_permille,
            cid_len,
            flood: None,
            budget,
        }
    }
}

impl Injector for Forger {
    fn on_datagram(&mut self, w: &Wire, _fate: &Fate, established: bool, r: &mut Rng, out: &mut Vec<Inject>) {
        if w.injected || !established || w.bytes.is_empty() || w.bytes[0] & 0x80 != 0 {
            return;
        }
        if self.store.len() >= 256 {
            self.store.pop_front();
        }
        self.store.push_back((w.src_port, w.dst_port, w.bytes.clone()));
        if self.budget == 0 {
            return;
        }
        let mut n = 0;
        while r.below(1000) < self.rate_permille && n < 4 && self.budget > 0 {
            n += 1;
            self.budget -= 1;
            let (sp, dp, base) = {
                let i = r.below(self.store.len() as u64) as usize;
                let e = &self.store[i];
                (e.0, e.1, e.2.clone())
            };
            let mut b = base.clone();
            let delay_us = match r.below(3) {
                0 => 0,
                1 => r.range(0, 5_000),
                _ => r.range(5_000, 2_000_000),
            };
            match r.below(8) {
                0 => {
                    // random bytes behind a genuine first byte + destination connection id
                    let keep = (1 + self.cid_len).min(b.len());
                    let len = r.range(keep as u64 + 1, 1400) as usize;
                    b.resize(len, 0);
                    let (_, tail) = b.split_at_mut(keep);
                    r.fill(tail);
                }
                1 | 2 => {
                    // 1-8 flipped bits anywhere (header, packet number, payload, tag)
                    for _ in 0..r.range(1, 8) {
                        let i = r.below(b.len() as u64) as usize;
                        b[i] ^= 1 << r.below(8);
                    }
                }
                3 => {
                    let n = r.range(1, b.len() as u64 - 1).max(1) as usize;
                    b.truncate(n);
                }
                4 => {
                    let mut extra = vec![0u8; r.range(1, 64) as usize];
                    r.fill(&mut extra);
                    b.extend_from_slice(&extra);
                }
                5 => {
                    // splice: head of one genuine datagram, tail of another
                    let j = r.below(self.store.len() as u64) as usize;
                    let other = &self.store[j].2;
                    let cut = r.range(1, b.len().min(other.len()) as u64 - 1).max(1) as usize;
                    if cut < b.len() && cut < other.len() {
                        b.truncate(cut);
                        b.extend_from_slice(&other[cut..]);
                    }
                    if b == base {
                        b[0] ^= 0x04;
                    }
                }
                6 => {
                    // connection id of another live flow in front of this payload
                    let j = r.below(self.store.len() as u64) as usize;
                    let other = &self.store[j].2;
                    let k = (1 + self.cid_len).min(b.len()).min(other.len());
                    let head = other[..k].to_vec();
                    if head != b[..k] {
                        b[..k].copy_from_slice(&head);
                    } else {
                        let i = b.len() - 1;
                        b[i] ^= 1;
                    }
                }
                _ => {
                    // exact replay; sometimes pick a victim that is replayed hundreds of times
                    if self.flood.is_none() && r.chance(1, 10) {
                        self.flood = Some((sp, dp, base.clone(), r.range(50, 300) as u32));
                    }
                }
            }
            out.push(Inject {
                src_port: sp,
                dst_port: dp,
                bytes: b,
                delay_us,
            });
        }
        if let Some((sp, dp, b, left)) = self.flood.as_mut() {
            let burst = (*left).min(20);
            for _ in 0..burst {
                out.push(Inject {
                    src_port: *sp,
                    dst_port: *dp,
                    bytes: b.clone(),
                    delay_us: r.range(0, 50_000),
                });
            }
            *left -= burst;
            if *left == 0 {
                self.flood = None;
                self.budget = self.budget.saturating_sub(1);
            }
        }
    }
}
