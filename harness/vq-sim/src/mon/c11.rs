//! C11 — no traffic amplification towards unvalidated or unknown peers.
//!
//! Network-tap oracle (it sees every byte on the wire):
//!  (a) per client address, until the server has validated it (a Handshake packet of that
//!      client was authenticated by the server, or an Initial carrying a token arrived after a
//!      Retry, or a PATH_RESPONSE echoing a PATH_CHALLENGE the server sent there): at the start of every server datagram, bytes already sent < 3 x bytes that
//!      were delivered to the server from that address (the tap counts every delivered
//!      datagram, so it is lenient, never stricter than what the server can have credited);
//!  (b) replies to datagrams that belong to no connection: stateless reset strictly smaller
//!      than its trigger, Version Negotiation only for triggers >= 1200 bytes and never for a
//!      Version Negotiation trigger, at most one reply per trigger;
//!  (c) every client datagram carrying an Initial packet is >= 1200 bytes.

use super::Monitor;
use crate::{params::Params, world::*};
use std::collections::HashMap;
use vq_util::json;
use vq_wire::{Header, LongType};

#[derive(Default)]
struct Addr {
    rx: u64,
    tx: u64,
    /// what a counter that forgets by how much the last datagram overshot would still allow
    /// (+3x on receipt, saturating subtraction on transmission)
    forgetful_allowance: u64,
    validated: bool,
    retry_sent: bool,
    /// closest the server came to the limit (tx / (3 rx)) in permille
    tightest: u64,
    blocked_seen: bool,
}

#[derive(Default)]
struct Probe {
    len: usize,
    is_vn: bool,
    long: bool,
    replies: u32,
    delivered: bool,
}

pub struct C11 {
    addrs: HashMap<u16, Addr>,
    /// server connection -> client port
    conn_port: HashMap<u64, u16>,
    /// probes by source port (each probe uses its own port)
    probes: HashMap<u16, Probe>,
    cid_len: usize,
    /// PATH_CHALLENGE data the server put into (conn, pn), not yet seen on the wire
    chal_pending: HashMap<(u64, u64), Vec<[u8; 8]>>,
    /// PATH_CHALLENGE data -> client port the server sent it to
    chal_port: HashMap<[u8; 8], u16>,
}

use crate::app::PROBER_BASE;

impl C11 {
    pub fn new(p: &Params) -> Self {
        C11 {
            addrs: HashMap::new(),
            conn_port: HashMap::new(),
            probes: HashMap::new(),
            cid_len: p.server.cid_len,
            chal_pending: HashMap::new(),
            chal_port: HashMap::new(),
        }
    }
}

impl Monitor for C11 {
    fn on_evt(&mut self, _cx: &mut Ctx, ep: EpId, conn: u64, _t: u64, e: &Evt) {
        if ep != SERVER {
            return;
        }
        if let Evt::Started { remote_port, .. } = e {
            self.conn_port.insert(conn, *remote_port);
        }
    }

    fn on_tx(&mut self, _cx: &mut Ctx, p: &Pkt) {
        if p.ep != SERVER || p.space != Space::App {
            return;
        }
        for f in &p.frames {
            if let vq_wire::Frame::PathChallenge { data } = f {
                self.chal_pending.entry((p.conn, p.pn)).or_default().push(*data);
            }
        }
    }

    fn on_rx(&mut self, cx: &mut Ctx, p: &Pkt) {
        // path validation (RFC 9000 8.2.3): the server authenticated a PATH_RESPONSE echoing
        // the data of a PATH_CHALLENGE it sent to that address
        if p.ep == SERVER && p.space == Space::App {
            for f in &p.frames {
                if let vq_wire::Frame::PathResponse { data } = f {
                    if let Some(port) = self.chal_port.get(data) {
                        let a = self.addrs.entry(*port).or_default();
                        if !a.validated {
                            a.validated = true;
                            cx.summary.count("c11.addresses_validated_by_path_response", 1);
                            cx.summary.max("c11.tightest_ratio_permille", a.tightest as i64);
                        }
                    }
                }
            }
        }
        // the server authenticated a Handshake packet from the client: address validated
        if p.ep == SERVER && p.space == Space::Handshake {
            if let Some(port) = self.conn_port.get(&p.conn) {
                let a = self.addrs.entry(*port).or_default();
                if !a.validated {
                    a.validated = true;
                    cx.summary.count("c11.addresses_validated_by_handshake", 1);
                    cx.summary.max("c11.tightest_ratio_permille", a.tightest as i64);
                }
            }
        }
    }

    fn on_delivered(&mut self, cx: &mut Ctx, w: &Wire, _at: u64) {
        if w.dst != Some(SERVER) {
            return;
        }
        // a probe reached the server
        if let Some(pr) = self.probes.get_mut(&w.src_port) {
            pr.delivered = true;
            cx.summary.count("c11.probes_delivered", 1);
            // its bytes count as received from that address like any other datagram
        }
        let a = self.addrs.entry(w.src_port).or_default();
        a.rx += w.bytes.len() as u64;
        a.forgetful_allowance += 3 * w.bytes.len() as u64;
        // an Initial carrying a token after a Retry validates the address as well
        if a.retry_sent && !a.validated {
            for (_, h) in vq_wire::datagram(&w.bytes, self.cid_len) {
                if let Ok(Header::Long {
                    ty: LongType::Initial,
                    token,
                    ..
                }) = h
                {
                    if !token.is_empty() {
                        a.validated = true;
                        cx.summary.count("c11.addresses_validated_by_retry_token", 1);
                    }
                }
            }
        }
    }

    fn on_wire(&mut self, cx: &mut Ctx, w: &Wire, _fate: &Fate) {
        if w.injected {
            return;
        }
        match w.src {
            Some(s) if s >= PROBER_BASE => {
                // a probe leaving the prober: remember what it looked like
                let first = w.bytes.first().copied().unwrap_or(0);
                let long = first & 0x80 != 0;
                let is_vn = long && w.bytes.len() >= 5 && w.bytes[1..5] == [0, 0, 0, 0];
                cx.summary.count(
                    if is_vn {
                        "c11.probe.version_negotiation"
                    } else if long {
                        "c11.probe.long_header"
                    } else {
                        "c11.probe.short_header_or_garbage"
                    },
                    1,
                );
                self.probes.insert(
                    w.src_port,
                    Probe {
                        len: w.bytes.len(),
                        is_vn,
                        long,
                        replies: 0,
                        delivered: false,
                    },
                );
            }
            Some(SERVER) => {
                // ---- (b) reply to a probe?
                if let Some(pr) = self.probes.get_mut(&w.dst_port) {
                    pr.replies += 1;
                    let hdr = vq_wire::header(&w.bytes, self.cid_len);
                    let kind = match &hdr {
                        Ok(Header::VersionNegotiation { .. }) => "version-negotiation",
                        Ok(Header::Long { ty: LongType::Retry, .. }) => "retry",
                        Ok(Header::Long { .. }) => "long",
                        _ => "stateless-reset-like",
                    };
                    cx.summary.count(&format!("c11.probe_reply.{kind}"), 1);
                    let (plen, is_vn, long) = (pr.len, pr.is_vn, pr.long);
                    if pr.replies > 1 && kind != "long" {
                        cx.violate(
                            "C11",
                            "multiple-replies-to-one-datagram",
                            format!("{} replies ({kind}) to one {plen}-byte datagram that belongs to no connection", pr.replies),
                            json!({"trigger_len": plen, "reply_len": w.bytes.len(), "kind": kind}),
                        );
                    }
                    match kind {
                        "version-negotiation" => {
                            if is_vn {
                                cx.violate(
                                    "C11",
                                    "vn-in-reply-to-vn",
                                    "Version Negotiation sent in reply to a Version Negotiation packet".to_string(),
                                    json!({"trigger_len": plen}),
                                );
                            }
                            if plen < 1200 {
                                cx.violate(
                                    "C11",
                                    "vn-for-small-datagram",
                                    format!("Version Negotiation sent in reply to a {plen}-byte datagram (< 1200)"),
                                    json!({"trigger_len": plen, "reply_len": w.bytes.len()}),
                                );
                            }
                            let _ = long;
                        }
                        "stateless-reset-like" => {
                            if w.bytes.len() >= plen {
                                cx.violate(
                                    "C11",
                                    "stateless-reset-not-smaller",
                                    format!("a {}-byte stateless reset answers a {plen}-byte datagram", w.bytes.len()),
                                    json!({"trigger_len": plen, "reply_len": w.bytes.len()}),
                                );
                            } else {
                                cx.summary.min("c11.min_reset_shrink", (plen - w.bytes.len()) as i64);
                            }
                        }
                        _ => {}
                    }
                    // replies that open a connection (long) fall under (a) below as well
                    if kind != "long" && kind != "retry" {
                        return;
                    }
                }
                for (conn, space, pn) in &w.pkts {
                    if *space == Space::App {
                        if let Some(ds) = self.chal_pending.remove(&(*conn, *pn)) {
                            for d in ds {
                                self.chal_port.insert(d, w.dst_port);
                            }
                        }
                    }
                }
                // ---- (a) 3x rule
                let a = self.addrs.entry(w.dst_port).or_default();
                if let Ok(Header::Long { ty: LongType::Retry, .. }) = vq_wire::header(&w.bytes, self.cid_len) {
                    a.retry_sent = true;
                    cx.feature("retry_sent");
                }
                if !a.validated {
                    cx.summary.count("c11.unvalidated_datagrams_checked", 1);
                    if a.tx >= 3 * a.rx {
                        let (tx, rx) = (a.tx, a.rx);
                        // One way to get here is known (known_findings.jsonl): the allowance is
                        // a saturating counter, so the bytes by which the datagram that used it
                        // up exceeded it are forgotten and every further small datagram from
                        // the peer buys another full-size one. Anything else keeps the plain
                        // signature.
                        let sig = if a.forgetful_allowance > 0 {
                            "amplification-limit-exceeded:overshoot-forgotten"
                        } else {
                            "amplification-limit-exceeded"
                        };
                        cx.violate(
                            "C11",
                            sig,
                            format!(
                                "server starts a {}-byte datagram to an unvalidated address (port {}) although it already sent {tx} bytes and received only {rx} ({}x)",
                                w.bytes.len(), w.dst_port, if rx > 0 { tx / rx } else { 0 }
                            ),
                            json!({"port": w.dst_port, "tx_before": tx, "rx": rx, "len": w.bytes.len(), "pkts": format!("{:?}", w.pkts)}),
                        );
                    }
                    if a.rx > 0 {
                        let r = a.tx * 1000 / (3 * a.rx);
                        a.tightest = a.tightest.max(r);
                        // within one datagram of the limit: the server is (about to be) blocked
                        if 3 * a.rx - a.tx.min(3 * a.rx) < 1200 && !a.blocked_seen {
                            a.blocked_seen = true;
                            cx.summary.count("c11.runs_server_at_limit", 1);
                            cx.feature("server_at_amplification_limit");
                        }
                    }
                    a.tx += w.bytes.len() as u64;
                    a.forgetful_allowance = a.forgetful_allowance.saturating_sub(w.bytes.len() as u64);
                }
            }
            Some(c) if c < PROBER_BASE => {
                // ---- (c) client padding
                for (_, h) in vq_wire::datagram(&w.bytes, self.cid_len) {
                    if let Ok(Header::Long {
                        ty: LongType::Initial,
                        ..
                    }) = h
                    {
                        cx.summary.count("c11.client_initial_datagrams", 1);
                        if w.bytes.len() < 1200 {
                            cx.violate(
                                "C11",
                                "client-initial-not-padded",
                                format!("client ep{c} sent a {}-byte datagram carrying an Initial packet", w.bytes.len()),
                                json!({"ep": c, "len": w.bytes.len(), "pkts": format!("{:?}", w.pkts)}),
                            );
                        }
                        break;
                    }
                }
            }
            _ => {}
        }
    }

    fn finish(&mut self, cx: &mut Ctx) {
        for a in self.addrs.values() {
            cx.summary.max("c11.tightest_ratio_permille", a.tightest as i64);
        }
        let unanswered = self.probes.values().filter(|p| p.delivered && p.replies == 0).count();
        cx.summary.count("c11.probes_unanswered", unanswered as u64);
        cx.summary.count("c11.probes", self.probes.len() as u64);
    }
}
