//! The network tap: it *is* the network of the simulation. Sees every datagram,
//! decides its fate from the seeded fault plan, records what was delivered and when,
//! and can inject forged / replayed datagrams (C06, C11).

use crate::{params::NetPlan, world::*};
use s2n_quic::provider::io::testing::{
    self as io,
    network::{Buffers, Network, Packet},
};
use s2n_quic_core::{
    inet::{ExplicitCongestionNotification, SocketAddress},
    path::Tuple,
};
use std::{collections::HashMap, time::Duration};
use vq_util::Rng;

/// An attacker living inside the network: called for every genuine datagram (after its
/// fate was decided) and may ask for extra datagrams to be injected.
pub trait Injector: Send {
    /// `established`: every connection of the scenario has a confirmed handshake on both sides
    fn on_datagram(&mut self, w: &Wire, fate: &Fate, established: bool, rng: &mut Rng, out: &mut Vec<Inject>);
}

pub struct Inject {
    pub src_port: u16,
    pub dst_port: u16,
    pub bytes: Vec<u8>,
    pub delay_us: u64,
}

pub struct Net {
    pub w: Shared,
    pub rng: Rng,
    pub plan: NetPlan,
    pub idx: u64,
    pub src_idx: HashMap<u16, u64>,
    pub dir_idx: [u64; 2],
    pub injector: Option<Box<dyn Injector>>,
    /// port → full socket address (learned from traffic and registration)
    pub addrs: HashMap<u16, SocketAddress>,
    /// last datagram that was delivered unharmed, per (src port, dst port)
    pub last_good: HashMap<(u16, u16), Vec<u8>>,
}

impl Net {
    pub fn new(w: Shared, seed: u64, plan: NetPlan) -> Self {
        Net {
            w,
            rng: Rng::new(seed ^ 0x6e65_7477_6f72_6b),
            plan,
            idx: 0,
            src_idx: HashMap::new(),
            dir_idx: [0; 2],
            injector: None,
            addrs: HashMap::new(),
            last_good: HashMap::new(),
        }
    }

    fn deliver(&self, buffers: &Buffers, mut packet: Packet, wire: Wire, at: u64) {
        // reverse the addresses so the dst/src are correct for the receiver
        packet.switch();
        let buffers = buffers.clone();
        let w = self.w.clone();
        let now = crate::taps::ts_us(io::now());
        io::spawn(async move {
            if at > now {
                io::time::delay(Duration::from_micros(at - now)).await;
            }
            let t = crate::taps::ts_us(io::now());
            w.lock().unwrap().delivered(&wire, t);
            buffers.rx(*packet.path.local_address, |queue| {
                queue.enqueue(packet);
            });
        });
    }

    fn handle(&mut self, buffers: &Buffers, packet: Packet, now: u64) {
        let src_port = packet.path.local_address.port();
        let dst_port = packet.path.remote_address.port();
        self.addrs.insert(src_port, *packet.path.local_address);
        self.addrs.insert(dst_port, *packet.path.remote_address);
        let (src, dst, meta) = {
            let w = self.w.lock().unwrap();
            let h = vq_util::fnv(&packet.payload);
            (
                w.ctx.ep_of_port(src_port),
                w.ctx.ep_of_port(dst_port),
                w.ctx.dgram_meta.get(&h).cloned(),
            )
        };
        let dir = if src == Some(SERVER) { 1 } else { 0 };
        let dir_ord = self.dir_idx[dir];
        self.dir_idx[dir] += 1;
        let src_idx = {
            let e = self.src_idx.entry(src_port).or_insert(0);
            let v = *e;
            *e += 1;
            v
        };
        let wire = Wire {
            idx: self.idx,
            src_idx,
            src,
            dst,
            src_port,
            dst_port,
            t: now,
            bytes: packet.payload.clone(),
            injected: false,
            pkts: meta.as_ref().map(|m| m.pkts.clone()).unwrap_or_default(),
        };
        self.idx += 1;

        // ---- decide the fate
        let plan = &self.plan;
        let r = &mut self.rng;
        let mut fate = None;
        if packet.payload.len() > plan.mtu as usize {
            fate = Some(Fate::Drop("mtu"));
        }
        if fate.is_none() {
            if let Some(n) = plan.blackhole_after[dir] {
                if dir_ord >= n {
                    fate = Some(Fate::Drop("blackhole"));
                }
            }
        }
        if fate.is_none() && plan.drop_idx[dir].contains(&dir_ord) {
            fate = Some(Fate::Drop("scheduled"));
        }
        // targeted drops requested through the world (by frame tags)
        if fate.is_none() {
            if let Some(m) = &meta {
                let mut w = self.w.lock().unwrap();
                for t in w.ctx.targeted.iter_mut() {
                    if t.drop == 0 {
                        continue;
                    }
                    if t.from.is_some() && t.from != src {
                        continue;
                    }
                    if m.tags & t.tags == 0 {
                        continue;
                    }
                    if t.skip > 0 {
                        t.skip -= 1;
                        continue;
                    }
                    t.drop -= 1;
                    fate = Some(Fate::Drop("targeted"));
                    break;
                }
            }
        }
        let phase = plan.phase_at(now).cloned();
        let mut payload = packet.payload.clone();
        let mut mutated = false;
        let mut copies = 1u32;
        let mut extra_delay = 0u64;
        if fate.is_none() {
            if let Some(p) = &phase {
                if p.blackhole[dir] {
                    fate = Some(Fate::Drop("phase-blackhole"));
                } else if p.loss[dir] > 0.0 && r.f64() < p.loss[dir] {
                    fate = Some(Fate::Drop("loss"));
                } else {
                    if p.corrupt > 0.0 && r.f64() < p.corrupt && !payload.is_empty() {
                        let flips = r.range(1, 8);
                        for _ in 0..flips {
                            let i = r.below(payload.len() as u64) as usize;
                            payload[i] ^= 1 << r.below(8);
                        }
                        mutated = true;
                    }
                    if p.truncate > 0.0 && r.f64() < p.truncate && payload.len() > 1 {
                        let n = r.range(1, payload.len() as u64 - 1) as usize;
                        payload.truncate(n);
                        mutated = true;
                    }
                    if p.dup > 0.0 && r.f64() < p.dup {
                        copies += r.range(1, 3) as u32;
                    }
                    if p.far > 0.0 && r.f64() < p.far {
                        extra_delay = r.range(plan.delay_us, plan.far_us.max(plan.delay_us + 1));
                    }
                }
            }
        }
        // rebound client sockets use ports 20000 + ep * 64 + k (app.rs): the k-th path of a
        // client may have its own delay
        let path_delay = {
            let port = if src == Some(SERVER) { dst_port } else { src_port };
            let f = if port >= 20_000 {
                let k = ((port - 20_000) % 64) as usize;
                plan.rebind_delay_permille.get(k.wrapping_sub(1)).copied().unwrap_or(1000)
            } else {
                1000
            };
            (plan.delay_us * f / 1000).max(1)
        };
        let fate = fate.unwrap_or_else(|| {
            let jitter = if plan.jitter_us > 0 {
                r.range(0, plan.jitter_us)
            } else {
                0
            };
            Fate::Deliver {
                at: now + path_delay + jitter + extra_delay,
                copies,
                mutated,
            }
        });

        self.w.lock().unwrap().wire(&wire, &fate);

        match &fate {
            Fate::Deliver { mutated: false, .. } => {
                self.last_good.insert((src_port, dst_port), packet.payload.clone());
            }
            Fate::Drop("blackhole") | Fate::Drop("phase-blackhole") if self.plan.blackhole_kind != 0 => {
                // the blackhole swallows the datagram but something unusable arrives instead
                let bytes = if self.plan.blackhole_kind == 1 {
                    let mut b = packet.payload.clone();
                    if let Some(last) = b.last_mut() {
                        *last ^= 0x55;
                    }
                    Some(b)
                } else {
                    self.last_good.get(&(src_port, dst_port)).cloned()
                };
                if let Some(bytes) = bytes {
                    self.inject(buffers, Inject { src_port, dst_port, bytes, delay_us: 0 }, now);
                }
            }
            _ => {}
        }

        let mark_ce = match (&phase, &fate) {
            (Some(ph), Fate::Deliver { .. }) if ph.ce > 0.0 => {
                use s2n_quic_core::inet::ExplicitCongestionNotification as Ecn;
                matches!(packet.ecn, Ecn::Ect0 | Ecn::Ect1) && self.rng.f64() < ph.ce
            }
            _ => false,
        };
        if mark_ce {
            self.w.lock().unwrap().ctx.feature("ecn_ce_marked");
        }
        if let Fate::Deliver { at, copies, .. } = &fate {
            for c in 0..*copies {
                let mut p = packet.clone();
                if mark_ce {
                    p.ecn = s2n_quic_core::inet::ExplicitCongestionNotification::Ce;
                }
                p.payload = payload.clone();
                let mut w2 = wire.clone();
                w2.bytes = payload.clone();
                if mutated {
                    // a garbled datagram is no longer something the sender produced
                    w2.injected = true;
                }
                let at = *at
                    + if c > 0 {
                        self.rng.range(0, self.plan.delay_us.max(1) * 3)
                    } else {
                        0
                    };
                self.deliver(buffers, p, w2, at);
            }
        }

        // ---- attacker inside the network
        if let Some(mut inj) = self.injector.take() {
            let mut out = Vec::new();
            let all_confirmed = {
                let w = self.w.lock().unwrap();
                w.ctx.confirmed >= 2 * w.ctx.params.clients.len()
            };
            inj.on_datagram(&wire, &fate, all_confirmed, &mut self.rng, &mut out);
            self.injector = Some(inj);
            for i in out {
                self.inject(buffers, i, now);
            }
        }
    }

    pub fn inject(&mut self, buffers: &Buffers, i: Inject, now: u64) {
        let (Some(src), Some(dst)) = (self.addrs.get(&i.src_port), self.addrs.get(&i.dst_port))
        else {
            return;
        };
        // a Packet as an endpoint would have put it into its tx queue: local = sender
        let packet = Packet {
            path: Tuple {
                local_address: (*src).into(),
                remote_address: (*dst).into(),
            },
            ecn: ExplicitCongestionNotification::default(),
            payload: i.bytes.clone(),
        };
        let (s, d) = {
            let w = self.w.lock().unwrap();
            (w.ctx.ep_of_port(i.src_port), w.ctx.ep_of_port(i.dst_port))
        };
        let wire = Wire {
            idx: self.idx,
            src_idx: u64::MAX,
            src: s,
            dst: d,
            src_port: i.src_port,
            dst_port: i.dst_port,
            t: now,
            bytes: i.bytes,
            injected: true,
            pkts: vec![],
        };
        self.idx += 1;
        let at = now + self.plan.delay_us + i.delay_us;
        let fate = Fate::Deliver {
            at,
            copies: 1,
            mutated: false,
        };
        self.w.lock().unwrap().wire(&wire, &fate);
        self.deliver(buffers, packet, wire, at);
    }
}

impl Network for Net {
    fn execute(&mut self, buffers: &Buffers) -> usize {
        let now = crate::taps::ts_us(io::now());
        let mut pkts = Vec::new();
        buffers.drain_pending_transmissions(|packet| {
            pkts.push(packet);
            Ok(())
        });
        let n = pkts.len();
        // the tx queues live in a HashMap (iteration order differs from process to process):
        // re-interleave by source address so that a scenario seed replays exactly. Per-source
        // order is kept, sources take turns, the first turn is drawn from the scenario's rng.
        let mut by_src: std::collections::BTreeMap<(Vec<u8>, u16), std::collections::VecDeque<Packet>> =
            Default::default();
        for p in pkts {
            let a: std::net::SocketAddr = p.path.local_address.into();
            let ip = match a.ip() {
                std::net::IpAddr::V4(v) => v.octets().to_vec(),
                std::net::IpAddr::V6(v) => v.octets().to_vec(),
            };
            by_src.entry((ip, a.port())).or_default().push_back(p);
        }
        let mut queues: Vec<_> = by_src.into_values().collect();
        if queues.len() > 1 {
            let k = (self.rng.next() % queues.len() as u64) as usize;
            queues.rotate_left(k);
        }
        loop {
            let mut any = false;
            for q in queues.iter_mut() {
                if let Some(p) = q.pop_front() {
                    any = true;
                    self.handle(buffers, p, now);
                }
            }
            if !any {
                break;
            }
        }
        n
    }
}
