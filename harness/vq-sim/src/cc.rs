//! Runtime-selectable congestion controller (CUBIC or BBRv2) so the harness needs only one
//! monomorphization of the endpoint; wrapped by the recording proxy in taps.rs.

use s2n_quic_core::{
    random,
    recovery::{
        bbr::BbrCongestionController,
        congestion_controller::{self as ccm, CongestionController, PathInfo, Publisher},
        CubicCongestionController, RttEstimator,
    },
    time::Timestamp,
};

#[derive(Debug)]
pub struct AnyEndpoint {
    pub bbr: bool,
    pub cubic: s2n_quic_core::recovery::cubic::Endpoint,
    pub bbr_ep: s2n_quic_core::recovery::bbr::Endpoint,
}

impl AnyEndpoint {
    pub fn new(bbr: bool) -> Self {
        AnyEndpoint {
            bbr,
            cubic: Default::default(),
            bbr_ep: Default::default(),
        }
    }
}

impl ccm::Endpoint for AnyEndpoint {
    type CongestionController = AnyCc;
    fn new_congestion_controller(&mut self, path_info: PathInfo) -> AnyCc {
        if self.bbr {
            AnyCc::Bbr(self.bbr_ep.new_congestion_controller(path_info))
        } else {
            AnyCc::Cubic(self.cubic.new_congestion_controller(path_info))
        }
    }
}

#[derive(Clone, Debug)]
pub enum AnyCc {
    Cubic(CubicCongestionController),
    Bbr(BbrCongestionController),
}

#[derive(Clone, Copy, Debug)]
pub enum AnyInfo {
    Cubic(<CubicCongestionController as CongestionController>::PacketInfo),
    Bbr(<BbrCongestionController as CongestionController>::PacketInfo),
}

macro_rules! both {
    ($self:ident, $c:ident => $e:expr) => {
        match $self {
            AnyCc::Cubic($c) => $e,
            AnyCc::Bbr($c) => $e,
        }
    };
}

impl CongestionController for AnyCc {
    type PacketInfo = AnyInfo;

    fn congestion_window(&self) -> u32 {
        both!(self, c => c.congestion_window())
    }
    fn bytes_in_flight(&self) -> u32 {
        both!(self, c => c.bytes_in_flight())
    }
    fn is_congestion_limited(&self) -> bool {
        both!(self, c => c.is_congestion_limited())
    }
    fn requires_fast_retransmission(&self) -> bool {
        both!(self, c => c.requires_fast_retransmission())
    }
    fn on_packet_sent<Pub: Publisher>(
        &mut self,
        time_sent: Timestamp,
        sent_bytes: usize,
        app_limited: Option<bool>,
        rtt_estimator: &RttEstimator,
        publisher: &mut Pub,
    ) -> AnyInfo {
        match self {
            AnyCc::Cubic(c) => AnyInfo::Cubic(c.on_packet_sent(
                time_sent,
                sent_bytes,
                app_limited,
                rtt_estimator,
                publisher,
            )),
            AnyCc::Bbr(c) => AnyInfo::Bbr(c.on_packet_sent(
                time_sent,
                sent_bytes,
                app_limited,
                rtt_estimator,
                publisher,
            )),
        }
    }
    fn on_rtt_update<Pub: Publisher>(
        &mut self,
        time_sent: Timestamp,
        now: Timestamp,
        rtt_estimator: &RttEstimator,
        publisher: &mut Pub,
    ) {
        both!(self, c => c.on_rtt_update(time_sent, now, rtt_estimator, publisher))
    }
    fn on_ack<Pub: Publisher>(
        &mut self,
        newest_acked_time_sent: Timestamp,
        bytes_acknowledged: usize,
        newest_acked_packet_info: AnyInfo,
        rtt_estimator: &RttEstimator,
        random_generator: &mut dyn random::Generator,
        ack_receive_time: Timestamp,
        publisher: &mut Pub,
    ) {
        match (self, newest_acked_packet_info) {
            (AnyCc::Cubic(c), AnyInfo::Cubic(i)) => c.on_ack(
                newest_acked_time_sent,
                bytes_acknowledged,
                i,
                rtt_estimator,
                random_generator,
                ack_receive_time,
                publisher,
            ),
            (AnyCc::Bbr(c), AnyInfo::Bbr(i)) => c.on_ack(
                newest_acked_time_sent,
                bytes_acknowledged,
                i,
                rtt_estimator,
                random_generator,
                ack_receive_time,
                publisher,
            ),
            _ => unreachable!("packet info of the other controller kind"),
        }
    }
    fn on_packet_lost<Pub: Publisher>(
        &mut self,
        lost_bytes: u32,
        packet_info: AnyInfo,
        persistent_congestion: bool,
        new_loss_burst: bool,
        random_generator: &mut dyn random::Generator,
        timestamp: Timestamp,
        publisher: &mut Pub,
    ) {
        match (self, packet_info) {
            (AnyCc::Cubic(c), AnyInfo::Cubic(i)) => c.on_packet_lost(
                lost_bytes,
                i,
                persistent_congestion,
                new_loss_burst,
                random_generator,
                timestamp,
                publisher,
            ),
            (AnyCc::Bbr(c), AnyInfo::Bbr(i)) => c.on_packet_lost(
                lost_bytes,
                i,
                persistent_congestion,
                new_loss_burst,
                random_generator,
                timestamp,
                publisher,
            ),
            _ => unreachable!("packet info of the other controller kind"),
        }
    }
    fn on_explicit_congestion<Pub: Publisher>(
        &mut self,
        ce_count: u64,
        event_time: Timestamp,
        publisher: &mut Pub,
    ) {
        both!(self, c => c.on_explicit_congestion(ce_count, event_time, publisher))
    }
    fn on_mtu_update<Pub: Publisher>(&mut self, max_data_size: u16, publisher: &mut Pub) {
        both!(self, c => c.on_mtu_update(max_data_size, publisher))
    }
    fn on_packet_discarded<Pub: Publisher>(&mut self, bytes_sent: usize, publisher: &mut Pub) {
        both!(self, c => c.on_packet_discarded(bytes_sent, publisher))
    }
    fn earliest_departure_time(&self) -> Option<Timestamp> {
        both!(self, c => c.earliest_departure_time())
    }
    fn send_quantum(&self) -> Option<usize> {
        both!(self, c => c.send_quantum())
    }
}
