//! Endpoints and application tasks (the application tap): every call the harness's
//! applications make is reported to the world with its outcome.

use crate::{
    cc::AnyEndpoint,
    net::{Injector, Net},
    params::*,
    taps::{CcEndpoint, Random, Rewriter, SharedDbg, SrtGen, Sub, Tap},
    tlswrap::{Rewrite, TlsWrap},
    world::*,
};
use bytes::Bytes;
use s2n_quic::{
    client::Connect,
    connection::Handle,
    provider::{
        connection_id, endpoint_limits,
        io::testing::{self as io, spawn, time::delay, Handle as IoHandle},
        limits::Limits,
        tls::default as tls_default,
    },
    stream::{PeerStream, ReceiveStream, SendStream},
    Client, Server,
};
use s2n_quic_core::crypto::tls::testing::certificates;
use std::{net::SocketAddr, sync::Arc, time::Duration};
use vq_util::Rng;

pub fn now_us() -> u64 {
    crate::taps::ts_us(io::now())
}

/// Per-run extras a profile may install.
#[derive(Default)]
pub struct Extras {
    pub injector: Option<Box<dyn Injector>>,
    /// attacker-mode payload rewriter installed on the server / on client 1
    pub server_rewriter: Option<Rewriter>,
    pub client_rewriter: Option<Rewriter>,
    /// do not observe this endpoint's own taps (it is the attacker)
    pub server_unobserved: bool,
    pub client_unobserved: bool,
    pub server_tp_rewrite: Option<Rewrite>,
    pub client_tp_rewrite: Option<Rewrite>,
    /// raw datagrams fired at the server from sockets that belong to no connection:
    /// (virtual time in us, bytes); each uses its own source port (C11)
    pub probes: Vec<(u64, Vec<u8>)>,
}

/// endpoint ids of the raw probing sockets start here
pub const PROBER_BASE: EpId = 1000;

struct Retry(bool);
impl endpoint_limits::Limiter for Retry {
    fn on_connection_attempt(
        &mut self,
        _info: &endpoint_limits::ConnectionAttempt,
    ) -> endpoint_limits::Outcome {
        if self.0 {
            endpoint_limits::Outcome::retry()
        } else {
            endpoint_limits::Outcome::allow()
        }
    }
}

fn limits(c: &EpCfg) -> Limits {
    let mut l = Limits::new()
        .with_data_window(c.data_window)
        .unwrap()
        .with_bidirectional_local_data_window(c.bidi_local_window)
        .unwrap()
        .with_bidirectional_remote_data_window(c.bidi_remote_window)
        .unwrap()
        .with_unidirectional_data_window(c.uni_window)
        .unwrap()
        .with_max_open_local_bidirectional_streams(c.max_open_local_bidi)
        .unwrap()
        .with_max_open_remote_bidirectional_streams(c.max_open_remote_bidi)
        .unwrap()
        .with_max_open_local_unidirectional_streams(c.max_open_local_uni)
        .unwrap()
        .with_max_open_remote_unidirectional_streams(c.max_open_remote_uni)
        .unwrap()
        .with_max_ack_delay(Duration::from_millis(c.max_ack_delay_ms))
        .unwrap()
        .with_ack_elicitation_interval(c.ack_elicitation_interval)
        .unwrap()
        .with_max_ack_ranges(c.max_ack_ranges)
        .unwrap()
        .with_max_send_buffer_size(c.max_send_buffer)
        .unwrap()
        .with_max_idle_timeout(Duration::from_millis(c.idle_timeout_ms))
        .unwrap()
        .with_max_handshake_duration(Duration::from_millis(c.handshake_ms))
        .unwrap()
        .with_max_active_connection_ids(c.max_active_cids)
        .unwrap()
        .with_initial_round_trip_time(Duration::from_millis(c.initial_rtt_ms))
        .unwrap()
        .with_stream_batch_size(c.stream_batch)
        .unwrap()
        .with_active_connection_migration(c.migration)
        .unwrap();
    if c.keep_alive {
        l = l
            .with_max_keep_alive_period(Duration::from_millis(c.idle_timeout_ms / 3 + 1))
            .unwrap();
    }
    l
}

fn cid_format(c: &EpCfg) -> crate::taps::CidFormat {
    // the builder of the default format validates the knobs exactly as an application's would be
    let mut b = connection_id::default::Format::builder()
        .with_len(c.cid_len)
        .unwrap()
        .with_handshake_connection_id_rotation(c.cid_rotate_handshake)
        .unwrap();
    if c.cid_lifetime_ms > 0 {
        b = b
            .with_lifetime(Duration::from_millis(c.cid_lifetime_ms))
            .unwrap();
    }
    let _ = b.build().unwrap();
    crate::taps::CidFormat {
        rng: Rng::new(vq_util::mix(c.seed, 0xc1d)),
        len: c.cid_len,
        lifetime: (c.cid_lifetime_ms > 0).then(|| Duration::from_millis(c.cid_lifetime_ms)),
        rotate_handshake: c.cid_rotate_handshake,
    }
}

fn io_for(handle: &IoHandle, c: &EpCfg, w: &Shared, ep: EpId, rebinds: Vec<u64>) -> io::Io {
    let w = w.clone();
    handle
        .builder()
        .with_max_mtu(c.max_mtu)
        .with_initial_mtu(c.initial_mtu.min(c.max_mtu))
        .on_socket(move |socket| {
            let addr = socket.local_addr().unwrap();
            w.lock().unwrap().ctx.port_to_ep.insert(addr.port(), ep);
            if !rebinds.is_empty() {
                let w = w.clone();
                spawn(async move {
                    let mut k = 0u16;
                    for at in rebinds {
                        let now = now_us();
                        if at > now {
                            delay(Duration::from_micros(at - now)).await;
                        }
                        k += 1;
                        let mut a = socket.local_addr().unwrap();
                        let port = 20_000 + (ep as u16) * 64 + k;
                        a.set_port(port);
                        {
                            let mut w = w.lock().unwrap();
                            w.ctx.port_to_ep.insert(port, ep);
                            w.ctx.feature("rebind");
                            let t = now_us();
                            w.ctx.now = w.ctx.now.max(t);
                            w.ctx.log(|| format!("ep{ep} REBIND -> port {port}"));
                        }
                        socket.rebind(a);
                    }
                });
            }
        })
        .build()
        .unwrap()
}

pub fn build_server(
    handle: &IoHandle,
    p: &Params,
    w: &Shared,
    rewriter: Option<Rewriter>,
    observe: bool,
    tp: Option<Rewrite>,
) -> Server {
    let c = &p.server;
    let tls = TlsWrap {
        endpoint: tls_default::Server::builder()
            .with_certificate(certificates::CERT_PEM, certificates::KEY_PEM)
            .unwrap()
            .build()
            .unwrap(),
        rewrite: tp,
    };
    let mut tap = Tap::new(SERVER, w.clone());
    tap.rewriter = rewriter;
    tap.observe = observe;
    Server::builder()
        .with_io(io_for(handle, c, w, SERVER, vec![]))
        .unwrap()
        .with_tls(tls)
        .unwrap()
        .with_event(Sub {
            ep: SERVER,
            w: w.clone(),
        })
        .unwrap()
        .with_random(Random(Rng::new(c.seed)))
        .unwrap()
        .with_packet_interceptor(tap)
        .unwrap()
        .with_limits(limits(c))
        .unwrap()
        .with_congestion_controller(CcEndpoint {
            ep: SERVER,
            w: SharedDbg(w.clone()),
            inner: AnyEndpoint::new(c.bbr),
            bbr: c.bbr,
        })
        .unwrap()
        .with_connection_id(cid_format(c))
        .unwrap()
        .with_endpoint_limits(Retry(p.retry))
        .unwrap()
        .with_stateless_reset_token(SrtGen(c.seed ^ 0x5157))
        .unwrap()
        .start()
        .unwrap()
}

pub fn build_client(
    handle: &IoHandle,
    p: &Params,
    ep: EpId,
    w: &Shared,
    rewriter: Option<Rewriter>,
    observe: bool,
    tp: Option<Rewrite>,
) -> Client {
    let c = &p.clients[ep - 1].cfg;
    let tls = TlsWrap {
        endpoint: tls_default::Client::builder()
            .with_certificate(certificates::CERT_PEM)
            .unwrap()
            .build()
            .unwrap(),
        rewrite: tp,
    };
    let mut tap = Tap::new(ep, w.clone());
    tap.rewriter = rewriter;
    tap.observe = observe;
    let rebinds: Vec<u64> = p
        .net
        .rebinds
        .iter()
        .filter(|(_, c)| *c == ep - 1)
        .map(|(t, _)| *t)
        .collect();
    Client::builder()
        .with_io(io_for(handle, c, w, ep, rebinds))
        .unwrap()
        .with_tls(tls)
        .unwrap()
        .with_event(Sub { ep, w: w.clone() })
        .unwrap()
        .with_random(Random(Rng::new(c.seed)))
        .unwrap()
        .with_packet_interceptor(tap)
        .unwrap()
        .with_limits(limits(c))
        .unwrap()
        .with_congestion_controller(CcEndpoint {
            ep,
            w: SharedDbg(w.clone()),
            inner: AnyEndpoint::new(c.bbr),
            bbr: c.bbr,
        })
        .unwrap()
        .with_connection_id(cid_format(c))
        .unwrap()
        .with_stateless_reset_token(SrtGen(c.seed ^ 0x5157))
        .unwrap()
        .start()
        .unwrap()
}

// ---------------------------------------------------------------------------
// application tasks

#[derive(Clone)]
struct AppCx {
    w: Shared,
    seed: u64,
    t_max: u64,
}

impl AppCx {
    fn op(&self, ep: EpId, op: AppOp) {
        self.w.lock().unwrap().app(ep, now_us(), op);
    }
    fn live(&self, client: EpId, d: i64) {
        let mut w = self.w.lock().unwrap();
        *w.ctx.client_live.entry(client).or_insert(0) += d;
    }
    fn live_count(&self, client: EpId) -> i64 {
        *self
            .w
            .lock()
            .unwrap()
            .ctx
            .client_live
            .get(&client)
            .unwrap_or(&0)
    }
    /// spawn a task that counts as live work of `client`'s connection
    fn go<F: std::future::Future<Output = ()> + Send + 'static>(&self, client: EpId, f: F) {
        self.live(client, 1);
        let cx = self.clone();
        spawn(async move {
            f.await;
            cx.live(client, -1);
        });
    }
}

fn stream_err(e: &s2n_quic::stream::Error) -> (String, Option<u64>) {
    use s2n_quic::stream::Error as E;
    match e {
        E::StreamReset { error, .. } => ("StreamReset".to_string(), Some((*error).into())),
        E::ConnectionError { error, .. } => {
            (format!("Conn:{}", CloseKind::from_err(error).short()), None)
        }
        other => (format!("{other:?}").chars().take(60).collect(), None),
    }
}

fn io_err(e: &std::io::Error) -> (String, Option<u64>) {
    match e.get_ref().and_then(|i| i.downcast_ref::<s2n_quic::stream::Error>()) {
        Some(se) => stream_err(se),
        None => (format!("io:{:?}", e.kind()), None),
    }
}

fn write_api_name(a: WriteApi) -> &'static str {
    match a {
        WriteApi::Send => "api.write.send",
        WriteApi::SendVectored(_) => "api.write.send_vectored",
        WriteApi::Sink => "api.write.sink",
        WriteApi::FutWrite => "api.write.futures_write",
        WriteApi::FutWriteVectored(_) => "api.write.futures_write_vectored",
        WriteApi::TokioWrite => "api.write.tokio_write",
        WriteApi::TokioWriteVectored(_) => "api.write.tokio_write_vectored",
    }
}

fn read_api_name(a: ReadApi) -> &'static str {
    match a {
        ReadApi::Receive => "api.read.receive",
        ReadApi::ReceiveVectored(_) => "api.read.receive_vectored",
        ReadApi::StreamNext => "api.read.stream_next",
        ReadApi::FutRead(_) => "api.read.futures_read",
        ReadApi::FutReadVectored(..) => "api.read.futures_read_vectored",
        ReadApi::TokioRead(_) => "api.read.tokio_read",
    }
}

/// split `data` into up to `k` non-empty pieces at rng-chosen points
fn split_pieces(data: &[u8], k: usize, rng: &mut Rng) -> Vec<Vec<u8>> {
    let k = k.max(1).min(data.len().max(1));
    let mut cuts: Vec<usize> = (0..k - 1).map(|_| rng.range(0, data.len() as u64) as usize).collect();
    cuts.push(0);
    cuts.push(data.len());
    cuts.sort_unstable();
    cuts.dedup();
    cuts.windows(2).map(|w| data[w[0]..w[1]].to_vec()).filter(|v| !v.is_empty()).collect()
}

/// hand `data` to the stream through the chosen interface; returns how many bytes the
/// interface says it accepted (the caller continues after exactly that many)
async fn write_some(s: &mut SendStream, api: WriteApi, data: Vec<u8>, rng: &mut Rng) -> Result<usize, String> {
    let n = data.len();
    match api {
        WriteApi::Send => s.send(Bytes::from(data)).await.map(|()| n).map_err(|e| stream_err(&e).0),
        WriteApi::SendVectored(k) => {
            let mut chunks: Vec<Bytes> = split_pieces(&data, k, rng).into_iter().map(Bytes::from).collect();
            s.send_vectored(&mut chunks).await.map(|()| n).map_err(|e| stream_err(&e).0)
        }
        WriteApi::Sink => {
            use futures::SinkExt;
            s.send_all(&mut futures::stream::iter([Ok(Bytes::from(data))]))
                .await
                .map(|()| n)
                .map_err(|e| stream_err(&e).0)
        }
        WriteApi::FutWrite => {
            use futures::AsyncWriteExt;
            s.write(&data).await.map_err(|e| io_err(&e).0)
        }
        WriteApi::FutWriteVectored(k) => {
            use futures::AsyncWriteExt;
            let pieces = split_pieces(&data, k, rng);
            let bufs: Vec<std::io::IoSlice> = pieces.iter().map(|p| std::io::IoSlice::new(p)).collect();
            s.write_vectored(&bufs).await.map_err(|e| io_err(&e).0)
        }
        WriteApi::TokioWrite => {
            use tokio::io::AsyncWriteExt;
            s.write(&data).await.map_err(|e| io_err(&e).0)
        }
        WriteApi::TokioWriteVectored(k) => {
            use tokio::io::AsyncWriteExt;
            let pieces = split_pieces(&data, k, rng);
            let bufs: Vec<std::io::IoSlice> = pieces.iter().map(|p| std::io::IoSlice::new(p)).collect();
            s.write_vectored(&bufs).await.map_err(|e| io_err(&e).0)
        }
    }
}

async fn sender(cx: AppCx, ep: EpId, key: FlowKey, plan: FlowPlan, s: SendStream) {
    cx.op(ep, AppOp::TaskStart { flow: key, sender: true });
    sender_inner(cx.clone(), ep, key, plan, s).await;
    cx.op(ep, AppOp::TaskEnd { flow: key, sender: true });
}

async fn sender_inner(cx: AppCx, ep: EpId, key: FlowKey, plan: FlowPlan, mut s: SendStream) {
    if let End::ResetAfter { delay_us, code } = plan.end {
        // the writing loop races a timer; whoever wins, the stream handle stays with us
        let written = std::sync::Arc::new(std::sync::atomic::AtomicU64::new(0));
        let outcome = {
            let work = sender_loop(cx.clone(), ep, key, plan.clone(), &mut s, written.clone());
            let timer = delay(Duration::from_micros(delay_us));
            futures::pin_mut!(work);
            futures::pin_mut!(timer);
            match futures::future::select(work, timer).await {
                futures::future::Either::Left((done, _)) => Some(done),
                futures::future::Either::Right(_) => None,
            }
        };
        match outcome {
            Some(true) => sender_finish(cx, ep, key, &mut s, written.load(std::sync::atomic::Ordering::Relaxed)).await,
            Some(false) => {}
            None => {
                let _ = s.reset((code as u32).into());
                cx.op(ep, AppOp::Reset { flow: key, at: written.load(std::sync::atomic::Ordering::Relaxed), code });
            }
        }
        return;
    }
    let written = std::sync::Arc::new(std::sync::atomic::AtomicU64::new(0));
    if sender_loop(cx.clone(), ep, key, plan, &mut s, written.clone()).await {
        sender_finish(cx, ep, key, &mut s, written.load(std::sync::atomic::Ordering::Relaxed)).await;
    }
}

/// the writing loop; returns true when everything was written (the stream is to be finished),
/// false when it ended by itself (error, or reset at an offset). `written` tracks the number
/// of bytes the interface has accepted so far.
async fn sender_loop(
    cx: AppCx,
    ep: EpId,
    key: FlowKey,
    plan: FlowPlan,
    s: &mut SendStream,
    written: std::sync::Arc<std::sync::atomic::AtomicU64>,
) -> bool {
    let prf = key.prf_key(cx.seed);
    let mut rng = Rng::new(vq_util::mix(prf, 7));
    let mut off = 0u64;
    loop {
        if let End::Reset { at, code } = plan.end {
            if off >= at.min(plan.len) {
                let _ = s.reset((code as u32).into());
                cx.op(ep, AppOp::Reset { flow: key, at: off, code });
                return false;
            }
        }
        if off >= plan.len {
            break;
        }
        let mut n = rng
            .range(plan.chunk_lo as u64, plan.chunk_hi as u64)
            .min(plan.len - off);
        if let End::Reset { at, .. } = plan.end {
            n = n.min(at.min(plan.len) - off);
        }
        let n = n.max(1) as usize;
        let data = vq_util::prf_vec(prf, off, n);
        cx.op(ep, AppOp::SendBegin { flow: key, off, len: n });
        match write_some(s, plan.write_api, data, &mut rng).await {
            Ok(accepted) => {
                // the interface reports how much it took: exactly these bytes count as
                // written, the task goes on from there (a short write is legal)
                cx.op(ep, AppOp::SendOk { flow: key, off, len: accepted });
                cx.w.lock().unwrap().ctx.summary.count(write_api_name(plan.write_api), 1);
                off += accepted as u64;
                written.store(off, std::sync::atomic::Ordering::Relaxed);
            }
            Err(err) => {
                cx.op(ep, AppOp::SendErr { flow: key, off, err });
                return false;
            }
        }
        if plan.flush && rng.chance(1, 4) {
            if let Err(e) = s.flush().await {
                cx.op(
                    ep,
                    AppOp::SendErr {
                        flow: key,
                        off,
                        err: format!("flush:{}", stream_err(&e).0),
                    },
                );
                return false;
            }
        }
        if plan.gap_every > 0 && rng.chance(1, plan.gap_every as u64) {
            delay(Duration::from_micros(plan.gap_us)).await;
        }
    }
    true
}

async fn sender_finish(cx: AppCx, ep: EpId, key: FlowKey, s: &mut SendStream, off: u64) {
    match s.finish() {
        Ok(()) => cx.op(ep, AppOp::Finished { flow: key, total: off }),
        Err(e) => {
            cx.op(
                ep,
                AppOp::SendErr {
                    flow: key,
                    off,
                    err: format!("finish:{}", stream_err(&e).0),
                },
            );
            return;
        }
    }
    match s.close().await {
        Ok(()) => cx.op(
            ep,
            AppOp::SendClosed {
                flow: key,
                ok: true,
                err: String::new(),
            },
        ),
        Err(e) => cx.op(
            ep,
            AppOp::SendClosed {
                flow: key,
                ok: false,
                err: stream_err(&e).0,
            },
        ),
    }
}

async fn receiver(cx: AppCx, ep: EpId, key: FlowKey, plan: FlowPlan, r: ReceiveStream) {
    cx.op(ep, AppOp::TaskStart { flow: key, sender: false });
    receiver_inner(cx.clone(), ep, key, plan, r).await;
    cx.op(ep, AppOp::TaskEnd { flow: key, sender: false });
}

async fn receiver_inner(cx: AppCx, ep: EpId, key: FlowKey, plan: FlowPlan, mut r: ReceiveStream) {
    let mut off = 0u64;
    let mut chunks_seen = 0u32;
    let mut reads = 0u32;
    cx.op(ep, AppOp::RecvBegin { flow: key });
    if let ReadMode::RejectAfter { delay_us, code, drop: by_drop } = plan.read {
        delay(Duration::from_micros(delay_us)).await;
        if by_drop {
            drop(r);
        } else {
            let _ = r.stop_sending((code as u32).into());
        }
        cx.op(ep, AppOp::StopSending { flow: key, at: 0, code });
        return;
    }
    loop {
        if let ReadMode::StopSending { at, code } = plan.read {
            if off >= at {
                let _ = r.stop_sending((code as u32).into());
                cx.op(ep, AppOp::StopSending { flow: key, at: off, code });
                return;
            }
        }
        reads += 1;
        if plan.read_pause_every > 0 && reads % plan.read_pause_every == 0 {
            delay(Duration::from_micros(plan.read_pause_us)).await;
        }
        let api = match plan.read {
            ReadMode::Vectored(n) => ReadApi::ReceiveVectored(n),
            _ => plan.read_api,
        };
        cx.w.lock().unwrap().ctx.summary.count(read_api_name(api), 1);
        let res: Result<(Vec<Bytes>, bool), (String, Option<u64>)> = match api {
            ReadApi::ReceiveVectored(n) => {
                let mut slots = vec![Bytes::new(); n.max(1)];
                match r.receive_vectored(&mut slots).await {
                    Ok((count, open)) => {
                        slots.truncate(count);
                        Ok((slots, open))
                    }
                    Err(e) => Err(stream_err(&e)),
                }
            }
            ReadApi::Receive => match r.receive().await {
                Ok(Some(c)) => Ok((vec![c], true)),
                Ok(None) => Ok((vec![], false)),
                Err(e) => Err(stream_err(&e)),
            },
            ReadApi::StreamNext => {
                use futures::StreamExt;
                match r.next().await {
                    Some(Ok(c)) => Ok((vec![c], true)),
                    None => Ok((vec![], false)),
                    Some(Err(e)) => Err(stream_err(&e)),
                }
            }
            ReadApi::FutRead(sz) => {
                use futures::AsyncReadExt;
                let mut buf = vec![0u8; sz.max(1)];
                match r.read(&mut buf).await {
                    Ok(0) => Ok((vec![], false)),
                    Ok(n) => Ok((vec![Bytes::copy_from_slice(&buf[..n])], true)),
                    Err(e) => Err(io_err(&e)),
                }
            }
            ReadApi::FutReadVectored(k, sz) => {
                use futures::AsyncReadExt;
                let mut store = vec![vec![0u8; sz.max(1)]; k.max(1)];
                let res = {
                    let mut bufs: Vec<std::io::IoSliceMut> =
                        store.iter_mut().map(|b| std::io::IoSliceMut::new(b)).collect();
                    r.read_vectored(&mut bufs).await
                };
                match res {
                    Ok(0) => Ok((vec![], false)),
                    Ok(mut n) => {
                        let mut out = vec![];
                        for b in &store {
                            let take = n.min(b.len());
                            if take == 0 {
                                break;
                            }
                            out.push(Bytes::copy_from_slice(&b[..take]));
                            n -= take;
                        }
                        Ok((out, true))
                    }
                    Err(e) => Err(io_err(&e)),
                }
            }
            ReadApi::TokioRead(sz) => {
                use tokio::io::AsyncReadExt;
                let mut buf = vec![0u8; sz.max(1)];
                match r.read(&mut buf).await {
                    Ok(0) => Ok((vec![], false)),
                    Ok(n) => Ok((vec![Bytes::copy_from_slice(&buf[..n])], true)),
                    Err(e) => Err(io_err(&e)),
                }
            }
        };
        match res {
            Ok((chunks, open)) => {
                for c in chunks {
                    let len = c.len() as u64;
                    cx.op(ep, AppOp::RecvChunk { flow: key, off, data: c });
                    off += len;
                    chunks_seen += 1;
                }
                if !open {
                    cx.op(ep, AppOp::RecvEnd { flow: key, total: off });
                    return;
                }
            }
            Err((err, reset_code)) => {
                cx.op(
                    ep,
                    AppOp::RecvErr {
                        flow: key,
                        at: off,
                        err,
                        reset_code,
                    },
                );
                return;
            }
        }
        if let ReadMode::Slow { every, us } = plan.read {
            if chunks_seen % every.max(1) == 0 {
                delay(Duration::from_micros(us)).await;
            }
        }
    }
}

/// run the flows of one stream on the side `ep`; `initiator` says whether `ep` opened it
fn run_stream(
    cx: &AppCx,
    ep: EpId,
    client: EpId,
    id: u64,
    plan: &StreamPlan,
    initiator: bool,
    send: Option<SendStream>,
    recv: Option<ReceiveStream>,
) {
    let fwd_dir = if plan.by_server { Dir::S2C } else { Dir::C2S };
    let (send_plan, send_dir, recv_plan, recv_dir) = if initiator {
        (Some(plan.fwd.clone()), fwd_dir, plan.rev.clone(), fwd_dir.rev())
    } else {
        (plan.rev.clone(), fwd_dir.rev(), Some(plan.fwd.clone()), fwd_dir)
    };
    if let (Some(s), Some(sp)) = (send, send_plan) {
        let key = FlowKey {
            client,
            stream: id,
            dir: send_dir,
        };
        cx.go(client, sender(cx.clone(), ep, key, sp, s));
    }
    if let (Some(r), Some(rp)) = (recv, recv_plan) {
        let key = FlowKey {
            client,
            stream: id,
            dir: recv_dir,
        };
        cx.go(client, receiver(cx.clone(), ep, key, rp, r));
    }
}

async fn opener(cx: AppCx, ep: EpId, client: EpId, mut h: Handle, plan: StreamPlan) {
    if plan.open_delay_us > 0 {
        delay(Duration::from_micros(plan.open_delay_us)).await;
    }
    cx.op(ep, AppOp::OpenBegin);
    if plan.bidi {
        match h.open_bidirectional_stream().await {
            Ok(s) => {
                let id = s.id();
                cx.w.lock().unwrap().ctx.plans.insert((client, id), plan.clone());
                cx.op(ep, AppOp::Opened { stream: id });
                let (r, s) = s.split();
                run_stream(&cx, ep, client, id, &plan, true, Some(s), Some(r));
            }
            Err(e) => cx.op(
                ep,
                AppOp::OpenErr {
                    kind: CloseKind::from_err(&e),
                },
            ),
        }
    } else {
        match h.open_send_stream().await {
            Ok(s) => {
                let id = s.id();
                cx.w.lock().unwrap().ctx.plans.insert((client, id), plan.clone());
                cx.op(ep, AppOp::Opened { stream: id });
                run_stream(&cx, ep, client, id, &plan, true, Some(s), None);
            }
            Err(e) => cx.op(
                ep,
                AppOp::OpenErr {
                    kind: CloseKind::from_err(&e),
                },
            ),
        }
    }
}

async fn acceptor(
    cx: AppCx,
    ep: EpId,
    client: EpId,
    mut a: s2n_quic::connection::StreamAcceptor,
) {
    loop {
        match a.accept().await {
            Ok(Some(stream)) => {
                let id = stream.id();
                let plan = cx.w.lock().unwrap().ctx.plans.get(&(client, id)).cloned();
                let Some(plan) = plan else {
                    // a stream nobody planned: report it through the world as an anomaly
                    let drain = {
                        let mut w = cx.w.lock().unwrap();
                        w.ctx.feature("unplanned_stream");
                        w.ctx.params.knob("drain_unplanned") != 0
                    };
                    if drain {
                        // an application that reads whatever its peer opens (to the end or
                        // the first error), without judging the content
                        let cx2 = cx.clone();
                        let flow = FlowKey { client, stream: id, dir: if ep == SERVER { Dir::C2S } else { Dir::S2C } };
                        spawn(async move {
                            // receive-only streams are read to the end; a bidirectional one is
                            // turned down as before (its handle is dropped)
                            if let PeerStream::Receive(mut r) = stream {
                                while let Ok(Some(c)) = r.receive().await {
                                    cx2.op(ep, AppOp::Drained { flow, n: c.len() as u64 });
                                }
                            }
                        });
                    }
                    continue;
                };
                match stream {
                    PeerStream::Bidirectional(s) => {
                        let (r, s) = s.split();
                        run_stream(&cx, ep, client, id, &plan, false, Some(s), Some(r));
                    }
                    PeerStream::Receive(r) => {
                        run_stream(&cx, ep, client, id, &plan, false, None, Some(r));
                    }
                }
            }
            Ok(None) => {
                cx.op(ep, AppOp::ConnEnded { kind: None });
                return;
            }
            Err(e) => {
                cx.op(
                    ep,
                    AppOp::ConnEnded {
                        kind: Some(CloseKind::from_err(&e)),
                    },
                );
                return;
            }
        }
    }
}

async fn server_conn(cx: AppCx, conn: s2n_quic::Connection, p: Arc<Params>) {
    let port = conn.remote_addr().map(|a| a.port()).unwrap_or(0);
    let client = cx.w.lock().unwrap().ctx.ep_of_port(port);
    cx.op(SERVER, AppOp::Accepted { conn: conn.id() });
    let Some(client) = client else { return };
    let plan = p.clients[client - 1].clone();
    if p.server.keep_alive {
        let mut conn = conn;
        let _ = conn.keep_alive(true);
        server_conn_inner(cx, conn, client, plan).await
    } else {
        server_conn_inner(cx, conn, client, plan).await
    }
}

async fn server_conn_inner(cx: AppCx, conn: s2n_quic::Connection, client: EpId, plan: ClientPlan) {
    let (h, a) = conn.split();
    if let Some(at) = plan.server_close_at_us {
        let h = h.clone();
        let cx2 = cx.clone();
        spawn(async move {
            let now = now_us();
            if at > now {
                delay(Duration::from_micros(at - now)).await;
            }
            cx2.op(SERVER, AppOp::ConnClose { code: 77 });
            h.close(77u32.into());
        });
    }
    for sp in plan.server_streams.iter() {
        cx.go(client, opener(cx.clone(), SERVER, client, h.clone(), sp.clone()));
    }
    // the accept loop is not "live work": it legitimately pends while the connection is idle
    spawn(acceptor(cx.clone(), SERVER, client, a));
}

async fn client_main(cx: AppCx, ep: EpId, client: Client, plan: ClientPlan, addr: SocketAddr) {
    if plan.start_delay_us > 0 {
        delay(Duration::from_micros(plan.start_delay_us)).await;
    }
    let connect = Connect::new(addr).with_server_name("localhost");
    cx.op(ep, AppOp::ConnectBegin);
    let mut conn = match client.connect(connect).await {
        Ok(c) => c,
        Err(e) => {
            cx.op(
                ep,
                AppOp::ConnectErr {
                    kind: CloseKind::from_err(&e),
                },
            );
            return;
        }
    };
    cx.op(ep, AppOp::ConnectOk { conn: conn.id() });
    if plan.cfg.keep_alive {
        let _ = conn.keep_alive(true);
    }
    let (h, a) = conn.split();
    spawn(acceptor(cx.clone(), ep, ep, a));
    for sp in plan.streams.iter() {
        cx.go(ep, opener(cx.clone(), ep, ep, h.clone(), sp.clone()));
    }
    // wait for all work on this connection (both sides) to finish, with quiescence
    let mut quiet = 0;
    loop {
        delay(Duration::from_millis(5)).await;
        let now = now_us();
        if let Some(at) = plan.abort_at_us {
            if now >= at {
                break;
            }
        }
        if now >= cx.t_max {
            return;
        }
        if cx.live_count(ep) == 0 {
            quiet += 1;
            if quiet >= 8 {
                break;
            }
        } else {
            quiet = 0;
        }
    }
    if let Some(code) = plan.close_code {
        cx.op(ep, AppOp::ConnClose { code });
        h.close((code as u32).into());
    }
    // keep the client endpoint alive while the close is handled
    drop(h);
}

/// Build everything inside the simulation and spawn the supervisor as the only primary task.
pub fn setup(handle: &IoHandle, p: Arc<Params>, w: Shared, mut ex: Extras) {
    let cx = AppCx {
        w: w.clone(),
        seed: p.seed,
        t_max: p.t_max_us,
    };
    let mut server = build_server(
        handle,
        &p,
        &w,
        ex.server_rewriter.take(),
        !ex.server_unobserved,
        ex.server_tp_rewrite.take(),
    );
    let addr = server.local_addr().unwrap();
    {
        let cx = cx.clone();
        let p = p.clone();
        spawn(async move {
            while let Some(conn) = server.accept().await {
                spawn(server_conn(cx.clone(), conn, p.clone()));
            }
        });
    }
    if !ex.probes.is_empty() {
        let probes = std::mem::take(&mut ex.probes);
        let handle = handle.clone();
        let w = w.clone();
        w.lock().unwrap().ctx.clients_running += 1;
        spawn(async move {
            let mut sockets = Vec::new();
            for (i, (at, bytes)) in probes.into_iter().enumerate() {
                let now = now_us();
                if at > now {
                    delay(Duration::from_micros(at - now)).await;
                }
                let socket = handle.builder().build().unwrap().socket();
                let port = socket.local_addr().unwrap().port();
                w.lock().unwrap().ctx.port_to_ep.insert(port, PROBER_BASE + i);
                let _ = socket.send_to(addr, Default::default(), bytes);
                sockets.push(socket);
            }
            // give the server time to (not) answer
            delay(Duration::from_millis(500)).await;
            w.lock().unwrap().ctx.clients_running -= 1;
            drop(sockets);
        });
    }
    let n = p.clients.len();
    w.lock().unwrap().ctx.clients_running += n;
    for i in 0..n {
        let ep = i + 1;
        let (rw, obs, tp) = if i == 0 {
            (
                ex.client_rewriter.take(),
                !ex.client_unobserved,
                ex.client_tp_rewrite.take(),
            )
        } else {
            (None, true, None)
        };
        let client = build_client(handle, &p, ep, &w, rw, obs, tp);
        let cx2 = cx.clone();
        let plan = p.clients[i].clone();
        spawn(async move {
            client_main(cx2.clone(), ep, client, plan, addr).await;
            cx2.w.lock().unwrap().ctx.clients_running -= 1;
        });
    }
    // supervisor
    let linger = p.linger_us;
    let t_max = p.t_max_us;
    io::primary::spawn(async move {
        loop {
            delay(Duration::from_millis(5)).await;
            let now = now_us();
            let running = w.lock().unwrap().ctx.clients_running;
            if running == 0 || now >= t_max {
                break;
            }
        }
        {
            let mut w = w.lock().unwrap();
            let t = now_us();
            w.workload_done(t);
        }
        delay(Duration::from_micros(linger)).await;
    });
}

pub fn make_net(w: &Shared, p: &Params, injector: Option<Box<dyn Injector>>) -> Net {
    let mut net = Net::new(w.clone(), p.seed, p.net.clone());
    net.injector = injector;
    net
}
