//! History monitor: per-thread event logs (merged after the run through a relaxed global
//! sequence stamp), unique heap items with a drop ledger, and the verdict collector.

use std::{
    collections::BTreeMap,
    sync::atomic::{AtomicU64, AtomicU8, Ordering::*},
};
use vq_util::{json, mix, Summary, Value, Violation};

static SEQ: AtomicU64 = AtomicU64::new(0);

/// What a scenario thread observed, stamped with a relaxed global sequence number.
#[derive(Clone, Copy, Debug, PartialEq, Eq, PartialOrd, Ord)]
pub enum Ev {
    /// producer published items `[from, to)` (slice dropped)
    Push(u32, u32),
    /// consumer took items; arg = (first id, count) as observed
    Pop(u32, u32),
    /// an `acquire` had to go through Pending at least once
    Waited,
    /// side saw `ClosedError`/`None`
    SawClosed,
    /// side dropped its endpoint
    Close,
    /// scenario specific marker
    Mark(u32),
}

pub struct ThreadLog {
    pub who: u8,
    pub events: Vec<(u64, Ev)>,
    /// item ids in the order this thread received them
    pub received: Vec<u64>,
    /// values read that are not a valid item (sentinel / torn)
    pub garbage: Vec<u64>,
    pub pushed: u64,
    pub saw_closed: bool,
    /// free-form numeric facts for the oracle
    pub facts: BTreeMap<&'static str, u64>,
    pub failpoints: BTreeMap<&'static str, u64>,
    pub failpoint_actions: u64,
    /// harness-side precondition that could not be established (scenario is then trivial)
    pub missed_precondition: bool,
}

impl ThreadLog {
    pub fn new(who: u8) -> Self {
        Self {
            who,
            events: Vec::new(),
            received: Vec::new(),
            garbage: Vec::new(),
            pushed: 0,
            saw_closed: false,
            facts: BTreeMap::new(),
            failpoints: BTreeMap::new(),
            failpoint_actions: 0,
            missed_precondition: false,
        }
    }
    #[inline]
    pub fn ev(&mut self, e: Ev) {
        let s = SEQ.fetch_add(1, Relaxed);
        self.events.push((s, e));
    }
    pub fn fact(&mut self, k: &'static str, v: u64) {
        self.facts.insert(k, v);
    }
    pub fn add(&mut self, k: &'static str, v: u64) {
        *self.facts.entry(k).or_insert(0) += v;
    }
}

/// Drop ledger for the unique items: `drops[id]` counts destructor runs.
pub struct Tracker {
    drops: Vec<AtomicU8>,
    created: AtomicU64,
}

impl Tracker {
    pub fn new(max: usize) -> Self {
        Self {
            drops: (0..max).map(|_| AtomicU8::new(0)).collect(),
            created: AtomicU64::new(0),
        }
    }
    pub fn item(&self, id: u64) -> Item<'_> {
        self.created.fetch_max(id + 1, Relaxed);
        Item {
            id: Box::new(id),
            t: self,
        }
    }
    pub fn created(&self) -> u64 {
        self.created.load(Relaxed)
    }
    pub fn drops(&self, id: u64) -> u8 {
        self.drops[id as usize].load(Relaxed)
    }
}

/// A unique heap item: a half-written slot, a double delivery or a lost destructor is a
/// sanitizer report (wild pointer / double free / leak) as well as a ledger mismatch.
pub struct Item<'a> {
    id: Box<u64>,
    t: &'a Tracker,
}

impl Item<'_> {
    #[inline]
    pub fn id(&self) -> u64 {
        *self.id
    }
}

impl Drop for Item<'_> {
    fn drop(&mut self) {
        let id = *self.id as usize;
        if let Some(d) = self.t.drops.get(id) {
            d.fetch_add(1, Relaxed);
        }
    }
}

/// Verdicts of one execution.
pub struct Verdict {
    pub scenario: &'static str,
    pub seed: u64,
    pub iter: u64,
    pub violations: Vec<(String, String)>,
    pub trivial: bool,
    pub features: Vec<(&'static str, u64)>,
}

impl Verdict {
    pub fn new(scenario: &'static str, seed: u64, iter: u64) -> Self {
        Self {
            scenario,
            seed,
            iter,
            violations: Vec::new(),
            trivial: false,
            features: Vec::new(),
        }
    }
    pub fn fail(&mut self, kind: &str, what: String) {
        self.violations
            .push((format!("monitor:{kind}:{}", self.scenario), what));
    }
    pub fn feature(&mut self, k: &'static str, v: u64) {
        self.features.push((k, v));
    }
    pub fn replay(&self) -> Value {
        json!({"engine": "vq-sync", "scenario": self.scenario, "seed": self.seed, "iter": self.iter, "tool": crate::tool_name()})
    }
}

/// Global order of events reconstructed from the relaxed stamps; its hash is the
/// "interleaving witnessed" signature.
pub fn interleaving_hash(scenario: &str, logs: &[ThreadLog]) -> (u64, usize) {
    let mut all: Vec<(u64, u8, Ev)> = Vec::new();
    for l in logs {
        for (s, e) in &l.events {
            all.push((*s, l.who, *e));
        }
    }
    all.sort();
    let mut h = vq_util::hash_str(scenario);
    for (_, who, e) in &all {
        let (k, a, b) = match *e {
            Ev::Push(a, b) => (1u64, a as u64, b as u64),
            Ev::Pop(a, b) => (2, a as u64, b as u64),
            Ev::Waited => (3, 0, 0),
            Ev::SawClosed => (4, 0, 0),
            Ev::Close => (5, 0, 0),
            Ev::Mark(a) => (6, a as u64, 0),
        };
        h = mix(h, (*who as u64) << 56 | k << 48 | a << 24 | b);
    }
    (h, all.len())
}

/// Common oracles over the item ledger and the received sequence.
pub fn check_sequence(v: &mut Verdict, received: &[u64], published: u64) {
    for (i, id) in received.iter().enumerate() {
        if *id != i as u64 {
            let kind = if received[..i].contains(id) {
                "duplicate-item"
            } else if *id > i as u64 {
                "lost-or-reordered-item"
            } else {
                "reordered-item"
            };
            v.fail(
                kind,
                format!(
                    "received sequence is not a prefix of the pushed sequence: position {i} holds id {id}; received={received:?}"
                ),
            );
            return;
        }
    }
    if received.len() as u64 > published {
        v.fail(
            "phantom-item",
            format!(
                "received {} items but only {published} were published",
                received.len()
            ),
        );
    }
}

pub fn check_ledger(v: &mut Verdict, t: &Tracker) {
    for id in 0..t.created() {
        let d = t.drops(id);
        if d != 1 {
            let kind = if d == 0 { "leaked-item" } else { "double-drop" };
            v.fail(
                kind,
                format!("item {id} was dropped {d} times after both endpoints were dropped"),
            );
            return;
        }
    }
}

pub fn record(summary: &mut Summary, v: Verdict, sig: u64) {
    summary.evaluations += 1;
    summary.count(&format!("runs.{}", v.scenario), 1);
    if v.trivial {
        summary.trivial += 1;
        summary.count(&format!("trivial.{}", v.scenario), 1);
    } else {
        summary.signatures.insert(sig);
    }
    for (k, n) in &v.features {
        summary.count(&format!("{}.{k}", v.scenario), *n);
    }
    let replay = v.replay();
    for (sig, what) in v.violations {
        summary.violation(Violation {
            property: "C17".into(),
            signature: sig,
            what,
            replay: replay.clone(),
        });
    }
}
