//! spsc scenarios: one producer thread, one consumer thread, requested capacity 2, unique
//! `Box<u64>` items with a drop ledger.

use crate::{
    exec::{await_published, block_on, block_on_poll, spin_limit, spin_until, spin_yield, Ack, Rendezvous, Task},
    monitor::{check_ledger, check_sequence, Ev, Item, ThreadLog, Tracker, Verdict},
    Body, Env, Runner, Scenario,
};
use s2n_quic_core::sync::spsc::{self, PushError, Receiver, Sender};

const TX: usize = 0;
const RX: usize = 1;

#[derive(Clone, Copy, Debug, PartialEq)]
enum TxMode {
    /// `acquire().await`, then one `push` per slice
    Single,
    /// `poll_slice`, then up to `batch` pushes into the one slice
    Batch,
    /// `acquire().await`, `slice().extend(iter)`
    Extend,
    /// `try_slice()` in a spin loop (no waker)
    TrySpin,
}

#[derive(Clone, Copy, Debug, PartialEq)]
enum RxMode {
    /// `acquire().await`, `slice().pop()` until empty
    Pop,
    /// `poll_slice`, `peek()` both halves, `release(len)`
    PeekRelease,
    /// `acquire().await`, `peek()`, `clear()`
    PeekClear,
    /// `try_slice()` in a spin loop
    TrySpin,
}

#[derive(Clone, Copy, Debug, PartialEq)]
enum Gate {
    None,
    /// do nothing until the peer task is parked in its waker
    PeerParked,
}

#[derive(Clone, Copy, Debug)]
struct Cfg {
    capacity: usize,
    /// items the producer wants to push
    n: u64,
    batch: u64,
    tx_mode: TxMode,
    rx_mode: RxMode,
    /// the producer drops its sender after this many pushes (n = after all)
    tx_stop_after: u64,
    /// the consumer drops its receiver after this many pops (u64::MAX = drains until closed)
    rx_stop_after: u64,
    tx_gate: Gate,
    rx_gate: Gate,
    /// gate again right before dropping the endpoint
    tx_close_gate: Gate,
    rx_close_gate: Gate,
    /// both sides meet (relaxed rendez-vous) right before dropping their endpoint
    close_together: bool,
    /// yields before the first operation
    tx_delay: u64,
    rx_delay: u64,
    /// after every published batch the producer waits (bounded) until the consumer has taken
    /// it: each push is then a "queue becomes non-empty" event nothing later can paper over
    tx_ack: bool,
    /// after every released batch the consumer waits (bounded) until the producer has used the
    /// space: each pop is a "space appears" event
    rx_ack: bool,
}

impl Cfg {
    fn base(env: &Env) -> Self {
        let mut r = env.rng();
        Self {
            capacity: 2,
            n: r.range(env.scale(5, 6), env.scale(8, 24)),
            batch: r.range(1, 3),
            tx_mode: TxMode::Single,
            rx_mode: RxMode::Pop,
            tx_stop_after: u64::MAX,
            rx_stop_after: u64::MAX,
            tx_gate: Gate::None,
            rx_gate: Gate::None,
            tx_close_gate: Gate::None,
            rx_close_gate: Gate::None,
            close_together: false,
            tx_delay: r.below(4),
            rx_delay: r.below(4),
            tx_ack: false,
            rx_ack: false,
        }
    }
}

fn wait_gate(g: Gate, peer: &Task, log: &mut ThreadLog) {
    if g == Gate::PeerParked {
        let ok = spin_until(spin_limit(), || peer.is_parked() || peer.is_done());
        if !ok || peer.is_done() {
            log.missed_precondition = true;
        } else {
            log.ev(Ev::Mark(1));
        }
    }
}

struct Shared<'a> {
    cfg: Cfg,
    tracker: &'a Tracker,
    tasks: &'a [Task],
    meet: &'a Rendezvous,
}

fn producer<'a>(sh: &Shared<'a>, mut send: Sender<Item<'a>>, log: &mut ThreadLog) {
    let cfg = sh.cfg;
    let me = &sh.tasks[TX];
    let peer = &sh.tasks[RX];
    let limit = cfg.n.min(cfg.tx_stop_after);
    let mut next = 0u64;
    let mut pending: Option<Item<'a>> = None;
    for _ in 0..cfg.tx_delay {
        spin_yield();
    }
    wait_gate(cfg.tx_gate, peer, log);
    let real_capacity = send.capacity() as u64;
    log.fact("capacity", real_capacity);
    'outer: while next < limit {
        let before = next;
        let pend0 = me.pendings.load(std::sync::atomic::Ordering::Relaxed);
        match cfg.tx_mode {
            TxMode::Single | TxMode::Extend => {
                if block_on(me, send.acquire()).is_err() {
                    log.saw_closed = true;
                    log.ev(Ev::SawClosed);
                    break 'outer;
                }
                let mut slice = send.slice();
                if cfg.tx_mode == TxMode::Single {
                    let item = pending.take().unwrap_or_else(|| sh.tracker.item(next));
                    match slice.push(item) {
                        Ok(()) => next += 1,
                        Err(PushError::Full(item)) => {
                            log.add("push_full", 1);
                            pending = Some(item);
                        }
                        Err(PushError::Closed) => {
                            // the library dropped the item it was handed
                            log.saw_closed = true;
                        }
                    }
                } else {
                    let want = cfg.batch.min(limit - next);
                    let mut made = 0u64;
                    let mut iter = (0..want).map(|i| {
                        made += 1;
                        sh.tracker.item(next + i)
                    });
                    let r = slice.extend(&mut iter);
                    drop(iter);
                    next += made;
                    if r.is_err() {
                        log.saw_closed = true;
                    }
                }
            }
            TxMode::Batch => {
                let r = block_on_poll(me, |cx| {
                    send.poll_slice(cx).map(|r| {
                        r.map(|mut slice| {
                            let mut closed = false;
                            for _ in 0..cfg.batch {
                                if next >= limit {
                                    break;
                                }
                                let item = pending.take().unwrap_or_else(|| sh.tracker.item(next));
                                match slice.push(item) {
                                    Ok(()) => next += 1,
                                    Err(PushError::Full(item)) => {
                                        pending = Some(item);
                                        break;
                                    }
                                    Err(PushError::Closed) => {
                                        closed = true;
                                        break;
                                    }
                                }
                            }
                            closed
                        })
                    })
                });
                match r {
                    Ok(false) => {}
                    Ok(true) => log.saw_closed = true,
                    Err(_) => {
                        log.saw_closed = true;
                        log.ev(Ev::SawClosed);
                        break 'outer;
                    }
                }
            }
            TxMode::TrySpin => match send.try_slice() {
                Ok(Some(mut slice)) => {
                    for _ in 0..cfg.batch {
                        if next >= limit {
                            break;
                        }
                        let item = pending.take().unwrap_or_else(|| sh.tracker.item(next));
                        match slice.push(item) {
                            Ok(()) => next += 1,
                            Err(PushError::Full(item)) => {
                                pending = Some(item);
                                break;
                            }
                            Err(PushError::Closed) => {
                                log.saw_closed = true;
                                break;
                            }
                        }
                    }
                }
                Ok(None) => {
                    log.add("spins", 1);
                    spin_yield();
                }
                Err(_) => {
                    log.saw_closed = true;
                    log.ev(Ev::SawClosed);
                    break 'outer;
                }
            },
        }
        if me.pendings.load(std::sync::atomic::Ordering::Relaxed) != pend0 {
            log.ev(Ev::Waited);
        }
        if next != before {
            me.publish(next);
            log.ev(Ev::Push(before as u32, next as u32));
        }
        if log.saw_closed {
            log.ev(Ev::SawClosed);
            break;
        }
        if cfg.tx_ack && next != before {
            match await_published(peer, next) {
                Ack::Progressed => log.add("acks", 1),
                Ack::LostWakeup => {
                    log.fact("lost_wakeup", next);
                    break;
                }
                Ack::Slow => {
                    log.fact("ack_slow", next);
                    break;
                }
            }
        }
    }
    log.pushed = next;
    drop(pending);
    wait_gate(cfg.tx_close_gate, peer, log);
    if cfg.close_together {
        sh.meet.meet(2);
    }
    log.ev(Ev::Close);
    drop(send);
    me.set_closed();
}

fn consumer<'a>(sh: &Shared<'a>, mut recv: Receiver<Item<'a>>, log: &mut ThreadLog) {
    let cfg = sh.cfg;
    let me = &sh.tasks[RX];
    let peer = &sh.tasks[TX];
    for _ in 0..cfg.rx_delay {
        spin_yield();
    }
    wait_gate(cfg.rx_gate, peer, log);
    let mut got = 0u64;
    let take = |log: &mut ThreadLog, id: u64, got: &mut u64| {
        log.received.push(id);
        *got += 1;
    };
    'outer: while got < cfg.rx_stop_after {
        let before = got;
        let pend0 = me.pendings.load(std::sync::atomic::Ordering::Relaxed);
        let room = cfg.rx_stop_after - got;
        match cfg.rx_mode {
            RxMode::Pop | RxMode::PeekClear => {
                if block_on(me, recv.acquire()).is_err() {
                    log.saw_closed = true;
                    log.ev(Ev::SawClosed);
                    break 'outer;
                }
                let mut slice = recv.slice();
                if cfg.rx_mode == RxMode::Pop {
                    let mut left = room;
                    while left > 0 {
                        match slice.pop() {
                            Some(item) => {
                                take(log, item.id(), &mut got);
                                left -= 1;
                            }
                            None => break,
                        }
                    }
                } else {
                    let (a, b) = slice.peek();
                    let ids: Vec<u64> = a.iter().chain(b.iter()).map(|i| i.id()).collect();
                    let cleared = slice.clear();
                    if cleared != ids.len() {
                        log.fact("clear_mismatch", (cleared as u64) << 32 | ids.len() as u64);
                    }
                    for id in ids {
                        take(log, id, &mut got);
                    }
                }
            }
            RxMode::PeekRelease => {
                let r = block_on_poll(me, |cx| {
                    recv.poll_slice(cx).map(|r| {
                        r.map(|mut slice| {
                            let (a, b) = slice.peek();
                            let mut ids: Vec<u64> =
                                a.iter().chain(b.iter()).map(|i| i.id()).collect();
                            ids.truncate(room.min(usize::MAX as u64) as usize);
                            slice.release(ids.len());
                            ids
                        })
                    })
                });
                match r {
                    Ok(ids) => {
                        for id in ids {
                            take(log, id, &mut got);
                        }
                    }
                    Err(_) => {
                        log.saw_closed = true;
                        log.ev(Ev::SawClosed);
                        break 'outer;
                    }
                }
            }
            RxMode::TrySpin => match recv.try_slice() {
                Ok(Some(mut slice)) => {
                    let mut left = room;
                    while left > 0 {
                        match slice.pop() {
                            Some(item) => {
                                take(log, item.id(), &mut got);
                                left -= 1;
                            }
                            None => break,
                        }
                    }
                }
                Ok(None) => {
                    log.add("spins", 1);
                    spin_yield();
                }
                Err(_) => {
                    log.saw_closed = true;
                    log.ev(Ev::SawClosed);
                    break 'outer;
                }
            },
        }
        if me.pendings.load(std::sync::atomic::Ordering::Relaxed) != pend0 {
            log.ev(Ev::Waited);
        }
        if got != before {
            me.publish(got);
            log.ev(Ev::Pop(before as u32, (got - before) as u32));
        }
        if cfg.rx_ack && got != before {
            // the producer can always reach got + 1 once `got` items have been released
            let target = (got + 1).min(cfg.n.min(cfg.tx_stop_after));
            match await_published(peer, target) {
                Ack::Progressed => log.add("acks", 1),
                Ack::LostWakeup => {
                    log.fact("lost_wakeup", target);
                    break;
                }
                Ack::Slow => {
                    log.fact("ack_slow", target);
                    break;
                }
            }
        }
    }
    wait_gate(cfg.rx_close_gate, peer, log);
    if cfg.close_together {
        sh.meet.meet(2);
    }
    log.ev(Ev::Close);
    drop(recv);
    me.set_closed();
}

fn run_cfg(name: &'static str, env: &Env, runner: &mut Runner, cfg: Cfg) {
    let tracker = Tracker::new(cfg.n as usize + 4);
    let tasks = [Task::default(), Task::default()];
    let meet = Rendezvous::default();
    let (send, recv) = spsc::channel::<Item<'_>>(cfg.capacity);
    let sh = Shared {
        cfg,
        tracker: &tracker,
        tasks: &tasks,
        meet: &meet,
    };
    let mut v = Verdict::new(name, env.seed, env.iter);
    if env.verbose {
        eprintln!("[vq-sync] {name} seed={} iter={} cfg={cfg:?}", env.seed, env.iter);
    }
    let shr = &sh;
    let bodies: Vec<Body<'_>> = vec![
        Box::new(move |log: &mut ThreadLog| producer(shr, send, log)),
        Box::new(move |log: &mut ThreadLog| consumer(shr, recv, log)),
    ];
    let logs = runner.run_threads(name, env, &["tx", "rx"], &tasks, bodies, &mut v);
    let (tx, rx) = (&logs[TX], &logs[RX]);
    if env.verbose {
        eprintln!(
            "[vq-sync]   tx: pushed={} saw_closed={} events={:?}",
            tx.pushed, tx.saw_closed, tx.events
        );
        eprintln!(
            "[vq-sync]   rx: received={:?} saw_closed={} events={:?}",
            rx.received, rx.saw_closed, rx.events
        );
    }

    // ---- oracles -------------------------------------------------------------------------
    // (1) received is a prefix of pushed, exactly once, in order
    check_sequence(&mut v, &rx.received, tx.pushed);
    // (2) clean close: the consumer drained until it saw Closed => it has everything that was
    //     pushed before the close
    let rx_drains = cfg.rx_stop_after == u64::MAX;
    if rx_drains && rx.saw_closed && (rx.received.len() as u64) < tx.pushed {
        v.fail(
            "lost-item-at-close",
            format!(
                "consumer saw Closed after {} items but {} were pushed before the sender was dropped",
                rx.received.len(),
                tx.pushed
            ),
        );
    }
    if rx_drains && !rx.saw_closed && !(rx.facts.contains_key("lost_wakeup") || rx.facts.contains_key("ack_slow")) {
        v.fail(
            "close-not-observed",
            "draining consumer returned without observing Closed".into(),
        );
    }
    // (3) a producer that could not finish must have been told the peer went away
    let tx_limit = cfg.n.min(cfg.tx_stop_after);
    let tx_bailed = tx.facts.contains_key("lost_wakeup") || tx.facts.contains_key("ack_slow");
    if tx.pushed < tx_limit && !tx.saw_closed && !tx_bailed {
        v.fail(
            "producer-stopped-without-close",
            format!("producer stopped at {} of {tx_limit} without seeing Closed", tx.pushed),
        );
    }
    let rx_bailed = rx.facts.contains_key("lost_wakeup") || rx.facts.contains_key("ack_slow");
    if tx.saw_closed && rx_drains && !rx_bailed {
        v.fail(
            "spurious-close",
            "producer saw Closed although the receiver drains until the sender closes".into(),
        );
    }
    // (2b) bounded progress, strict form: the peer published and this task stayed asleep
    let mut bailed = false;
    for (l, who, peer, what) in [(tx, "producer", "consumer", "data"), (rx, "consumer", "producer", "space")] {
        if let Some(t) = l.facts.get("lost_wakeup") {
            bailed = true;
            v.fail(
                "lost-wakeup",
                format!(
                    "the {who} published {what} (monitor count {t}) and the {peer} stayed parked with no wake-up latched beyond the bound; monitor facts: tx published={} rx published={}",
                    tasks[TX].published.load(std::sync::atomic::Ordering::Relaxed),
                    tasks[RX].published.load(std::sync::atomic::Ordering::Relaxed)
                ),
            );
        }
        if let Some(t) = l.facts.get("ack_slow") {
            bailed = true;
            runner.summary.inconclusive.push(format!(
                "{name} seed={} iter={}: {peer} did not act on {what} {t} within the bound but was runnable",
                env.seed, env.iter
            ));
        }
    }
    // (4) every item destroyed exactly once (consumed, or released by the channel)
    check_ledger(&mut v, &tracker);
    if let Some(m) = rx.facts.get("clear_mismatch") {
        v.fail(
            "clear-count",
            format!("clear() returned {} after peek() showed {} items", m >> 32, m & 0xffff_ffff),
        );
    }
    // (5) occupancy never exceeded the capacity the channel reports
    let capacity = tx.facts.get("capacity").copied().unwrap_or(0);
    if capacity < cfg.capacity as u64 {
        v.fail(
            "capacity",
            format!("channel({}) reports capacity {capacity}", cfg.capacity),
        );
    }

    let _ = bailed;
    v.trivial = tx.missed_precondition || rx.missed_precondition;
    v.feature("acks", tx.facts.get("acks").copied().unwrap_or(0) + rx.facts.get("acks").copied().unwrap_or(0));
    v.feature("items_pushed", tx.pushed);
    v.feature("items_received", rx.received.len() as u64);
    v.feature("tx_saw_closed", tx.saw_closed as u64);
    v.feature("rx_saw_closed", rx.saw_closed as u64);
    v.feature("undelivered_at_close", tx.pushed - (rx.received.len() as u64).min(tx.pushed));
    v.feature("tx_push_full", tx.facts.get("push_full").copied().unwrap_or(0));
    v.feature(
        "tx_parked_runs",
        (tasks[TX].parks.load(std::sync::atomic::Ordering::Relaxed) > 0) as u64,
    );
    v.feature(
        "rx_parked_runs",
        (tasks[RX].parks.load(std::sync::atomic::Ordering::Relaxed) > 0) as u64,
    );
    runner.conclude(v, &logs, &tasks);
}

// ---- the scenario table ----------------------------------------------------------------------

fn plain(name: &'static str, env: &Env, r: &mut Runner) {
    // KEEP: this is the scenario on which Miri reported the close()/drop_contents() race on the
    // unchanged tree (README.md); it must stay the plainest possible use of the API.
    let mut c = Cfg::base(env);
    c.n = env.scale(6, 20);
    c.tx_delay = 0;
    c.rx_delay = 0;
    run_cfg(name, env, r, c)
}

fn batch(name: &'static str, env: &Env, r: &mut Runner) {
    let mut c = Cfg::base(env);
    c.tx_mode = TxMode::Batch;
    c.rx_mode = RxMode::PeekRelease;
    c.batch = 3;
    run_cfg(name, env, r, c)
}

fn extend_clear(name: &'static str, env: &Env, r: &mut Runner) {
    let mut c = Cfg::base(env);
    c.tx_mode = TxMode::Extend;
    c.rx_mode = RxMode::PeekClear;
    c.batch = 2 + env.rng().below(2);
    run_cfg(name, env, r, c)
}

fn tx_waits(name: &'static str, env: &Env, r: &mut Runner) {
    // the consumer does nothing until the producer has filled the ring and parked
    let mut c = Cfg::base(env);
    c.rx_gate = Gate::PeerParked;
    if env.rng().chance(1, 2) {
        c.tx_mode = TxMode::Batch;
    }
    run_cfg(name, env, r, c)
}

fn rx_waits(name: &'static str, env: &Env, r: &mut Runner) {
    // the producer does nothing until the consumer has parked on the empty ring
    let mut c = Cfg::base(env);
    c.tx_gate = Gate::PeerParked;
    if env.rng().chance(1, 2) {
        c.rx_mode = RxMode::PeekRelease;
    }
    run_cfg(name, env, r, c)
}

fn ack_data(name: &'static str, env: &Env, r: &mut Runner) {
    // ping-pong: every batch must be taken by the (usually parked) consumer before the
    // producer does anything else, so no later push or the final close can rescue a lost wake-up
    let mut c = Cfg::base(env);
    let mut g = env.rng();
    c.n = env.scale(5, 12);
    c.tx_ack = true;
    c.tx_mode = *g.pick(&[TxMode::Single, TxMode::Batch, TxMode::Extend]);
    c.rx_mode = *g.pick(&[RxMode::Pop, RxMode::PeekRelease, RxMode::PeekClear]);
    run_cfg(name, env, r, c)
}

fn ack_space(name: &'static str, env: &Env, r: &mut Runner) {
    // the consumer waits for the producer to park on the full ring, then releases one batch at
    // a time and waits until the producer has used the space
    let mut c = Cfg::base(env);
    let mut g = env.rng();
    c.n = env.scale(8, 16);
    c.rx_gate = Gate::PeerParked;
    c.rx_ack = true;
    c.tx_mode = *g.pick(&[TxMode::Single, TxMode::Batch, TxMode::Extend]);
    c.rx_mode = *g.pick(&[RxMode::Pop, RxMode::PeekRelease]);
    run_cfg(name, env, r, c)
}

fn try_spin(name: &'static str, env: &Env, r: &mut Runner) {
    let mut c = Cfg::base(env);
    c.tx_mode = TxMode::TrySpin;
    c.rx_mode = RxMode::TrySpin;
    run_cfg(name, env, r, c)
}

fn mixed(name: &'static str, env: &Env, r: &mut Runner) {
    // one side async, the other spinning; modes drawn from the seed
    let mut c = Cfg::base(env);
    let mut g = env.rng();
    c.tx_mode = *g.pick(&[TxMode::Single, TxMode::Batch, TxMode::Extend, TxMode::TrySpin]);
    c.rx_mode = *g.pick(&[RxMode::Pop, RxMode::PeekRelease, RxMode::PeekClear, RxMode::TrySpin]);
    run_cfg(name, env, r, c)
}

fn close_rx_mid(name: &'static str, env: &Env, r: &mut Runner) {
    // the receiver goes away after k items while the producer is mid-stream
    let mut c = Cfg::base(env);
    let mut g = env.rng();
    c.n = env.scale(12, 40);
    c.rx_stop_after = g.below(5);
    c.tx_mode = *g.pick(&[TxMode::Single, TxMode::Batch, TxMode::Extend]);
    run_cfg(name, env, r, c)
}

fn close_rx_tx_parked(name: &'static str, env: &Env, r: &mut Runner) {
    // the receiver waits until the producer is parked on the full ring, takes k (0..=1) items'
    // worth of nothing and drops: the parked producer must be woken and see Closed
    let mut c = Cfg::base(env);
    c.n = env.scale(8, 16);
    c.rx_gate = Gate::PeerParked;
    c.rx_stop_after = 0;
    run_cfg(name, env, r, c)
}

fn close_tx_rx_parked(name: &'static str, env: &Env, r: &mut Runner) {
    // the producer waits until the consumer is parked on the empty ring, then pushes k (0..=3)
    // items in one slice and drops the sender right behind them
    let mut c = Cfg::base(env);
    let mut g = env.rng();
    c.tx_gate = Gate::PeerParked;
    c.tx_mode = TxMode::Batch;
    c.batch = 3;
    c.n = g.below(4);
    c.tx_delay = 0;
    run_cfg(name, env, r, c)
}

fn close_tx_last_push(name: &'static str, env: &Env, r: &mut Runner) {
    // push the last batch and close back-to-back while the consumer is busy draining
    let mut c = Cfg::base(env);
    let mut g = env.rng();
    c.tx_mode = *g.pick(&[TxMode::Batch, TxMode::Extend]);
    c.batch = 3;
    c.n = 3 + g.below(4);
    c.rx_mode = *g.pick(&[RxMode::Pop, RxMode::PeekRelease]);
    run_cfg(name, env, r, c)
}

fn close_both(name: &'static str, env: &Env, r: &mut Runner) {
    // both sides exchange a few items and then drop at the same moment, possibly with
    // undelivered items still in the ring
    let mut c = Cfg::base(env);
    let mut g = env.rng();
    c.n = 2 + g.below(3);
    c.tx_mode = TxMode::TrySpin;
    c.rx_mode = RxMode::TrySpin;
    c.tx_stop_after = c.n.min(1 + g.below(3));
    c.rx_stop_after = g.below(c.tx_stop_after + 1);
    c.close_together = true;
    run_cfg(name, env, r, c)
}

fn close_immediate(name: &'static str, env: &Env, r: &mut Runner) {
    // no traffic at all: the bare close()/close() race
    let mut c = Cfg::base(env);
    c.n = 0;
    c.rx_stop_after = 0;
    c.tx_delay = 0;
    c.rx_delay = 0;
    c.close_together = env.rng().chance(1, 2);
    run_cfg(name, env, r, c)
}

pub fn scenarios() -> Vec<Scenario> {
    vec![
        Scenario { name: "spsc_plain", about: "producer pushes N boxes one by one and drops; consumer drains until Closed and drops (anchor of the close/drop_contents race)", run: plain },
        Scenario { name: "spsc_batch", about: "poll_slice + several pushes per slice; poll_slice + peek/release", run: batch },
        Scenario { name: "spsc_extend_clear", about: "slice().extend(iter); peek + clear", run: extend_clear },
        Scenario { name: "spsc_tx_waits", about: "consumer idles until the producer is parked on a full ring, then drains", run: tx_waits },
        Scenario { name: "spsc_rx_waits", about: "producer idles until the consumer is parked on an empty ring, then pushes", run: rx_waits },
        Scenario { name: "spsc_ack_data", about: "ping-pong: each pushed batch must be taken by the parked consumer before the producer goes on (strict no-lost-wake-up)", run: ack_data },
        Scenario { name: "spsc_ack_space", about: "each released batch must be used by the parked producer before the consumer goes on", run: ack_space },
        Scenario { name: "spsc_try_spin", about: "both sides use try_slice in spin loops (no wakers)", run: try_spin },
        Scenario { name: "spsc_mixed", about: "push/pop modes drawn from the seed", run: mixed },
        Scenario { name: "spsc_close_rx_mid", about: "receiver dropped after k pops while the producer is mid-stream", run: close_rx_mid },
        Scenario { name: "spsc_close_rx_tx_parked", about: "receiver dropped while the producer is parked waiting for space", run: close_rx_tx_parked },
        Scenario { name: "spsc_close_tx_rx_parked", about: "sender pushes 0..3 items and is dropped while the consumer is parked waiting for data", run: close_tx_rx_parked },
        Scenario { name: "spsc_close_tx_last_push", about: "last batch and sender drop back-to-back while the consumer drains", run: close_tx_last_push },
        Scenario { name: "spsc_close_both", about: "both endpoints dropped at the same moment with items in flight", run: close_both },
        Scenario { name: "spsc_close_immediate", about: "both endpoints dropped with no traffic", run: close_immediate },
    ]
}
