//! vq-sync — runtime monitoring of `s2n_quic_core::sync::{spsc, worker, cursor, atomic_waker}`
//! for property C17 ("lock-free queues and wakers lose nothing under any thread interleaving").
//!
//! Small bounded multi-threaded scenarios over the public API, a history monitor (unique heap
//! items, exactly-once / in-order / prefix, drop ledger, bounded progress), executed under
//! Miri (many seeds), ThreadSanitizer, AddressSanitizer and natively (see run_sanitized.py).
//! No model checking: interleavings are *sampled*.

mod exec;
mod failpoint;
mod monitor;
mod scen_cursor;
mod scen_spsc;
mod scen_waker;
mod scen_worker;

use exec::Task;
use monitor::{ThreadLog, Verdict};
use std::{
    panic::{catch_unwind, AssertUnwindSafe},
    sync::{atomic::Ordering::*, mpsc, Mutex},
    time::{Duration, Instant},
};
use vq_util::{arg_str, arg_u64, json, mix, parse_args, Summary, Violation};

pub fn tool_name() -> &'static str {
    static TOOL: std::sync::OnceLock<String> = std::sync::OnceLock::new();
    TOOL.get_or_init(|| {
        let a = parse_args();
        let d = if cfg!(miri) { "miri" } else { "native" };
        arg_str(&a, "tool", d).to_string()
    })
}

/// Parameters of one execution.
pub struct Env {
    pub seed: u64,
    pub iter: u64,
    /// per-execution sub-seed
    pub sub: u64,
    pub verbose: bool,
    pub watchdog: Duration,
    pub fp_intensity: u64,
}

impl Env {
    pub fn rng(&self) -> vq_util::Rng {
        vq_util::Rng::new(self.sub)
    }
    /// sizes are kept tiny under Miri (it interprets the harness too)
    pub fn scale(&self, miri: u64, native: u64) -> u64 {
        if cfg!(miri) {
            miri
        } else {
            native
        }
    }
}

pub type Body<'a> = Box<dyn FnOnce(&mut ThreadLog) + Send + 'a>;

pub struct Runner {
    pub summary: Summary,
    pub started: Instant,
}

struct PanicInfo {
    msg: String,
    in_library: bool,
}

static LAST_PANIC: Mutex<Vec<(String, String)>> = Mutex::new(Vec::new());

fn install_panic_hook() {
    std::panic::set_hook(Box::new(|info| {
        let loc = info
            .location()
            .map(|l| format!("{}:{}", l.file(), l.line()))
            .unwrap_or_default();
        let msg = if let Some(s) = info.payload().downcast_ref::<&str>() {
            s.to_string()
        } else if let Some(s) = info.payload().downcast_ref::<String>() {
            s.clone()
        } else {
            "<non-string panic>".to_string()
        };
        eprintln!("[vq-sync] panic at {loc}: {msg}");
        let name = std::thread::current().name().unwrap_or("").to_string();
        if let Ok(mut g) = LAST_PANIC.lock() {
            g.push((name, format!("{loc}|{msg}")));
        }
    }));
}

fn take_panic(thread_name: &str) -> Option<PanicInfo> {
    let mut g = LAST_PANIC.lock().ok()?;
    let idx = g.iter().position(|(n, _)| n == thread_name)?;
    let (_, s) = g.remove(idx);
    let (loc, msg) = s.split_once('|').unwrap_or(("", &s));
    // a panic raised from a source file of the tree under test (or from core/alloc on its
    // behalf) counts against the library; one raised in the harness' own files does not
    let in_harness = loc.contains("vq-sync/src") || loc.contains("vq-util/src");
    Some(PanicInfo {
        msg: format!("{loc}: {msg}"),
        in_library: !in_harness,
    })
}

impl Runner {
    /// Runs the scenario threads to completion and returns their logs (index = thread index).
    ///
    /// Bounded progress: natively a watchdog classifies a run that does not finish. If every
    /// unfinished thread sits parked in `block_on` (stable), the peers it waits for have
    /// nothing left to do but finish, and each scenario ends with every side dropping its
    /// endpoint, so a task that is still parked has lost a wake-up => violation. If some
    /// thread is still running the run is merely slow => inconclusive. Under Miri there is no
    /// clock: a lost wake-up is Miri's own "deadlock" report.
    pub fn run_threads<'a>(
        &mut self,
        scenario: &'static str,
        env: &Env,
        names: &[&'static str],
        tasks: &'a [Task],
        bodies: Vec<Body<'a>>,
        v: &mut Verdict,
    ) -> Vec<ThreadLog> {
        let n = bodies.len();
        let (tx, rx) = mpsc::channel::<(usize, ThreadLog)>();
        let mut logs: Vec<Option<ThreadLog>> = (0..n).map(|_| None).collect();
        std::thread::scope(|s| {
            for (i, body) in bodies.into_iter().enumerate() {
                let tx = tx.clone();
                let task = &tasks[i];
                let fp_seed = mix(env.sub, 0xF00 + i as u64);
                let intensity = env.fp_intensity;
                // short role names only: thread names are truncated to 15 bytes and the
                // signature of a sanitizer report is built from them
                let tname = names[i].to_string();
                std::thread::Builder::new()
                    .name(tname)
                    .spawn_scoped(s, move || {
                        failpoint::thread_init(fp_seed, intensity);
                        let mut log = ThreadLog::new(i as u8);
                        let r = catch_unwind(AssertUnwindSafe(|| body(&mut log)));
                        if r.is_err() {
                            log.fact("panicked", 1);
                        }
                        let (hits, actions) = failpoint::thread_take();
                        log.failpoints = hits;
                        log.failpoint_actions = actions;
                        task.state.store(exec::DONE, Relaxed);
                        let _ = tx.send((i, log));
                    })
                    .expect("spawn");
            }
            drop(tx);
            let deadline = Instant::now() + env.watchdog;
            let mut got = 0;
            while got < n {
                let r = if cfg!(miri) {
                    rx.recv().map_err(|_| mpsc::RecvTimeoutError::Disconnected)
                } else {
                    rx.recv_timeout(deadline.saturating_duration_since(Instant::now()))
                };
                match r {
                    Ok((i, log)) => {
                        logs[i] = Some(log);
                        got += 1;
                    }
                    Err(mpsc::RecvTimeoutError::Timeout) => {
                        self.stuck(scenario, env, names, tasks, v);
                    }
                    Err(mpsc::RecvTimeoutError::Disconnected) => {
                        self.summary
                            .inconclusive
                            .push(format!("{scenario}: a scenario thread vanished"));
                        self.finish_and_exit();
                    }
                }
            }
        });
        let logs: Vec<ThreadLog> = logs.into_iter().map(|l| l.unwrap()).collect();
        for (i, l) in logs.iter().enumerate() {
            if l.facts.contains_key("panicked") {
                match take_panic(names[i]) {
                    Some(p) if p.in_library => {
                        v.fail("panic", format!("thread {} panicked: {}", names[i], p.msg))
                    }
                    Some(p) => self.summary.inconclusive.push(format!(
                        "{scenario}: harness panic in thread {}: {}",
                        names[i], p.msg
                    )),
                    None => self
                        .summary
                        .inconclusive
                        .push(format!("{scenario}: thread {} panicked", names[i])),
                }
            }
        }
        logs
    }

    fn stuck(
        &mut self,
        scenario: &'static str,
        env: &Env,
        names: &[&'static str],
        tasks: &[Task],
        v: &mut Verdict,
    ) -> ! {
        let snap = |tasks: &[Task]| -> Vec<(u8, u64, u64)> {
            tasks
                .iter()
                .map(|t| {
                    (
                        t.state.load(Relaxed),
                        t.pendings.load(Relaxed),
                        t.published.load(Relaxed),
                    )
                })
                .collect()
        };
        let a = snap(tasks);
        std::thread::sleep(Duration::from_millis(300));
        let b = snap(tasks);
        let describe: Vec<String> = tasks
            .iter()
            .enumerate()
            .map(|(i, t)| {
                format!(
                    "{}={} published={} closed={} parks={} wake_latched={}",
                    names[i],
                    t.state_name(),
                    t.published.load(Relaxed),
                    t.closed.load(Relaxed),
                    t.parks.load(Relaxed),
                    t.wake.notified.load(Relaxed)
                )
            })
            .collect();
        let stable = a == b;
        let all_blocked = b.iter().all(|(s, _, _)| *s != exec::RUNNING);
        let any_parked = b.iter().any(|(s, _, _)| *s == exec::PARKED);
        // a parked task whose waker HAS been called is runnable, merely not scheduled yet (an
        // oversubscribed machine): that is slowness, not a lost wake-up
        let all_asleep = tasks.iter().all(|t| !t.is_parked() || t.is_asleep());
        if stable && all_blocked && any_parked && all_asleep {
            let parked: Vec<&str> = tasks
                .iter()
                .enumerate()
                .filter(|(_, t)| t.is_parked())
                .map(|(i, _)| names[i])
                .collect();
            v.fail(
                "lost-wakeup",
                format!(
                    "after {} ms every unfinished thread is parked and nothing can wake it: parked={parked:?}; monitor facts: {}",
                    env.watchdog.as_millis(),
                    describe.join("; ")
                ),
            );
            let verdict = std::mem::replace(v, Verdict::new(scenario, env.seed, env.iter));
            monitor::record(&mut self.summary, verdict, 0);
        } else {
            self.summary.inconclusive.push(format!(
                "{scenario} seed={} iter={}: watchdog ({} ms) fired while a thread was still running: {}",
                env.seed,
                env.iter,
                env.watchdog.as_millis(),
                describe.join("; ")
            ));
        }
        self.finish_and_exit()
    }

    pub fn finish_and_exit(&mut self) -> ! {
        self.summary
            .max("wall_ms", self.started.elapsed().as_millis() as i64);
        self.summary.print();
        use std::io::Write;
        let _ = std::io::stdout().flush();
        std::process::exit(0)
    }

    /// Folds the per-thread evidence into the summary and records the verdict.
    pub fn conclude(&mut self, v: Verdict, logs: &[ThreadLog], tasks: &[Task]) {
        let (sig, nev) = monitor::interleaving_hash(v.scenario, logs);
        self.summary.max("events_per_run", nev as i64);
        for l in logs {
            for (k, n) in &l.failpoints {
                self.summary.count(&format!("failpoint.{k}"), *n);
            }
            self.summary.count("failpoint_actions", l.failpoint_actions);
        }
        let parks: u64 = tasks.iter().map(|t| t.parks.load(Relaxed)).sum();
        let pendings: u64 = tasks.iter().map(|t| t.pendings.load(Relaxed)).sum();
        self.summary.count(&format!("{}.parks", v.scenario), parks);
        self.summary
            .count(&format!("{}.pendings", v.scenario), pendings);
        if self.summary.samples.len() < 3 || !v.violations.is_empty() {
            let facts: Vec<_> = logs
                .iter()
                .map(|l| {
                    json!({"thread": l.who, "received": l.received.len(), "pushed": l.pushed,
                           "saw_closed": l.saw_closed, "events": l.events.len(), "facts": l.facts})
                })
                .collect();
            self.summary.sample(json!({"scenario": v.scenario, "seed": v.seed, "iter": v.iter,
                "interleaving": format!("{sig:016x}"), "parks": parks, "threads": facts}));
        }
        monitor::record(&mut self.summary, v, sig);
    }
}

pub struct Scenario {
    pub name: &'static str,
    pub about: &'static str,
    pub run: fn(&'static str, &Env, &mut Runner),
}

/// Scenarios that report a defect of the unchanged tree (see README.md, "Findings"). They are
/// real checks with stable signatures, but `--scenario all` inside ONE process skips them
/// because a lost wake-up ends the process; name them explicitly or use `all+known`
/// (run_sanitized.py gives every scenario its own process and includes them).
pub const KNOWN_DEFECT_SCENARIOS: &[&str] = &[];

pub fn scenarios() -> Vec<Scenario> {
    let mut v = Vec::new();
    v.extend(scen_spsc::scenarios());
    v.extend(scen_worker::scenarios());
    v.extend(scen_cursor::scenarios());
    v.extend(scen_waker::scenarios());
    v
}

fn main() {
    let args = parse_args();
    let all = scenarios();
    if args.contains_key("list") {
        for s in &all {
            let known = KNOWN_DEFECT_SCENARIOS.contains(&s.name);
            println!("{}\t{}\t{}", s.name, if known { "known-defect" } else { "-" }, s.about);
        }
        return;
    }
    install_panic_hook();
    failpoint::install();

    let mut seed = arg_u64(&args, "seed", 0);
    let mut start_iter = arg_u64(&args, "start", 0);
    let mut iters = arg_u64(&args, "iters", 1);
    let mut which = arg_str(&args, "scenario", "all").to_string();
    let mut verbose = args.contains_key("verbose");
    if let Some(path) = args.get("replay") {
        let text = std::fs::read_to_string(path).expect("replay file");
        let r: vq_util::Value = serde_json_from(&text);
        seed = r["seed"].as_u64().unwrap_or(0);
        start_iter = r["iter"].as_u64().unwrap_or(0);
        iters = 1;
        which = r["scenario"].as_str().unwrap_or("all").to_string();
        verbose = true;
    }
    let watchdog = Duration::from_millis(arg_u64(&args, "watchdog-ms", 20_000));
    let budget = arg_u64(&args, "budget-ms", 0);
    let fp_default = if failpoint::COMPILED_IN { 250 } else { 0 };
    let fp_intensity = arg_u64(&args, "fp", fp_default);

    let selected: Vec<&Scenario> = all
        .iter()
        .filter(|s| {
            which == "all+known"
                || (which == "all" && !KNOWN_DEFECT_SCENARIOS.contains(&s.name))
                || which.split(',').any(|w| w == s.name)
        })
        .collect();
    let mut runner = Runner {
        summary: Summary::default(),
        started: Instant::now(),
    };
    if selected.is_empty() {
        runner
            .summary
            .inconclusive
            .push(format!("no scenario matches {which:?}"));
        runner.finish_and_exit();
    }
    runner.summary.set("tool", tool_name());
    runner.summary.set(
        "failpoints",
        if failpoint::COMPILED_IN {
            "compiled-in"
        } else {
            "absent"
        },
    );
    'outer: for it in start_iter..start_iter + iters {
        for s in &selected {
            if budget > 0 && runner.started.elapsed().as_millis() as u64 > budget {
                runner.summary.count("budget_stops", 1);
                break 'outer;
            }
            let env = Env {
                seed,
                iter: it,
                sub: mix(mix(seed, it), vq_util::hash_str(s.name)),
                verbose,
                watchdog,
                fp_intensity,
            };
            runner.summary.set("scenarios", s.name);
            (s.run)(s.name, &env, &mut runner);
            // a broken tree fails again and again (and every lost wake-up costs its bound):
            // a few witnesses are enough
            if runner.summary.violations.len() >= 4 {
                runner.summary.count("stopped_after_violations", 1);
                break 'outer;
            }
        }
    }
    // evidence: number of distinct interleavings (event orders) this process witnessed; the list
    // of hashes itself is capped so that the summary line stays small
    let distinct = runner.summary.signatures.len() as u64;
    runner.summary.count("distinct_interleavings_in_process", distinct);
    if distinct > 2048 {
        let keep: std::collections::BTreeSet<u64> =
            runner.summary.signatures.iter().copied().take(2048).collect();
        runner.summary.signatures = keep;
        runner.summary.count("signatures_truncated", distinct - 2048);
    }
    if runner.summary.evaluations == 0 {
        runner
            .summary
            .inconclusive
            .push("no execution was run".into());
    }
    // keep the "violation" type linked for the replay path even if unused by a scenario
    let _ = |v: Violation| v;
    runner.finish_and_exit();
}

fn serde_json_from(text: &str) -> vq_util::Value {
    // vq-util re-exports serde_json's Value/json!, parsing goes through FromStr
    text.parse::<vq_util::Value>().expect("replay json")
}
