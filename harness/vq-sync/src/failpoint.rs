//! Harness side of hook H3. With `--cfg aws_s2n_quic_verif` the sync module calls
//! `verif_failpoint::hit(name)` at its publication points; we install a function that, driven
//! by a per-thread PRNG, does nothing / yields / spins / sleeps a few microseconds so that real
//! threads (TSan, ASan, native stress) are descheduled *between* critical sections.
//! Without the cfg (Miri runs: Miri's own scheduler preempts everywhere) this is all inert.

use std::{cell::RefCell, collections::BTreeMap};
use vq_util::Rng;

pub struct FpState {
    rng: Rng,
    pub hits: BTreeMap<&'static str, u64>,
    pub actions: u64,
    /// per-mille probability of perturbing at a failpoint
    pub intensity: u64,
}

thread_local! {
    static FP: RefCell<FpState> = RefCell::new(FpState { rng: Rng::new(0), hits: BTreeMap::new(), actions: 0, intensity: 0 });
}

pub const COMPILED_IN: bool = cfg!(aws_s2n_quic_verif);

#[allow(dead_code)]
fn hook(name: &'static str) {
    // `try_with`: a failpoint may be hit from a destructor during thread teardown
    let _ = FP.try_with(|s| {
        let Ok(mut s) = s.try_borrow_mut() else {
            return;
        };
        *s.hits.entry(name).or_insert(0) += 1;
        if s.intensity == 0 {
            return;
        }
        let r = s.rng.below(1000);
        if r >= s.intensity {
            return;
        }
        s.actions += 1;
        let kind = s.rng.below(100);
        let amount = s.rng.below(400);
        drop(s);
        if kind < 60 {
            std::thread::yield_now();
        } else if kind < 92 {
            for _ in 0..(20 + amount) {
                std::hint::spin_loop();
            }
        } else {
            std::thread::sleep(std::time::Duration::from_micros(5 + amount / 8));
        }
    });
}

pub fn install() {
    #[cfg(aws_s2n_quic_verif)]
    s2n_quic_core::sync::verif_failpoint::set(hook);
}

pub fn thread_init(seed: u64, intensity: u64) {
    FP.with(|s| {
        let mut s = s.borrow_mut();
        s.rng = Rng::new(seed);
        s.hits.clear();
        s.actions = 0;
        s.intensity = intensity;
    });
}

pub fn thread_take() -> (BTreeMap<&'static str, u64>, u64) {
    FP.with(|s| {
        let mut s = s.borrow_mut();
        s.intensity = 0;
        (std::mem::take(&mut s.hits), std::mem::take(&mut s.actions))
    })
}
