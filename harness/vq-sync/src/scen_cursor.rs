//! `sync::cursor` scenarios: a producer and a consumer `Cursor<u64>` over one shared region
//! (two `AtomicU32` indices + a power-of-two slot array), the way
//! `s2n-quic-platform/src/socket/ring.rs` lays its rings out. Two flavours: spinning, and
//! blocking through an `atomic_waker::pair()` exactly like the ring's `poll_acquire`.

use crate::{
    exec::{block_on_poll, spin_yield, Task},
    monitor::{check_sequence, Ev, ThreadLog, Verdict},
    Body, Env, Runner, Scenario,
};
use core::{cell::UnsafeCell, ptr::NonNull, sync::atomic::AtomicU32, task::Poll};
use s2n_quic_core::sync::{atomic_waker, cursor};

const MAX_SLOTS: usize = 4;
/// value of a slot nobody has written yet
const UNWRITTEN: u64 = u64::MAX;
/// value the consumer leaves behind in a slot it has consumed
const CONSUMED: u64 = u64::MAX - 1;

#[repr(C)]
struct Region {
    producer: AtomicU32,
    consumer: AtomicU32,
    data: [UnsafeCell<u64>; MAX_SLOTS],
}

struct SendCursor(cursor::Cursor<u64>);
/// Safety: the region outlives both threads (freed by the main thread after the join), each
/// cursor is used by exactly one thread — the same contract ring.rs relies on.
unsafe impl Send for SendCursor {}

unsafe fn builder(region: *mut Region, size: u32) -> cursor::Builder<u64> {
    cursor::Builder {
        producer: NonNull::new(core::ptr::addr_of_mut!((*region).producer)).unwrap(),
        consumer: NonNull::new(core::ptr::addr_of_mut!((*region).consumer)).unwrap(),
        data: NonNull::new(core::ptr::addr_of_mut!((*region).data) as *mut u64).unwrap(),
        size,
    }
}

#[derive(Clone, Copy, Debug)]
struct Cfg {
    size: u32,
    n: u64,
    batch: u32,
    watermark: u32,
    wakers: bool,
}

fn producer(
    cfg: Cfg,
    mut c: SendCursor,
    handle: Option<atomic_waker::Handle>,
    me: &Task,
    log: &mut ThreadLog,
) {
    let c = &mut c.0;
    let mut next = 0u64;
    while next < cfg.n {
        let pend0 = me.pendings.load(std::sync::atomic::Ordering::Relaxed);
        let free = match &handle {
            None => c.acquire_producer(cfg.watermark),
            Some(h) => block_on_poll(me, |cx| {
                let n = c.acquire_producer(cfg.watermark);
                if n > 0 {
                    return Poll::Ready(n);
                }
                h.register(cx.waker());
                let n = c.acquire_producer(cfg.watermark);
                if n > 0 {
                    return Poll::Ready(n);
                }
                if !h.is_open() {
                    return Poll::Ready(0);
                }
                Poll::Pending
            }),
        };
        if me.pendings.load(std::sync::atomic::Ordering::Relaxed) != pend0 {
            log.ev(Ev::Waited);
        }
        if free == 0 {
            if handle.is_some() {
                log.saw_closed = true;
                break;
            }
            log.add("spins", 1);
            spin_yield();
            continue;
        }
        if free > cfg.size {
            log.fact("over_capacity", free as u64);
        }
        let k = (free.min(cfg.batch) as u64).min(cfg.n - next) as usize;
        let (a, b) = unsafe { c.producer_data() };
        for (i, slot) in a.iter_mut().chain(b.iter_mut()).take(k).enumerate() {
            if *slot != UNWRITTEN && *slot != CONSUMED {
                // the producer was handed a slot the consumer has not consumed yet
                log.garbage.push(*slot);
            }
            *slot = next + i as u64;
        }
        c.release_producer(k as u32);
        log.ev(Ev::Push(next as u32, (next + k as u64) as u32));
        next += k as u64;
        me.publish(next);
        if let Some(h) = &handle {
            h.wake();
        }
    }
    log.pushed = next;
    log.ev(Ev::Close);
    drop(handle);
    me.set_closed();
}

fn consumer(
    cfg: Cfg,
    mut c: SendCursor,
    handle: Option<atomic_waker::Handle>,
    me: &Task,
    log: &mut ThreadLog,
) {
    let c = &mut c.0;
    let mut got = 0u64;
    loop {
        if handle.is_none() && got >= cfg.n {
            break;
        }
        let pend0 = me.pendings.load(std::sync::atomic::Ordering::Relaxed);
        let filled = match &handle {
            None => c.acquire_consumer(cfg.watermark),
            Some(h) => block_on_poll(me, |cx| {
                let n = c.acquire_consumer(cfg.watermark);
                if n > 0 {
                    return Poll::Ready(n);
                }
                h.register(cx.waker());
                let n = c.acquire_consumer(cfg.watermark);
                if n > 0 {
                    return Poll::Ready(n);
                }
                if !h.is_open() {
                    // everything released before the producer's handle was dropped is visible
                    return Poll::Ready(c.acquire_consumer(u32::MAX));
                }
                Poll::Pending
            }),
        };
        if me.pendings.load(std::sync::atomic::Ordering::Relaxed) != pend0 {
            log.ev(Ev::Waited);
        }
        if filled == 0 {
            if handle.is_some() {
                log.saw_closed = true;
                log.ev(Ev::SawClosed);
                break;
            }
            log.add("spins", 1);
            spin_yield();
            continue;
        }
        if filled > cfg.size {
            log.fact("over_capacity", filled as u64);
        }
        let k = filled.min(cfg.batch) as usize;
        let (a, b) = unsafe { c.consumer_data() };
        let first = got;
        for slot in a.iter_mut().chain(b.iter_mut()).take(k) {
            let val = *slot;
            if val == UNWRITTEN || val == CONSUMED {
                log.garbage.push(val);
            } else {
                log.received.push(val);
            }
            *slot = CONSUMED;
            got += 1;
        }
        c.release_consumer(k as u32);
        log.ev(Ev::Pop(first as u32, k as u32));
        me.publish(got);
        if let Some(h) = &handle {
            h.wake();
        }
    }
    log.ev(Ev::Close);
    drop(handle);
    me.set_closed();
}

fn run_cfg(name: &'static str, env: &Env, runner: &mut Runner, cfg: Cfg) {
    let region = Box::into_raw(Box::new(Region {
        producer: AtomicU32::new(0),
        consumer: AtomicU32::new(0),
        data: [const { UnsafeCell::new(UNWRITTEN) }; MAX_SLOTS],
    }));
    let (pc, cc) = unsafe {
        (
            SendCursor(builder(region, cfg.size).build_producer()),
            SendCursor(builder(region, cfg.size).build_consumer()),
        )
    };
    let (ph, ch) = if cfg.wakers {
        let (a, b) = atomic_waker::pair();
        (Some(a), Some(b))
    } else {
        (None, None)
    };
    let tasks = [Task::default(), Task::default()];
    let mut v = Verdict::new(name, env.seed, env.iter);
    if env.verbose {
        eprintln!("[vq-sync] {name} seed={} iter={} cfg={cfg:?}", env.seed, env.iter);
    }
    let t = &tasks;
    let bodies: Vec<Body<'_>> = vec![
        Box::new(move |log: &mut ThreadLog| producer(cfg, pc, ph, &t[0], log)),
        Box::new(move |log: &mut ThreadLog| consumer(cfg, cc, ch, &t[1], log)),
    ];
    let logs = runner.run_threads(name, env, &["producer", "consumer"], &tasks, bodies, &mut v);
    // Safety: both threads have been joined
    unsafe { drop(Box::from_raw(region)) };

    let (tx, rx) = (&logs[0], &logs[1]);
    if env.verbose {
        eprintln!("[vq-sync]   pushed={} received={:?}", tx.pushed, rx.received);
    }
    if let Some(g) = rx.garbage.first() {
        v.fail(
            "unwritten-slot-exposed",
            format!("consumer was handed a slot holding {g:#x} (never written / already consumed)"),
        );
    }
    if let Some(g) = tx.garbage.first() {
        v.fail(
            "unconsumed-slot-overwritten",
            format!("producer was handed a slot still holding live entry {g}"),
        );
    }
    check_sequence(&mut v, &rx.received, tx.pushed);
    if rx.garbage.is_empty() && (rx.received.len() as u64) < tx.pushed {
        v.fail(
            "lost-item-at-close",
            format!("consumer finished with {} of {} entries", rx.received.len(), tx.pushed),
        );
    }
    if tx.pushed < cfg.n {
        v.fail(
            "spurious-close",
            format!("producer stopped at {} of {}", tx.pushed, cfg.n),
        );
    }
    for l in [tx, rx] {
        if let Some(n) = l.facts.get("over_capacity") {
            v.fail(
                "over-capacity",
                format!("acquire returned {n} entries on a ring of {}", cfg.size),
            );
        }
    }
    v.feature("entries", tx.pushed);
    v.feature("spins", tx.facts.get("spins").copied().unwrap_or(0) + rx.facts.get("spins").copied().unwrap_or(0));
    runner.conclude(v, &logs, &tasks);
}

fn spin(name: &'static str, env: &Env, r: &mut Runner) {
    let mut g = env.rng();
    let size = *g.pick(&[2u32, 4]);
    run_cfg(
        name,
        env,
        r,
        Cfg {
            size,
            n: g.range(env.scale(6, 8), env.scale(10, 40)),
            batch: g.range(1, size as u64) as u32,
            watermark: g.range(1, size as u64) as u32,
            wakers: false,
        },
    )
}

fn wakers(name: &'static str, env: &Env, r: &mut Runner) {
    let mut g = env.rng();
    let size = *g.pick(&[2u32, 4]);
    run_cfg(
        name,
        env,
        r,
        Cfg {
            size,
            n: g.range(env.scale(5, 8), env.scale(8, 40)),
            batch: g.range(1, size as u64) as u32,
            watermark: 1,
            wakers: true,
        },
    )
}

pub fn scenarios() -> Vec<Scenario> {
    vec![
        Scenario { name: "cursor_spin", about: "producer/consumer Cursor<u64> over a shared region, spinning", run: spin },
        Scenario { name: "cursor_wakers", about: "same ring, blocking through atomic_waker::pair() like socket/ring.rs", run: wakers },
    ]
}
