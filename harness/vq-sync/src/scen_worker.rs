//! `sync::worker` scenarios: submit / acquire / finish counting and the "no more senders" wake.

use crate::{
    exec::{await_published, block_on, spin_limit, spin_until, spin_yield, Ack, Task},
    monitor::{Ev, ThreadLog, Verdict},
    Body, Env, Runner, Scenario,
};
use s2n_quic_core::sync::worker;

#[derive(Clone, Copy, Debug)]
struct Cfg {
    /// number of sender handles (1 = the original only; >1 = `.clone()`s on their own threads)
    senders: usize,
    /// submissions per sender
    rounds: u64,
    /// every submission waits until the receiver is parked
    gate_on_parked: bool,
    /// receiver finishes work in chunks of at most this many
    finish_chunk: usize,
    /// after every submit the sender waits (bounded) until the receiver has finished the work
    ack: bool,
}

fn sender_body(
    cfg: Cfg,
    idx: usize,
    send: worker::Sender,
    me: &Task,
    rx_task: &Task,
    seed: u64,
    log: &mut ThreadLog,
) {
    let mut g = vq_util::Rng::new(seed);
    let mut total = 0u64;
    for _ in 0..cfg.rounds {
        if cfg.gate_on_parked {
            let ok = spin_until(spin_limit(), || rx_task.is_parked() || rx_task.is_done());
            if !ok || rx_task.is_done() {
                log.missed_precondition = true;
            }
        } else {
            for _ in 0..g.below(3) {
                spin_yield();
            }
        }
        let count = g.range(1, 3);
        send.submit(count as usize);
        total += count;
        me.publish(total);
        log.ev(Ev::Push(idx as u32, count as u32));
        if cfg.ack {
            match await_published(rx_task, total) {
                Ack::Progressed => log.add("acks", 1),
                Ack::LostWakeup => {
                    log.fact("lost_wakeup", total);
                    break;
                }
                Ack::Slow => {
                    log.fact("ack_slow", total);
                    break;
                }
            }
        }
    }
    if cfg.gate_on_parked {
        let ok = spin_until(spin_limit(), || rx_task.is_parked() || rx_task.is_done());
        if !ok || rx_task.is_done() {
            log.missed_precondition = true;
        }
    }
    log.pushed = total;
    log.ev(Ev::Close);
    drop(send);
    me.set_closed();
}

fn receiver_body(cfg: Cfg, mut recv: worker::Receiver, me: &Task, log: &mut ThreadLog) {
    let mut total = 0u64;
    loop {
        let pend0 = me.pendings.load(std::sync::atomic::Ordering::Relaxed);
        let r = block_on(me, recv.acquire());
        if me.pendings.load(std::sync::atomic::Ordering::Relaxed) != pend0 {
            log.ev(Ev::Waited);
        }
        match r {
            Some(mut count) => {
                if count == 0 {
                    log.add("zero_acquire", 1);
                }
                log.ev(Ev::Pop(total as u32, count as u32));
                while count > 0 {
                    let k = count.min(cfg.finish_chunk);
                    recv.finish(k);
                    count -= k;
                    total += k as u64;
                }
                me.publish(total);
            }
            None => {
                log.saw_closed = true;
                log.ev(Ev::SawClosed);
                break;
            }
        }
    }
    log.fact("finished", total);
    log.ev(Ev::Close);
    drop(recv);
    me.set_closed();
}

fn run_cfg(name: &'static str, env: &Env, runner: &mut Runner, cfg: Cfg) {
    let (send, recv) = worker::channel();
    let n = cfg.senders + 1;
    let tasks: Vec<Task> = (0..n).map(|_| Task::default()).collect();
    let mut v = Verdict::new(name, env.seed, env.iter);
    if env.verbose {
        eprintln!("[vq-sync] {name} seed={} iter={} cfg={cfg:?}", env.seed, env.iter);
    }
    let mut handles = vec![];
    for _ in 1..cfg.senders {
        handles.push(send.clone());
    }
    handles.insert(0, send);
    let rx_idx = cfg.senders;
    let tasks_ref = &tasks;
    let mut bodies: Vec<Body<'_>> = Vec::new();
    let mut names: Vec<&'static str> = Vec::new();
    const SENDER_NAMES: [&str; 3] = ["tx0", "tx1", "tx2"];
    for (i, h) in handles.into_iter().enumerate() {
        let seed = vq_util::mix(env.sub, i as u64);
        names.push(SENDER_NAMES[i]);
        bodies.push(Box::new(move |log: &mut ThreadLog| {
            sender_body(cfg, i, h, &tasks_ref[i], &tasks_ref[rx_idx], seed, log)
        }));
    }
    names.push("rx");
    bodies.push(Box::new(move |log: &mut ThreadLog| {
        receiver_body(cfg, recv, &tasks_ref[rx_idx], log)
    }));
    let logs = runner.run_threads(name, env, &names, &tasks, bodies, &mut v);

    let submitted: u64 = logs[..cfg.senders].iter().map(|l| l.pushed).sum();
    let rx = &logs[rx_idx];
    let finished = rx.facts.get("finished").copied().unwrap_or(0);
    if env.verbose {
        eprintln!("[vq-sync]   submitted={submitted} finished={finished} rx events={:?}", rx.events);
    }
    // conservation: when the receiver is told "no more senders", everything submitted has been
    // handed out (all senders submit before they drop)
    if finished > submitted {
        v.fail(
            "worker-phantom-credits",
            format!("receiver finished {finished} jobs but only {submitted} were submitted"),
        );
    } else if finished < submitted {
        let kind = if cfg.senders > 1 {
            "worker-closed-early"
        } else {
            "worker-lost-credits"
        };
        v.fail(
            kind,
            format!(
                "receiver got None (no more senders) after {finished} jobs but {submitted} were submitted by {} sender handle(s) before they were dropped",
                cfg.senders
            ),
        );
    }
    for l in &logs[..cfg.senders] {
        if let Some(t) = l.facts.get("lost_wakeup") {
            v.fail(
                "lost-wakeup",
                format!("{t} jobs were submitted and the receiver stayed parked with no wake-up latched beyond the bound (finished so far: {})",
                    tasks[rx_idx].published.load(std::sync::atomic::Ordering::Relaxed)),
            );
        }
        if let Some(t) = l.facts.get("ack_slow") {
            runner.summary.inconclusive.push(format!(
                "{name} seed={} iter={}: receiver did not finish {t} submitted jobs within the bound but was runnable", env.seed, env.iter));
        }
    }
    if rx.facts.get("zero_acquire").is_some() {
        v.fail(
            "worker-empty-acquire",
            "acquire() returned Some(0)".into(),
        );
    }
    v.trivial = logs.iter().any(|l| l.missed_precondition);
    v.feature("submitted", submitted);
    v.feature("finished", finished);
    v.feature(
        "rx_parked_runs",
        (tasks[rx_idx].parks.load(std::sync::atomic::Ordering::Relaxed) > 0) as u64,
    );
    runner.conclude(v, &logs, &tasks);
}

fn single(name: &'static str, env: &Env, r: &mut Runner) {
    let mut g = env.rng();
    run_cfg(
        name,
        env,
        r,
        Cfg {
            senders: 1,
            rounds: g.range(2, env.scale(4, 12)),
            gate_on_parked: false,
            finish_chunk: g.range(1, 3) as usize,
            ack: false,
        },
    )
}

fn rx_parked(name: &'static str, env: &Env, r: &mut Runner) {
    let mut g = env.rng();
    run_cfg(
        name,
        env,
        r,
        Cfg {
            senders: 1,
            rounds: g.range(1, 3),
            gate_on_parked: true,
            finish_chunk: 8,
            ack: false,
        },
    )
}

fn no_work(name: &'static str, env: &Env, r: &mut Runner) {
    // the sender is dropped without ever submitting; half of the runs while the receiver is parked
    let g = env.rng().chance(1, 2);
    run_cfg(
        name,
        env,
        r,
        Cfg {
            senders: 1,
            rounds: 0,
            gate_on_parked: g,
            finish_chunk: 1,
            ack: false,
        },
    )
}

fn ack(name: &'static str, env: &Env, r: &mut Runner) {
    // every submission must be finished by the receiver before the sender goes on: neither a
    // later submit nor the final drop can rescue a lost wake-up
    let mut g = env.rng();
    run_cfg(
        name,
        env,
        r,
        Cfg {
            senders: 1,
            rounds: g.range(2, env.scale(4, 10)),
            gate_on_parked: false,
            finish_chunk: g.range(1, 3) as usize,
            ack: true,
        },
    )
}

fn cloned(name: &'static str, env: &Env, r: &mut Runner) {
    let mut g = env.rng();
    run_cfg(
        name,
        env,
        r,
        Cfg {
            senders: 2,
            rounds: g.range(2, env.scale(3, 8)),
            gate_on_parked: false,
            finish_chunk: 2,
            ack: false,
        },
    )
}

pub fn scenarios() -> Vec<Scenario> {
    vec![
        Scenario { name: "worker_single", about: "one sender submits a few batches and drops; receiver acquires/finishes until None", run: single },
        Scenario { name: "worker_rx_parked", about: "every submit and the final drop happen while the receiver is parked", run: rx_parked },
        Scenario { name: "worker_ack", about: "each submit must be finished by the receiver before the next one (strict no-lost-wake-up)", run: ack },
        Scenario { name: "worker_no_work", about: "sender dropped without submitting", run: no_work },
        Scenario { name: "worker_clone", about: "two sender handles (clone) on two threads", run: cloned },
    ]
}
