//! A tiny thread-parking executor and the per-task state the history monitor reads.
//!
//! Everything the *monitor* shares between scenario threads is a `Relaxed` atomic: relaxed
//! operations create no happens-before edges, so the harness never supplies synchronisation the
//! code under test forgot (which would hide a race from Miri / TSan). The only harness-made
//! edges are `unpark -> park` (inherent to any waker) and the result channel at thread exit.

use std::{
    future::Future,
    pin::pin,
    sync::{
        atomic::{AtomicBool, AtomicU64, AtomicU8, Ordering::*},
        Arc,
    },
    task::{Context, Poll, Wake, Waker},
    thread::{self, Thread},
};

pub const RUNNING: u8 = 0;
pub const PARKED: u8 = 1;
pub const DONE: u8 = 2;

/// Monitor-side view of one scenario thread. Written by its owner, read (relaxed) by the peer
/// (to steer a scenario: "wait until the peer is parked") and by the watchdog.
#[derive(Default)]
pub struct Task {
    pub state: AtomicU8,
    /// how many times the task really went to sleep (poll returned Pending and no wake was
    /// already latched)
    pub parks: AtomicU64,
    /// polls that returned Pending
    pub pendings: AtomicU64,
    /// monitor fact: number of items this side has *published* (producer: pushed and slice
    /// dropped; consumer: popped and slice dropped)
    pub published: AtomicU64,
    /// monitor fact: this side has dropped its endpoint (close published)
    pub closed: AtomicBool,
    /// the task's waker state (one waker per task, reused by every `block_on` of the thread)
    pub wake: Arc<WakeState>,
}

impl Task {
    pub fn is_parked(&self) -> bool {
        self.state.load(Relaxed) == PARKED
    }
    pub fn is_done(&self) -> bool {
        self.state.load(Relaxed) == DONE
    }
    /// parked and nobody has called its waker since: only a wake-up can make it run again
    pub fn is_asleep(&self) -> bool {
        self.is_parked() && !self.wake.notified.load(Relaxed)
    }
    pub fn publish(&self, n: u64) {
        self.published.store(n, Relaxed);
    }
    pub fn set_closed(&self) {
        self.closed.store(true, Relaxed);
    }
    pub fn state_name(&self) -> &'static str {
        match self.state.load(Relaxed) {
            RUNNING => "running",
            PARKED => "parked",
            _ => "done",
        }
    }
}

#[derive(Default)]
pub struct WakeState {
    thread: std::sync::OnceLock<Thread>,
    pub notified: AtomicBool,
    pub wakes: AtomicU64,
}

impl Wake for WakeState {
    fn wake(self: Arc<Self>) {
        self.wake_by_ref()
    }
    fn wake_by_ref(self: &Arc<Self>) {
        self.wakes.fetch_add(1, Relaxed);
        self.notified.store(true, Release);
        if let Some(t) = self.thread.get() {
            t.unpark();
        }
    }
}

/// Drives `fut` on the current thread. Parks (without timeout: a task that is never woken stays
/// parked, which Miri reports as a deadlock and the native watchdog classifies) until woken.
pub fn block_on<F: Future>(task: &Task, fut: F) -> F::Output {
    let tw = task.wake.clone();
    tw.thread.get_or_init(thread::current);
    let waker = Waker::from(tw.clone());
    let mut cx = Context::from_waker(&waker);
    let mut fut = pin!(fut);
    loop {
        if let Poll::Ready(v) = fut.as_mut().poll(&mut cx) {
            return v;
        }
        task.pendings.fetch_add(1, Relaxed);
        let mut slept = false;
        while !tw.notified.swap(false, Acquire) {
            if !slept {
                slept = true;
                task.parks.fetch_add(1, Relaxed);
            }
            task.state.store(PARKED, Relaxed);
            thread::park();
            task.state.store(RUNNING, Relaxed);
        }
    }
}

/// Outcome of waiting for the peer to act on something this side has published.
#[derive(Clone, Copy, Debug, PartialEq, Eq)]
pub enum Ack {
    /// the peer's monitor counter reached the target (or the peer finished)
    Progressed,
    /// the bound expired and the peer is asleep in its waker with no wake latched: it was not
    /// woken although this side published => lost wake-up (bounded-progress restatement)
    LostWakeup,
    /// the bound expired but the peer is runnable: merely slow => inconclusive
    Slow,
}

/// Bounded wait until `peer.published >= target`. The bound is generous: 20 000 scheduler
/// yields under Miri (a runnable peer gets a full quantum per yield), 3 s of wall clock on
/// real threads (a woken thread needs microseconds).
pub fn await_published(peer: &Task, target: u64) -> Ack {
    let start = std::time::Instant::now();
    let mut i = 0u64;
    loop {
        if peer.published.load(Relaxed) >= target || peer.is_done() {
            return Ack::Progressed;
        }
        i += 1;
        let expired = if cfg!(miri) {
            i > 20_000
        } else {
            i > 64 && start.elapsed() > std::time::Duration::from_secs(3)
        };
        if expired {
            if peer.is_asleep() {
                // confirm: still asleep a little later, counter still short
                for _ in 0..64 {
                    spin_yield();
                }
                if peer.is_asleep() && peer.published.load(Relaxed) < target {
                    return Ack::LostWakeup;
                }
            }
            let hopeless = if cfg!(miri) {
                i > 200_000
            } else {
                start.elapsed() > std::time::Duration::from_secs(15)
            };
            if hopeless {
                return Ack::Slow;
            }
        }
        if !cfg!(miri) && i > 32 {
            thread::sleep(std::time::Duration::from_micros(if i > 2000 { 200 } else { 10 }));
        } else {
            spin_yield();
        }
    }
}

/// Polls a `poll_*` style function through the same parking loop.
pub fn block_on_poll<T>(task: &Task, mut f: impl FnMut(&mut Context) -> Poll<T>) -> T {
    block_on(task, std::future::poll_fn(move |cx| f(cx)))
}

/// One step of a harness spin-wait (never used inside the code under test).
#[inline]
pub fn spin_yield() {
    std::hint::spin_loop();
    thread::yield_now();
}

/// Spin until `cond` holds; gives up after `limit` rounds (returns false) so that a scenario
/// precondition that cannot be reached never hangs the harness.
pub fn spin_until(limit: u64, mut cond: impl FnMut() -> bool) -> bool {
    let mut i = 0;
    while !cond() {
        i += 1;
        if i > limit {
            return false;
        }
        if !cfg!(miri) && i > 32 {
            // back off so that an oversubscribed machine gives the peer the CPU
            thread::sleep(std::time::Duration::from_micros(if i > 2000 { 200 } else { 10 }));
            i += 200;
        } else {
            spin_yield();
        }
    }
    true
}

/// Bound for scenario-steering spin waits.
pub fn spin_limit() -> u64 {
    if cfg!(miri) {
        20_000
    } else {
        50_000_000
    }
}

/// A relaxed two-party rendez-vous: both sides arrive, then leave together (no HB edge).
#[derive(Default)]
pub struct Rendezvous(AtomicU64);

impl Rendezvous {
    pub fn meet(&self, parties: u64) {
        self.0.fetch_add(1, Relaxed);
        // tight spin (no sleeping back-off): the point is to leave at the same instant
        let mut i = 0u64;
        while self.0.load(Relaxed) < parties {
            i += 1;
            if i > spin_limit() {
                break;
            }
            if i % 128 == 0 {
                thread::yield_now();
            } else {
                std::hint::spin_loop();
            }
        }
    }
}
