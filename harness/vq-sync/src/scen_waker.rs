//! `sync::atomic_waker::pair()` scenarios: register / wake / close.

use crate::{
    exec::{await_published, block_on_poll, spin_limit, spin_until, spin_yield, Ack, Rendezvous, Task},
    monitor::{Ev, ThreadLog, Verdict},
    Body, Env, Runner, Scenario,
};
use core::task::Poll;
use s2n_quic_core::sync::atomic_waker::{self, Handle};
use std::sync::atomic::{AtomicU64, Ordering};

#[derive(Clone, Copy, Debug)]
struct Cfg {
    rounds: u64,
    /// the notifier acts only once the waiter is parked
    gate_on_parked: bool,
    /// which handle of the pair waits (both pointer orientations must work)
    swap: bool,
    /// waiter uses poll_close instead of the flag protocol; notifier just drops
    close_only: bool,
    /// both sides register and drop together
    both_drop: bool,
    /// the notifier waits (bounded) after each wake() until the waiter has seen the round
    ack: bool,
}

fn waiter(cfg: Cfg, mut h: Handle, flag: &AtomicU64, meet: &Rendezvous, me: &Task, log: &mut ThreadLog) {
    let mut seen = 0u64;
    if cfg.both_drop {
        // leave a registered waker behind, then drop together with the peer
        let _ = block_on_poll(me, |cx| {
            h.register(cx.waker());
            Poll::Ready(())
        });
        meet.meet(2);
        log.ev(Ev::Close);
        drop(h);
        me.set_closed();
        return;
    }
    if !cfg.close_only {
        for round in 1..=cfg.rounds {
            let pend0 = me.pendings.load(Ordering::Relaxed);
            let got = block_on_poll(me, |cx| {
                // the canonical consumer side of an AtomicWaker: check, register, re-check
                let v = flag.load(Ordering::Acquire);
                if v >= round {
                    return Poll::Ready(v);
                }
                h.register(cx.waker());
                let v = flag.load(Ordering::Acquire);
                if v >= round {
                    return Poll::Ready(v);
                }
                if !h.is_open() {
                    return Poll::Ready(flag.load(Ordering::Acquire));
                }
                Poll::Pending
            });
            if me.pendings.load(Ordering::Relaxed) != pend0 {
                log.ev(Ev::Waited);
            }
            if got < round {
                log.fact("closed_before_round", round);
                break;
            }
            seen = got.max(seen);
            me.publish(seen);
            log.ev(Ev::Pop(round as u32, got as u32));
        }
    }
    // finally wait for the peer handle to go away
    let pend0 = me.pendings.load(Ordering::Relaxed);
    block_on_poll(me, |cx| h.poll_close(cx));
    if me.pendings.load(Ordering::Relaxed) != pend0 {
        log.ev(Ev::Waited);
    }
    log.saw_closed = true;
    log.ev(Ev::SawClosed);
    log.fact("open_after_close", h.is_open() as u64);
    log.fact("seen", seen);
    log.ev(Ev::Close);
    drop(h);
    me.set_closed();
}

fn notifier(cfg: Cfg, h: Handle, flag: &AtomicU64, meet: &Rendezvous, me: &Task, peer: &Task, log: &mut ThreadLog) {
    let gate = |log: &mut ThreadLog| {
        if cfg.gate_on_parked {
            let ok = spin_until(spin_limit(), || peer.is_parked() || peer.is_done());
            if !ok || peer.is_done() {
                log.missed_precondition = true;
            }
        } else {
            spin_yield();
        }
    };
    if cfg.both_drop {
        meet.meet(2);
        log.ev(Ev::Close);
        drop(h);
        me.set_closed();
        return;
    }
    if !cfg.close_only {
        for round in 1..=cfg.rounds {
            gate(log);
            flag.store(round, Ordering::Release);
            h.wake();
            me.publish(round);
            log.ev(Ev::Push(round as u32, round as u32 + 1));
            if cfg.ack {
                match await_published(peer, round) {
                    Ack::Progressed => log.add("acks", 1),
                    Ack::LostWakeup => {
                        log.fact("lost_wakeup", round);
                        break;
                    }
                    Ack::Slow => {
                        log.fact("ack_slow", round);
                        break;
                    }
                }
            }
        }
    }
    gate(log);
    log.fact("open_before_drop", h.is_open() as u64);
    log.pushed = cfg.rounds;
    log.ev(Ev::Close);
    drop(h);
    me.set_closed();
}

fn run_cfg(name: &'static str, env: &Env, runner: &mut Runner, cfg: Cfg) {
    let (a, b) = atomic_waker::pair();
    let (w, n) = if cfg.swap { (b, a) } else { (a, b) };
    let flag = AtomicU64::new(0);
    let meet = Rendezvous::default();
    let tasks = [Task::default(), Task::default()];
    let mut v = Verdict::new(name, env.seed, env.iter);
    if env.verbose {
        eprintln!("[vq-sync] {name} seed={} iter={} cfg={cfg:?}", env.seed, env.iter);
    }
    let (t, f, m) = (&tasks, &flag, &meet);
    let bodies: Vec<Body<'_>> = vec![
        Box::new(move |log: &mut ThreadLog| waiter(cfg, w, f, m, &t[0], log)),
        Box::new(move |log: &mut ThreadLog| notifier(cfg, n, f, m, &t[1], &t[0], log)),
    ];
    let logs = runner.run_threads(name, env, &["waiter", "notifier"], &tasks, bodies, &mut v);
    let (wl, nl) = (&logs[0], &logs[1]);
    if !cfg.both_drop {
        if let Some(r) = wl.facts.get("closed_before_round") {
            v.fail(
                "spurious-close",
                format!("waiter saw the pair closed in round {r} before the notifier dropped its handle"),
            );
        }
        if wl.facts.get("open_after_close") == Some(&1) {
            v.fail(
                "open-after-close",
                "poll_close completed but is_open() is still true".into(),
            );
        }
        if nl.facts.get("open_before_drop") == Some(&0) {
            v.fail(
                "closed-while-peer-alive",
                "notifier saw is_open() == false while the waiter still holds its handle".into(),
            );
        }
        if let Some(t) = nl.facts.get("lost_wakeup") {
            v.fail(
                "lost-wakeup",
                format!("round {t} was published and wake() called, the waiter stayed parked with no wake-up latched beyond the bound"),
            );
        }
        if let Some(t) = nl.facts.get("ack_slow") {
            runner.summary.inconclusive.push(format!(
                "{name} seed={} iter={}: waiter did not see round {t} within the bound but was runnable", env.seed, env.iter));
        }
        let bailed = nl.facts.contains_key("lost_wakeup") || nl.facts.contains_key("ack_slow");
        if !cfg.close_only && !bailed && wl.facts.get("seen").copied().unwrap_or(0) != cfg.rounds {
            v.fail(
                "lost-notification",
                format!("waiter finished having seen round {:?} of {}", wl.facts.get("seen"), cfg.rounds),
            );
        }
    }
    v.trivial = logs.iter().any(|l| l.missed_precondition);
    v.feature(
        "waiter_parked_runs",
        (tasks[0].parks.load(Ordering::Relaxed) > 0) as u64,
    );
    runner.conclude(v, &logs, &tasks);
}

fn wake(name: &'static str, env: &Env, r: &mut Runner) {
    let mut g = env.rng();
    run_cfg(
        name,
        env,
        r,
        Cfg {
            rounds: g.range(2, env.scale(3, 8)),
            gate_on_parked: g.chance(1, 2),
            swap: g.chance(1, 2),
            close_only: false,
            both_drop: false,
            ack: false,
        },
    )
}

fn ack(name: &'static str, env: &Env, r: &mut Runner) {
    let mut g = env.rng();
    run_cfg(
        name,
        env,
        r,
        Cfg {
            rounds: g.range(2, env.scale(4, 8)),
            gate_on_parked: false,
            swap: g.chance(1, 2),
            close_only: false,
            both_drop: false,
            ack: true,
        },
    )
}

fn close(name: &'static str, env: &Env, r: &mut Runner) {
    let mut g = env.rng();
    run_cfg(
        name,
        env,
        r,
        Cfg {
            rounds: 0,
            gate_on_parked: g.chance(1, 2),
            swap: g.chance(1, 2),
            close_only: true,
            both_drop: false,
            ack: false,
        },
    )
}

fn both_drop(name: &'static str, env: &Env, r: &mut Runner) {
    let mut g = env.rng();
    run_cfg(
        name,
        env,
        r,
        Cfg {
            rounds: 0,
            gate_on_parked: false,
            swap: g.chance(1, 2),
            close_only: false,
            both_drop: true,
            ack: false,
        },
    )
}

pub fn scenarios() -> Vec<Scenario> {
    vec![
        Scenario { name: "waker_wake", about: "flag + wake() rounds against check/register/re-check, then poll_close", run: wake },
        Scenario { name: "waker_ack", about: "each flag+wake() round must be seen by the waiter before the next one (strict no-lost-wake-up)", run: ack },
        Scenario { name: "waker_close", about: "poll_close() against the peer handle being dropped", run: close },
        Scenario { name: "waker_both_drop", about: "both handles dropped together with a waker registered", run: both_drop },
    ]
}
