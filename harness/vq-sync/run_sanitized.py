#!/usr/bin/env python3
"""run_sanitized.py - run the vq-sync scenarios under Miri / TSan / ASan / natively.

One (scenario, seed) per process (a sanitizer report ends the process), 16 processes in
parallel; every process is classified as

  clean     exit 0, a SUMMARY line, no tool report
  report    a sanitizer / Miri report  -> violation with a stable signature
            (tool:kind:first in-repo frame pair), or monitor violations in the SUMMARY line
  timeout   killed after --timeout seconds            -> inconclusive
  inconclusive  the binary itself said so (watchdog fired while a thread was still running)
  error     anything else (tool / harness failure)    -> inconclusive

and one merged `SUMMARY {json}` line (property C17) is printed on stdout. Everything else goes
to stderr. Python 3 stdlib only.

  run_sanitized.py --tool miri   --seeds 0..64  --scenarios all
  run_sanitized.py --tool tsan   --seeds 0..50  --iters 2000
  run_sanitized.py --tool asan   --seeds 0..50  --iters 2000
  run_sanitized.py --tool native --seeds 0..16  --iters 5000
  run_sanitized.py --tool miri --seeds 0..2000 --many-seeds     (thorough sweeps; coarser
                                                                classification, see README)
"""
import argparse
import concurrent.futures
import json
import os
import re
import subprocess
import sys
import time

HERE = os.path.dirname(os.path.abspath(__file__))
WORKSPACE = os.path.dirname(HERE)
TARGET = "x86_64-unknown-linux-gnu"
CFG = "--cfg aws_s2n_quic_verif"
DEFAULT_DIRS = {
    "miri": "/verif/target-miri",
    "tsan": "/verif/target-tsan",
    "asan": "/verif/target-asan",
    "native": "/verif/target",
}
REPO_MARKERS = ("/repo/", "s2n-quic-core/src/", "quic/s2n-quic-core/")


def log(*a):
    print("[run_sanitized]", *a, file=sys.stderr, flush=True)


# --------------------------------------------------------------------------- build


def tool_env(tool, target_dir, miri_hooks=False, miri_seed=None, many=None, extra_miriflags=""):
    env = dict(os.environ)
    env["CARGO_TARGET_DIR"] = target_dir
    env.pop("CARGO_ENCODED_RUSTFLAGS", None)
    if tool == "miri":
        # Miri preempts everywhere by itself: analyse the production code (hooks compiled out)
        # unless --miri-hooks asks for the hooked build
        env["RUSTFLAGS"] = CFG if miri_hooks else ""
        flags = ["-Zmiri-disable-isolation"]
        if many is not None:
            flags += ["-Zmiri-many-seeds=%d..%d" % many, "-Zmiri-many-seeds-keep-going"]
        elif miri_seed is not None:
            flags.append("-Zmiri-seed=%d" % miri_seed)
        if extra_miriflags:
            flags += extra_miriflags.split()
        env["MIRIFLAGS"] = " ".join(flags)
    elif tool == "tsan":
        env["RUSTFLAGS"] = "-Zsanitizer=thread " + CFG
        env["TSAN_OPTIONS"] = "halt_on_error=1 exitcode=66 history_size=4 " + env.get("TSAN_OPTIONS", "")
    elif tool == "asan":
        env["RUSTFLAGS"] = "-Zsanitizer=address -Cforce-frame-pointers=yes " + CFG
        env["ASAN_OPTIONS"] = "exitcode=67 detect_leaks=1 " + env.get("ASAN_OPTIONS", "")
        env["LSAN_OPTIONS"] = "exitcode=68 " + env.get("LSAN_OPTIONS", "")
    else:
        env["RUSTFLAGS"] = CFG
    return env


MARKER_SEED = 987654321


def parse_miri_command(stderr):
    """-> {"cwd", "env", "argv"} of the `miri` driver invocation cargo-miri printed, argv up to
    (excluding) the -Zmiri-* flags and the `--` separator; None if it cannot be recovered."""
    import shlex
    lines = [l for l in stderr.splitlines() if l.startswith("[cargo-miri runner] running command: ")]
    if not lines:
        return None
    try:
        tok = shlex.split(lines[-1].split("running command: ", 1)[1])
        if tok[0] != "cd" or tok[2] != "&&" or tok[3] != "env":
            return None
        cwd, i, unset, setenv = tok[1], 4, [], {}
        while i < len(tok):
            t = tok[i]
            if t == "-u":
                unset.append(tok[i + 1])
                i += 2
            elif re.match(r"^[A-Za-z_][A-Za-z0-9_]*=", t):
                k, v = t.split("=", 1)
                setenv[k] = v
                i += 1
            else:
                break
        prog, args = tok[i], tok[i + 1:]
        if not prog.endswith("miri") or "--" not in args or ("-Zmiri-seed=%d" % MARKER_SEED) not in args:
            return None
        j = len(args) - 1 - args[::-1].index("--")
        base = [a for a in args[:j] if not a.startswith("-Zmiri-")]
        for k in ("MIRIFLAGS", "MIRI_VERBOSE"):
            setenv.pop(k, None)
        return {"cwd": cwd, "unset": unset, "env": setenv, "argv": [prog] + base}
    except Exception:
        return None


def miri_cmd(args):
    return ["cargo", "+nightly", "miri", "run", "-q", "-p", "vq-sync", "--bin", "vq-sync", "--"] + args


def build(tool, target_dir, miri_hooks):
    """Builds once; returns (argv prefix for a run, scenario table)."""
    t0 = time.time()
    env = tool_env(tool, target_dir, miri_hooks)
    if tool == "miri":
        # Build through cargo once. MIRI_VERBOSE makes cargo-miri print the final `miri ...`
        # command line; every (scenario, seed) process then runs that command directly: going
        # through `cargo miri run` each time costs seconds and serialises on the build-dir lock
        # (measured under load: 49 s via cargo vs 4.5 s direct). The marker seed is replaced.
        env["MIRIFLAGS"] = "-Zmiri-disable-isolation -Zmiri-seed=%d" % MARKER_SEED
        env["MIRI_VERBOSE"] = "2"
        r = subprocess.run(miri_cmd(["--list"]), cwd=WORKSPACE, env=env, capture_output=True, text=True)
        if r.returncode != 0:
            sys.stderr.write(r.stderr[-4000:])
            raise SystemExit("miri build failed")
        listing = r.stdout
        prefix = parse_miri_command(r.stderr)
        if prefix is None:
            log("could not recover the direct miri command line; falling back to `cargo miri run` per process")
    else:
        if tool == "tsan":
            cmd = ["cargo", "+nightly", "build", "-Zbuild-std", "--release", "--target", TARGET, "-p", "vq-sync"]
            binary = os.path.join(target_dir, TARGET, "release", "vq-sync")
        elif tool == "asan":
            cmd = ["cargo", "+nightly", "build", "--release", "--target", TARGET, "-p", "vq-sync"]
            binary = os.path.join(target_dir, TARGET, "release", "vq-sync")
        else:
            # debug profile: the crate's `assume!`/debug_assert! invariants are live
            cmd = ["cargo", "build", "-p", "vq-sync"]
            binary = os.path.join(target_dir, "debug", "vq-sync")
        r = subprocess.run(cmd, cwd=WORKSPACE, env=env, capture_output=True, text=True)
        if r.returncode != 0:
            sys.stderr.write(r.stderr[-4000:])
            raise SystemExit("%s build failed" % tool)
        listing = subprocess.run([binary, "--list"], env=env, capture_output=True, text=True).stdout
        prefix = [binary]
    table = []
    for line in listing.splitlines():
        parts = line.split("\t")
        if len(parts) >= 2:
            table.append((parts[0], parts[1] == "known-defect"))
    log("%s build: %.1f s, %d scenarios" % (tool, time.time() - t0, len(table)))
    return prefix, table, time.time() - t0


# --------------------------------------------------------------------------- classification

FRAME_FN = re.compile(r"^\s*(\d+): (.+)$")
FRAME_AT = re.compile(r"^\s*at (\S+?):(\d+):\d+")


def short_fn(name):
    """`s2n_quic_core::sync::spsc::state::State::<Item<'_>>::drop_contents` -> `drop_contents`;
    `<Receiver<T> as Drop>::drop` -> `Receiver::drop`."""
    name = name.strip()
    m = re.match(r"^<(.+?) as (.+?)>::(\w+)", name)
    if m:
        ty = re.sub(r"<.*", "", m.group(1)).split("::")[-1]
        return "%s::%s" % (ty, m.group(3))
    name = re.sub(r"::<[^:]*(?:<.*?>)?[^:]*>", "", name)  # turbofish generics
    depth = 0
    out = []
    for ch in name:  # drop remaining <...>
        if ch == "<":
            depth += 1
        elif ch == ">":
            depth = max(0, depth - 1)
        elif depth == 0:
            out.append(ch)
    name = "".join(out)
    name = re.sub(r"::\{closure[^}]*\}", "{closure}", name)
    name = re.sub(r"::h[0-9a-f]{16}$", "", name)
    return name.split("::")[-1] if "::" in name else name


def in_repo(path):
    return any(m in path for m in REPO_MARKERS) and "/vq-" not in path


def rel_repo(path):
    for m in ("s2n-quic-core/src/",):
        if m in path:
            p = path.split(m, 1)[1]
            return p[len("sync/"):] if p.startswith("sync/") else p
    return path.split("/repo/", 1)[-1]


def harness_stmt(path, line):
    """Source text of a harness line Miri points at for the *earlier* access."""
    for base in (WORKSPACE, "/"):
        p = path if os.path.isabs(path) else os.path.join(base, path)
        try:
            with open(p) as f:
                text = f.read().splitlines()[int(line) - 1]
            text = re.sub(r"\s+", "", text).rstrip(";")
            return text[:48]
        except Exception:
            continue
    return "?"


def role(thread):
    return thread.split("/")[-1] if thread else "?"


def classify_miri(stderr, scenario):
    """Returns None or (kind, signature, headline)."""
    m = re.search(r"^error: (.*)$", stderr, re.M)
    errs = [l for l in re.findall(r"^error: (.*)$", stderr, re.M) if not l.startswith("aborting due to")]
    if not errs:
        return None
    head = errs[0]
    if "deadlock" in head:
        # every thread blocked: a parked task nobody will ever wake (bounded progress)
        return ("deadlock", "miri:deadlock:%s" % scenario, head)
    if "memory leaked" in head or "leaked" in head:
        kind = "leak"
    elif "Data race detected" in head:
        kind = "data-race"
    elif "has been freed" in head or "dangling" in head or "use-after-free" in head.lower():
        kind = "use-after-free"
    elif "uninitialized" in head:
        kind = "uninit-read"
    elif "borrow stack" in head or "retag" in head or "tag does not exist" in head or "protected" in head:
        kind = "invalid-retag"
    elif "Undefined Behavior" in head:
        kind = "ub"
    elif "unsupported operation" in head:
        return ("unsupported", None, head)
    else:
        kind = "other"
    # in-repo frames of the current (2) access, innermost first
    frames = []
    lines = stderr.splitlines()
    for i, l in enumerate(lines):
        fm = FRAME_FN.match(l)
        if fm and i + 1 < len(lines):
            am = FRAME_AT.match(lines[i + 1])
            if am and in_repo(am.group(1)):
                frames.append((short_fn(fm.group(2)), rel_repo(am.group(1))))
    # when the erroring frame itself is in core (NonNull::as_mut …) the first in-repo frame is
    # the s2n function that called it
    here = "?"
    if frames:
        inner = frames[0]
        chain = inner[0]
        if len(frames) > 1 and frames[1][1] == inner[1]:
            chain = "%s->%s" % (frames[1][0], inner[0])
        here = "%s:%s" % (inner[1], chain)
    else:
        sm = re.search(r"^\s*--> (\S+?):(\d+):\d+", stderr, re.M)
        if sm:
            here = "%s:%s" % ("harness" if not in_repo(sm.group(1)) else rel_repo(sm.group(1)), harness_stmt(sm.group(1), sm.group(2)) if not in_repo(sm.group(1)) else sm.group(2))
    sig = "miri:%s:%s" % (kind, here)
    if kind == "data-race":
        tm = re.search(r"\(1\) (.+?) on thread `(.+?)` and \(2\) (.+?) on thread `(.+?)`", head)
        em = re.search(r"help: and \(1\) occurred earlier here\s*\n\s*--> (\S+?):(\d+):\d+", stderr)
        other = "?"
        if em:
            if in_repo(em.group(1)):
                other = "%s:%s" % (rel_repo(em.group(1)), em.group(2))
            else:
                other = harness_stmt(em.group(1), em.group(2))
        if tm:
            other = "%s:%s" % (role(tm.group(2)), other)
        sig += "<->" + other
    if kind == "leak":
        sig = "miri:leak:%s" % here
    return (kind, sig, head)


def parse_san_frame(l):
    """`#4 [0xaddr in] FUNC PATH[:line[:col]] (module+0x..) (BuildId: ..)` -> (fn, path, line) or None"""
    m = re.match(r"^\s*#\d+ (?:0x[0-9a-f]+ in )?(.*)$", l)
    if not m:
        return None
    rest = m.group(1).rstrip()
    while rest.endswith(")"):  # trailing (module+0x..) / (BuildId: ..) groups
        i = rest.rfind(" (")
        if i < 0:
            break
        rest = rest[:i].rstrip()
    fn, path, line = rest, "", "0"
    if " " in rest:
        head, last = rest.rsplit(" ", 1)
        if "/" in last or re.search(r"\.\w+(:\d+)*$", last):
            fn = head
            pm = re.match(r"^(.*?)(?::(\d+))?(?::\d+)?$", last)
            path, line = pm.group(1), pm.group(2) or "0"
    return (fn, path, line)


def san_stacks(stderr):
    """Splits a TSan/ASan report into stacks: list of (title, [(fn, file, line)])."""
    stacks = []
    cur = None
    for l in stderr.splitlines():
        f = parse_san_frame(l)
        if f is not None:
            if cur is not None:
                cur[1].append(f)
            continue
        s = l.strip()
        if s.endswith(":") and not s.startswith("#"):
            cur = (s.rstrip(":"), [])
            stacks.append(cur)
        elif re.match(r"^(READ|WRITE) of size", s):
            cur = (s, [])
            stacks.append(cur)
    return stacks


def repo_frame_name(fn, path):
    if in_repo(path):
        return "%s:%s" % (rel_repo(path), short_fn(fn))
    m = re.search(r"s2n_quic_core::((?:\w+::)+)", fn)
    if m:
        mods = [x for x in m.group(1).split("::") if x and x[0].islower()]
        if mods and mods[0] == "sync":
            mods = mods[1:]
        return "%s.rs:%s" % ("/".join(mods), short_fn(fn))
    return None


def first_repo_frame(frames):
    for fn, path, _line in frames:
        n = repo_frame_name(fn, path)
        if n:
            return n
    return None


def classify_san(tool, stderr, scenario):
    m = re.search(r"(?:WARNING|ERROR): (ThreadSanitizer|AddressSanitizer|LeakSanitizer): ([^\n(]+)", stderr)
    if not m:
        return None
    kind = m.group(2).strip().split(" on address")[0].strip().replace(" ", "-")
    if kind.startswith("detected-memory-leaks"):
        kind = "leak"
    # the access stack and the conflicting (previous access / freed by) stack; not the
    # allocation / thread-creation stacks
    skip = ("allocated by", "created by", "Location is", "Mutex ")
    stacks = [s for s in san_stacks(stderr) if s[1] and not any(k in s[0] for k in skip)]
    pair = []
    for title, frames in stacks[:2]:
        f = first_repo_frame(frames)
        if f:
            pair.append(f)
    if not pair:
        # the racing accesses are in harness code operating on memory the API handed out
        # (cursor slices): name the harness functions
        for title, frames in stacks[:2]:
            for fn, path, _l in frames:
                if "vq-sync/src" in path:
                    pair.append("harness/%s:%s" % (os.path.basename(path), short_fn(fn)))
                    break
        pair = pair or [scenario]
    sig = "%s:%s:%s" % (tool, kind, "<->".join(pair))
    return (kind, sig, m.group(0))


def run_one(job):
    tool, prefix, target_dir, scenario, seed, opts = job
    args = ["--scenario", scenario, "--seed", str(seed), "--iters", str(opts["iters"]), "--tool", tool,
            "--watchdog-ms", str(opts["watchdog_ms"])]
    if opts.get("fp") is not None:
        args += ["--fp", str(opts["fp"])]
    env = tool_env(tool, target_dir, opts["miri_hooks"], miri_seed=seed, extra_miriflags=opts["miriflags"])
    cwd = WORKSPACE
    if tool == "miri" and prefix:
        for k in prefix["unset"]:
            env.pop(k, None)
        env.update(prefix["env"])
        cwd = prefix["cwd"]
        cmd = prefix["argv"] + env["MIRIFLAGS"].split() + ["--"] + args
    elif tool == "miri":
        cmd = miri_cmd(args)
    else:
        cmd = prefix + args
    t0 = time.time()
    try:
        r = subprocess.run(cmd, cwd=cwd, env=env, capture_output=True, text=True, timeout=opts["timeout"])
        out, err, code, timed_out = r.stdout, r.stderr, r.returncode, False
    except subprocess.TimeoutExpired as e:
        out = e.stdout.decode(errors="replace") if isinstance(e.stdout, bytes) else (e.stdout or "")
        err = e.stderr.decode(errors="replace") if isinstance(e.stderr, bytes) else (e.stderr or "")
        code, timed_out = -1, True
    dt = time.time() - t0
    summary = None
    for l in out.splitlines():
        if l.startswith("SUMMARY "):
            try:
                summary = json.loads(l[8:])
            except Exception:
                pass
    res = {"scenario": scenario, "seed": seed, "secs": dt, "summary": summary, "status": "clean",
           "report": None, "note": None}
    if timed_out:
        res["status"] = "timeout"
        res["note"] = "%s %s seed %d: no result after %d s" % (tool, scenario, seed, opts["timeout"])
        return res
    rep = classify_miri(err, scenario) if tool == "miri" else classify_san(tool, err, scenario)
    if rep and rep[1] is None:
        res["status"] = "error"
        res["note"] = "%s %s seed %d: %s" % (tool, scenario, seed, rep[2][:200])
    elif rep:
        res["status"] = "report"
        res["report"] = {"kind": rep[0], "signature": rep[1], "headline": rep[2]}
        if opts["keep"]:
            os.makedirs(opts["keep"], exist_ok=True)
            with open(os.path.join(opts["keep"], "%s.%s.seed%d.stderr" % (tool, scenario, seed)), "w") as f:
                f.write(err)
    elif code != 0 or summary is None:
        if code < 0 or code in (132, 134, 135, 136, 139):
            # the process died on a signal: a crash of the code under test on real threads
            res["status"] = "report"
            res["report"] = {"kind": "crash", "signature": "%s:crash:signal%d:%s" % (tool, abs(code) if code < 0 else code - 128, scenario),
                             "headline": "process died with status %d; stderr tail: %s" % (code, err[-300:])}
        else:
            res["status"] = "error"
            res["note"] = "%s %s seed %d: exit %d without a recognisable report; stderr tail: %s" % (
                tool, scenario, seed, code, err[-300:].replace("\n", " | "))
    if summary and summary.get("violations") and res["status"] == "clean":
        res["status"] = "report"
    if summary and summary.get("inconclusive") and res["status"] == "clean":
        # e.g. the in-process watchdog fired while a thread was still running (slow machine)
        res["status"] = "inconclusive"
    return res


def run_many_seeds(tool, target_dir, scenario, lo, hi, opts):
    """Miri -Zmiri-many-seeds sweep of one scenario: cheaper per seed, but the reports of all
    failing seeds arrive interleaved on one stderr, so only the first report is classified and
    the failing seeds are counted."""
    args = ["--scenario", scenario, "--seed", str(lo), "--iters", "1", "--tool", "miri"]
    env = tool_env("miri", target_dir, opts["miri_hooks"], many=(lo, hi), extra_miriflags=opts["miriflags"])
    t0 = time.time()
    try:
        r = subprocess.run(miri_cmd(args), cwd=WORKSPACE, env=env, capture_output=True, text=True,
                           timeout=opts["timeout"] * max(1, (hi - lo) // 8))
    except subprocess.TimeoutExpired:
        return [{"scenario": scenario, "seed": lo, "secs": time.time() - t0, "summary": None, "status": "timeout",
                 "report": None, "note": "miri many-seeds %s %d..%d timed out" % (scenario, lo, hi)}]
    res = []
    sums = [json.loads(l[8:]) for l in r.stdout.splitlines() if l.startswith("SUMMARY ")]
    for i, s in enumerate(sums):
        res.append({"scenario": scenario, "seed": lo + i, "secs": (time.time() - t0) / max(1, len(sums)), "summary": s,
                    "status": "report" if s.get("violations") else "clean", "report": None, "note": None})
    failing = [int(x) for x in re.findall(r"FAILING SEED: (\d+)", r.stderr)]
    rep = classify_miri(r.stderr, scenario)
    if rep and rep[1]:
        for s in failing or [lo]:
            res.append({"scenario": scenario, "seed": s, "secs": 0.0, "summary": None, "status": "report",
                        "report": {"kind": rep[0], "signature": rep[1], "headline": rep[2]}, "note": None})
    missing = (hi - lo) - len(sums) - len(failing)
    if missing > 0 and not rep:
        res.append({"scenario": scenario, "seed": lo, "secs": 0.0, "summary": None, "status": "error", "report": None,
                    "note": "miri many-seeds %s: %d seeds produced no SUMMARY (exit %d)" % (scenario, missing, r.returncode)})
    return res


# --------------------------------------------------------------------------- merge


def merge(tool, results, build_secs, wall, opts):
    out = {"property": "C17", "tool": tool, "evaluations": 0, "trivial": 0, "signatures": set(), "counters": {},
           "maxima": {}, "minima": {}, "sets": {}, "samples": [], "violations": [], "inconclusive": []}
    c = out["counters"]

    def count(k, n=1):
        c[k] = c.get(k, 0) + n

    seen_sig = {}
    for r in results:
        if r["scenario"] == "_group":
            count("group_processes.%s" % r["status"])
        else:
            count("processes.%s" % r["status"])
            count("seeds_run.%s" % r["scenario"])
        out["maxima"]["process_secs"] = max(out["maxima"].get("process_secs", 0), round(r["secs"], 2))
        s = r["summary"]
        if s:
            out["evaluations"] += s.get("evaluations", 0)
            out["trivial"] += s.get("trivial", 0)
            out["signatures"].update(s.get("signatures", []))
            for k, v in s.get("counters", {}).items():
                count(k, v)
            for k, v in s.get("maxima", {}).items():
                out["maxima"][k] = max(out["maxima"].get(k, v), v)
            for k, v in s.get("minima", {}).items():
                out["minima"][k] = min(out["minima"].get(k, v), v)
            for k, v in s.get("sets", {}).items():
                out["sets"].setdefault(k, set()).update(v)
            if len(out["samples"]) < 6:
                out["samples"].extend(s.get("samples", [])[:1])
            for v in s.get("violations", []):
                sig = v["signature"]
                count("violation_count.%s" % sig)
                if sig not in seen_sig:
                    seen_sig[sig] = True
                    v["replay"]["tool"] = tool
                    out["violations"].append(v)
            for i in s.get("inconclusive", []):
                out["inconclusive"].append(i)
        elif r["status"] == "report":
            # the process was stopped by the tool before it could print its summary: the
            # execution still happened
            out["evaluations"] += 1
        if r["report"]:
            sig = r["report"]["signature"]
            count("violation_count.%s" % sig)
            if sig not in seen_sig:
                seen_sig[sig] = True
                out["violations"].append({
                    "property": "C17",
                    "signature": sig,
                    "what": "%s report in scenario %s (seed %d): %s" % (tool, r["scenario"], r["seed"], r["report"]["headline"][:400]),
                    "replay": {"engine": "vq-sync", "tool": tool, "scenario": r["scenario"], "seed": r["seed"], "iter": 0,
                               "iters": opts["iters"], "miri_hooks": opts["miri_hooks"]},
                })
        if r["note"]:
            out["inconclusive"].append(r["note"])
    out["counters"]["distinct_interleavings"] = len(out["signatures"])
    sigs = sorted(out["signatures"])
    if len(sigs) > 4096:
        count("signatures_truncated", len(sigs) - 4096)
        sigs = sigs[:4096]
    out["signatures"] = sigs
    out["sets"] = {k: sorted(v) for k, v in out["sets"].items()}
    out["maxima"]["build_secs"] = round(build_secs, 1)
    out["maxima"]["wall_secs"] = round(wall, 1)
    if out["evaluations"] == 0:
        out["inconclusive"].append("no execution produced a result")
    out["inconclusive"] = out["inconclusive"][:50]
    return out


def parse_range(s):
    m = re.match(r"^(\d+)\.\.(\d+)$", s)
    if not m:
        n = int(s)
        return n, n + 1
    return int(m.group(1)), int(m.group(2))


def main():
    ap = argparse.ArgumentParser(description=__doc__, formatter_class=argparse.RawDescriptionHelpFormatter)
    ap.add_argument("--tool", required=True, choices=["miri", "tsan", "asan", "native"])
    ap.add_argument("--seeds", default="0..16", help="A..B (B exclusive)")
    ap.add_argument("--scenarios", default="all", help="all | all-clean (skip known-defect scenarios) | name,name,...")
    ap.add_argument("--iters", type=int, default=None, help="executions per process (default: miri 1, others 2000)")
    ap.add_argument("--jobs", type=int, default=16)
    ap.add_argument("--timeout", type=int, default=None, help="seconds per process (default: miri 300, others 600)")
    ap.add_argument("--watchdog-ms", type=int, default=None, help="in-process lost-wake-up watchdog (default 20000; 4000 for known-defect scenarios)")
    ap.add_argument("--fp", type=int, default=None, help="failpoint perturbation per mille (default: binary's own, 250)")
    ap.add_argument("--target-dir", default=None)
    ap.add_argument("--group", action="store_true",
                    help="run all (non known-defect) scenarios of a seed in ONE process first and fall back to one "
                         "process per scenario only for seeds whose group process was not clean; ~10x cheaper under "
                         "Miri where process start-up dominates (default: strictly one scenario+seed per process)")
    ap.add_argument("--many-seeds", action="store_true", help="miri only: one -Zmiri-many-seeds process per scenario chunk")
    ap.add_argument("--miri-hooks", action="store_true", help="miri: build with the H3 failpoints compiled in (default: production code)")
    ap.add_argument("--miriflags", default="", help="extra MIRIFLAGS")
    ap.add_argument("--keep", default=None, help="directory for the stderr of reporting processes")
    a = ap.parse_args()

    tool = a.tool
    target_dir = a.target_dir or DEFAULT_DIRS[tool]
    lo, hi = parse_range(a.seeds)
    opts = {
        "iters": a.iters if a.iters is not None else (1 if tool == "miri" else 2000),
        "timeout": a.timeout if a.timeout is not None else (300 if tool == "miri" else 600),
        "watchdog_ms": a.watchdog_ms if a.watchdog_ms is not None else 20000,
        "fp": a.fp,
        "miri_hooks": a.miri_hooks,
        "miriflags": a.miriflags,
        "keep": a.keep,
    }
    t_start = time.time()
    prefix, table, build_secs = build(tool, target_dir, a.miri_hooks)
    names = [n for n, _ in table]
    known = {n for n, k in table if k}
    if a.scenarios == "all":
        chosen = names
    elif a.scenarios == "all-clean":
        chosen = [n for n in names if n not in known]
    else:
        chosen = [n for n in a.scenarios.split(",") if n]
        bad = [n for n in chosen if n not in names]
        if bad:
            raise SystemExit("unknown scenario(s): %s (have: %s)" % (bad, names))
    results = []
    t_run = time.time()
    with concurrent.futures.ThreadPoolExecutor(max_workers=a.jobs) as pool:
        futs = []
        if tool == "miri" and a.many_seeds:
            chunk = max(8, (hi - lo + a.jobs - 1) // a.jobs)
            for sc in chosen:
                s = lo
                while s < hi:
                    e = min(hi, s + chunk)
                    futs.append(pool.submit(run_many_seeds, tool, target_dir, sc, s, e, opts))
                    s = e
        elif a.group:
            grouped = [n for n in chosen if n not in known]
            single = [n for n in chosen if n in known]
            gfuts = {}
            for seed in range(lo, hi):
                o = dict(opts)
                o["timeout"] = opts["timeout"] * max(1, len(grouped) // 4)
                gfuts[pool.submit(run_one, (tool, prefix, target_dir, ",".join(grouped), seed, o))] = seed
                for sc in single:
                    o = dict(opts)
                    if a.watchdog_ms is None:
                        o["watchdog_ms"] = 4000
                    if tool != "miri" and a.iters is None:
                        o["iters"] = 50
                    futs.append(pool.submit(run_one, (tool, prefix, target_dir, sc, seed, o)))
            for f in concurrent.futures.as_completed(list(gfuts)):
                r = f.result()
                seed = gfuts[f]
                if r["status"] == "clean":
                    # one clean process covered every scenario of the group for this seed
                    s = r["summary"]
                    for sc in grouped:
                        results.append({"scenario": sc, "seed": seed, "secs": r["secs"] / len(grouped), "summary": None,
                                        "status": "clean", "report": None, "note": None})
                    results.append({"scenario": "_group", "seed": seed, "secs": r["secs"], "summary": s, "status": "clean",
                                    "report": None, "note": None})
                else:
                    log("seed %d: group process %s -> re-running its %d scenarios one per process" % (seed, r["status"], len(grouped)))
                    for sc in grouped:
                        futs.append(pool.submit(run_one, (tool, prefix, target_dir, sc, seed, dict(opts))))
        else:
            for seed in range(lo, hi):
                for sc in chosen:
                    o = dict(opts)
                    if sc in known:
                        # a known lost wake-up ends the process: keep those processes short
                        if a.watchdog_ms is None:
                            o["watchdog_ms"] = 4000
                        if tool != "miri" and a.iters is None:
                            o["iters"] = 50
                    futs.append(pool.submit(run_one, (tool, prefix, target_dir, sc, seed, o)))
        done = 0
        for f in concurrent.futures.as_completed(futs):
            r = f.result()
            rs = r if isinstance(r, list) else [r]
            results.extend(rs)
            done += 1
            for x in rs:
                if x["status"] != "clean":
                    what = x["report"]["signature"] if x["report"] else (x["note"] or "monitor violation")
                    log("%s seed %d: %s: %s" % (x["scenario"], x["seed"], x["status"], what[:200]))
            if done % 64 == 0:
                log("%d/%d processes done (%.0f s)" % (done, len(futs), time.time() - t_run))
    out = merge(tool, results, build_secs, time.time() - t_start, opts)
    by = {}
    for r in results:
        by[r["status"]] = by.get(r["status"], 0) + 1
    log("done: %s in %.1f s run + %.1f s build; %d executions, %d distinct interleavings, %d distinct violation signatures" % (
        by, time.time() - t_run, build_secs, out["evaluations"], out["counters"]["distinct_interleavings"], len(out["violations"])))
    for v in out["violations"]:
        log("VIOLATION %s x%d" % (v["signature"], out["counters"].get("violation_count.%s" % v["signature"], 0)))
    print("SUMMARY " + json.dumps(out, sort_keys=True))
    return 0


if __name__ == "__main__":
    sys.exit(main())
