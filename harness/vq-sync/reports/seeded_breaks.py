#!/usr/bin/env python3
"""apply one seeded break to the scratch worktree /var/tmp/wt-c17 (after resetting it)"""
import subprocess, sys

WT = "/var/tmp/wt-c17"
B = WT + "/quic/s2n-quic-core/src/sync/"


def edit(path, old, new, count=1):
    s = open(path).read()
    assert s.count(old) >= 1, (path, old)
    s = s.replace(old, new, count)
    open(path, "w").write(s)


BREAKS = {}


def brk(f):
    BREAKS[f.__name__] = f
    return f


@brk
def revert_fix():
    "second closer (the one that sees open == false) frees the header again"
    edit(B + "spsc/state.rs", "self.open.store(false, Ordering::SeqCst);", "let was_open = self.open.swap(false, Ordering::SeqCst);")
    edit(B + "spsc/state.rs", "let is_last = self.handles.fetch_sub(1, Ordering::AcqRel) == 1;", "let is_last = !was_open;")


@brk
def tail_relaxed():
    "spsc tail publication store Release -> Relaxed"
    edit(B + "spsc/state.rs", "self.tail.store(self.cursor.tail, Ordering::Release);", "self.tail.store(self.cursor.tail, Ordering::Relaxed);")


@brk
def head_relaxed():
    "spsc head publication store Release -> Relaxed"
    edit(B + "spsc/state.rs", "self.head.store(self.cursor.head, Ordering::Release);", "self.head.store(self.cursor.head, Ordering::Relaxed);")


@brk
def recv_no_recheck():
    "Receiver::poll_slice: no second acquire_filled!() after registering the waker"
    edit(B + "spsc/recv.rs", """        // check once more to avoid a loss of notification
        acquire_filled!();
""", "")


@brk
def send_no_recheck():
    "Sender::poll_slice: no second acquire_capacity!() after registering the waker"
    edit(B + "spsc/send.rs", """        // check once more to avoid a loss of notification
        acquire_capacity!();
""", "")


@brk
def close_no_second_wake():
    "State::close: the peer is only woken before `open` is cleared"
    edit(B + "spsc/state.rs", """        // make sure the peer is notified before fully dropping the contents
        match side {
            Side::Sender => self.receiver.wake(),
            Side::Receiver => self.sender.wake(),
        }
""", "")


@brk
def closed_no_final_tail():
    "acquire_filled: no final tail reload after observing the channel closed"
    edit(B + "spsc/state.rs", """            // make one more effort to load the remaining items
            self.cursor.tail = self.tail.load(Ordering::Acquire);
""", "")


@brk
def handles_relaxed():
    "the fix's fetch_sub AcqRel -> Relaxed"
    edit(B + "spsc/state.rs", "self.handles.fetch_sub(1, Ordering::AcqRel)", "self.handles.fetch_sub(1, Ordering::Relaxed)")


@brk
def cursor_producer_relaxed():
    "cursor release_producer fetch_add Release -> Relaxed"
    edit(B + "cursor.rs", "self.producer().fetch_add(len, Ordering::Release);", "self.producer().fetch_add(len, Ordering::Relaxed);")


@brk
def cursor_consumer_relaxed():
    "cursor release_consumer fetch_add Release -> Relaxed"
    edit(B + "cursor.rs", "self.consumer().fetch_add(len, Ordering::Release);", "self.consumer().fetch_add(len, Ordering::Relaxed);")


@brk
def worker_no_recheck():
    "worker poll_acquire: no second acquire!() after registering the waker"
    edit(B + "worker.rs", """        // make one more effort to acquire credits in case a sender submitted some while we were
        // registering the waker
        acquire!();
""", "")


@brk
def worker_drop_no_wake():
    "worker Sender::drop does not wake the receiver"
    edit(B + "worker.rs", """        // wake up the receiver to notify that one of the senders has dropped
        state.receiver.wake();
""", "")


@brk
def waker_wake_local():
    "atomic_waker Handle::wake wakes the local instead of the remote waker"
    edit(B + "atomic_waker.rs", "unsafe { (*self.remote).wake() }", "unsafe { (*self.local).wake() }")


if __name__ == "__main__":
    subprocess.check_call(["git", "-C", WT, "checkout", "-q", "--", "."])
    name = sys.argv[1]
    if name == "none":
        print("reset")
    elif name == "list":
        for k, f in BREAKS.items():
            print(k, "-", f.__doc__)
    else:
        BREAKS[name]()
        print(subprocess.check_output(["git", "-C", WT, "diff", "--stat"]).decode())
