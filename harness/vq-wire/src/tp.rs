//! RFC 9000 section 7.4 / 18.2 (+ RFC 9221 section 3) transport-parameter table,
//! transcribed for the harness. Given an encoded parameter block and the role
//! of the *sender*, says whether a conforming receiver must accept it, must
//! reject it, or may do either ("don't care": the check then demands nothing).

use crate::{varint, varint_len, Cur, WireError};
use std::collections::BTreeMap;

#[derive(Clone, Copy, Debug, PartialEq, Eq)]
pub enum Role {
    Client,
    Server,
}

#[derive(Clone, Debug, PartialEq, Eq, Default)]
pub struct Values {
    pub original_destination_connection_id: Option<Vec<u8>>,
    pub max_idle_timeout: u64,
    pub stateless_reset_token: Option<[u8; 16]>,
    pub max_udp_payload_size: u64,
    pub initial_max_data: u64,
    pub initial_max_stream_data_bidi_local: u64,
    pub initial_max_stream_data_bidi_remote: u64,
    pub initial_max_stream_data_uni: u64,
    pub initial_max_streams_bidi: u64,
    pub initial_max_streams_uni: u64,
    pub ack_delay_exponent: u64,
    pub max_ack_delay: u64,
    pub disable_active_migration: bool,
    pub preferred_address: Option<Vec<u8>>,
    pub active_connection_id_limit: u64,
    pub initial_source_connection_id: Option<Vec<u8>>,
    pub retry_source_connection_id: Option<Vec<u8>>,
    pub max_datagram_frame_size: u64,
}

impl Values {
    /// RFC defaults for absent parameters
    pub fn defaults() -> Self {
        Values {
            max_idle_timeout: 0,
            max_udp_payload_size: 65527,
            ack_delay_exponent: 3,
            max_ack_delay: 25,
            active_connection_id_limit: 2,
            ..Default::default()
        }
    }
}

#[derive(Clone, Debug, PartialEq, Eq)]
pub enum Verdict {
    Accept(Values),
    Reject(&'static str),
    DontCare(&'static str),
}

pub const ID_ODCID: u64 = 0x00;
pub const ID_MAX_IDLE: u64 = 0x01;
pub const ID_SRT: u64 = 0x02;
pub const ID_MAX_UDP: u64 = 0x03;
pub const ID_MAX_DATA: u64 = 0x04;
pub const ID_MSD_BIDI_LOCAL: u64 = 0x05;
pub const ID_MSD_BIDI_REMOTE: u64 = 0x06;
pub const ID_MSD_UNI: u64 = 0x07;
pub const ID_MS_BIDI: u64 = 0x08;
pub const ID_MS_UNI: u64 = 0x09;
pub const ID_ADE: u64 = 0x0a;
pub const ID_MAD: u64 = 0x0b;
pub const ID_DAM: u64 = 0x0c;
pub const ID_PREF: u64 = 0x0d;
pub const ID_ACIL: u64 = 0x0e;
pub const ID_ISCID: u64 = 0x0f;
pub const ID_RSCID: u64 = 0x10;
pub const ID_DGRAM: u64 = 0x20;

pub fn is_known(id: u64) -> bool {
    id <= 0x10 || id == ID_DGRAM
}

/// ids private to s2n-quic; the RFC says nothing about them
pub fn is_private(id: u64) -> bool {
    (0xdc0000..=0xdc00ff).contains(&id)
}

/// split a block into (id, value) pairs; Err if the TLV structure itself is broken
pub fn split(block: &[u8]) -> Result<Vec<(u64, Vec<u8>)>, WireError> {
    let mut c = Cur::new(block);
    let mut out = Vec::new();
    while !c.is_empty() {
        let id = c.vi()?;
        let v = c.take_vi_len()?;
        out.push((id, v.to_vec()));
    }
    Ok(out)
}

enum V {
    Ok(u64),
    Truncated,
    Trailing,
}

fn one_varint(v: &[u8]) -> V {
    match varint(v) {
        Ok((x, l)) if l == v.len() => V::Ok(x),
        Ok(_) => V::Trailing,
        Err(_) => V::Truncated,
    }
}

/// Judge a block sent by `sender`.
pub fn judge(block: &[u8], sender: Role) -> Verdict {
    let items = match split(block) {
        Ok(i) => i,
        Err(_) => return Verdict::Reject("malformed parameter sequence"),
    };
    let mut seen: BTreeMap<u64, usize> = BTreeMap::new();
    for (id, _) in &items {
        *seen.entry(*id).or_insert(0) += 1;
    }
    let mut dontcare: Option<&'static str> = None;
    for (id, n) in &seen {
        if *n > 1 {
            if is_known(*id) {
                return Verdict::Reject("duplicate parameter");
            } else {
                // RFC: SHOULD treat duplicates as an error; for ids the receiver does not
                // understand it cannot be expected to track them
                dontcare = Some("duplicate unknown parameter");
            }
        }
    }
    let mut out = Values::defaults();
    for (id, v) in &items {
        let id = *id;
        if !is_known(id) {
            if is_private(id) {
                dontcare = Some("s2n-quic private parameter");
            }
            continue;
        }
        // server-only parameters
        if sender == Role::Client && matches!(id, ID_ODCID | ID_SRT | ID_PREF | ID_RSCID) {
            return Verdict::Reject("server-only parameter sent by client");
        }
        match id {
            ID_ODCID | ID_ISCID | ID_RSCID => {
                if v.len() > 20 {
                    return Verdict::Reject("connection id longer than 20 bytes");
                }
                if id == ID_ODCID && v.len() < 8 {
                    // RFC 9000 7.2: a client's first Destination Connection ID "MUST be at
                    // least 8 bytes in length", and 7.3 makes the client compare this
                    // parameter with that very value: a shorter one can never match, so
                    // refusing it while decoding and refusing it during authentication are
                    // the same observable outcome
                    dontcare = Some("original_destination_connection_id shorter than 8 bytes");
                }
                let v = Some(v.clone());
                match id {
                    ID_ODCID => out.original_destination_connection_id = v,
                    ID_ISCID => out.initial_source_connection_id = v,
                    _ => out.retry_source_connection_id = v,
                }
            }
            ID_SRT => {
                if v.len() != 16 {
                    return Verdict::Reject("stateless_reset_token not 16 bytes");
                }
                let mut t = [0u8; 16];
                t.copy_from_slice(v);
                out.stateless_reset_token = Some(t);
            }
            ID_DAM => {
                if !v.is_empty() {
                    // "This parameter is a zero-length value": a non-empty one is malformed,
                    // but the property does not list it; leave it open
                    dontcare = Some("non-empty disable_active_migration");
                }
                out.disable_active_migration = true;
            }
            ID_PREF => {
                // 4+2+16+2 + len(1) + cid + 16
                if v.len() < 4 + 2 + 16 + 2 + 1 + 16 {
                    return Verdict::Reject("preferred_address truncated");
                }
                let cl = v[24] as usize;
                if v.len() != 25 + cl + 16 {
                    return Verdict::Reject("preferred_address length mismatch");
                }
                if cl == 0 || cl > 20 {
                    dontcare = Some("preferred_address connection id length");
                }
                if v[..6].iter().all(|b| *b == 0) && v[6..24].iter().all(|b| *b == 0) {
                    dontcare = Some("preferred_address with both addresses zero");
                }
                out.preferred_address = Some(v.clone());
            }
            _ => {
                // integer-valued parameters
                let x = match one_varint(v) {
                    V::Ok(x) => x,
                    V::Truncated => return Verdict::Reject("integer parameter truncated"),
                    V::Trailing => {
                        dontcare = Some("integer parameter with trailing bytes");
                        varint(v).unwrap().0
                    }
                };
                if v.len() != varint_len(x) {
                    // non-minimal encodings are legal varints
                }
                match id {
                    ID_MAX_IDLE => out.max_idle_timeout = x,
                    ID_MAX_UDP => {
                        if x < 1200 {
                            return Verdict::Reject("max_udp_payload_size below 1200");
                        }
                        if x > 65527 {
                            dontcare = Some("max_udp_payload_size above 65527");
                        }
                        out.max_udp_payload_size = x;
                    }
                    ID_MAX_DATA => out.initial_max_data = x,
                    ID_MSD_BIDI_LOCAL => out.initial_max_stream_data_bidi_local = x,
                    ID_MSD_BIDI_REMOTE => out.initial_max_stream_data_bidi_remote = x,
                    ID_MSD_UNI => out.initial_max_stream_data_uni = x,
                    ID_MS_BIDI => {
                        if x > 1 << 60 {
                            return Verdict::Reject("initial_max_streams_bidi above 2^60");
                        }
                        out.initial_max_streams_bidi = x;
                    }
                    ID_MS_UNI => {
                        if x > 1 << 60 {
                            return Verdict::Reject("initial_max_streams_uni above 2^60");
                        }
                        out.initial_max_streams_uni = x;
                    }
                    ID_ADE => {
                        if x > 20 {
                            return Verdict::Reject("ack_delay_exponent above 20");
                        }
                        out.ack_delay_exponent = x;
                    }
                    ID_MAD => {
                        if x >= 1 << 14 {
                            return Verdict::Reject("max_ack_delay of 2^14 or more");
                        }
                        out.max_ack_delay = x;
                    }
                    ID_ACIL => {
                        if x < 2 {
                            return Verdict::Reject("active_connection_id_limit below 2");
                        }
                        out.active_connection_id_limit = x;
                    }
                    ID_DGRAM => out.max_datagram_frame_size = x,
                    _ => unreachable!(),
                }
            }
        }
    }
    if let Some(r) = dontcare {
        return Verdict::DontCare(r);
    }
    Verdict::Accept(out)
}

/// encode one parameter
pub fn put(out: &mut Vec<u8>, id: u64, value: &[u8]) {
    crate::put_varint(out, id);
    crate::put_varint(out, value.len() as u64);
    out.extend_from_slice(value);
}

pub fn put_int(out: &mut Vec<u8>, id: u64, v: u64) {
    let mut b = Vec::new();
    crate::put_varint(&mut b, v);
    put(out, id, &b);
}
