//! Independent reference parser for the QUIC v1 wire format, written from
//! RFC 9000 sections 16-19 (and RFC 9221 for DATAGRAM) for the /verif harness.
//!
//! It never calls into s2n-quic: it is the *other side* of the layout oracle
//! (C05) and the frame decoder used by the taps of the end-to-end monitors, so
//! that a symmetric encode/decode bug in s2n-quic cannot hide from them.

pub mod tp;

#[derive(Clone, Copy, Debug, PartialEq, Eq)]
pub enum WireError {
    /// ran out of bytes
    Truncated,
    /// structurally invalid (bad value for the field)
    Invalid(&'static str),
    /// frame type not known to RFC 9000 / 9221 / the s2n extensions
    UnknownFrame(u64),
}

pub type Res<T> = Result<T, WireError>;

pub const VARINT_MAX: u64 = (1 << 62) - 1;

/// implementation limit documented for the private DC_STATELESS_RESET_TOKENS frame
pub const DC_MAX_TOKENS: u64 = 4092;

/// RFC 9000 section 16. Returns (value, encoded length).
pub fn varint(b: &[u8]) -> Res<(u64, usize)> {
    let first = *b.first().ok_or(WireError::Truncated)?;
    let len = 1usize << (first >> 6);
    if b.len() < len {
        return Err(WireError::Truncated);
    }
    let mut v = (first & 0x3f) as u64;
    for x in &b[1..len] {
        v = (v << 8) | *x as u64;
    }
    Ok((v, len))
}

/// number of bytes of the shortest encoding
pub fn varint_len(v: u64) -> usize {
    assert!(v <= VARINT_MAX);
    if v < 1 << 6 {
        1
    } else if v < 1 << 14 {
        2
    } else if v < 1 << 30 {
        4
    } else {
        8
    }
}

pub fn put_varint(out: &mut Vec<u8>, v: u64) {
    put_varint_len(out, v, varint_len(v))
}

/// encode with an explicit (possibly non-minimal) length
pub fn put_varint_len(out: &mut Vec<u8>, v: u64, len: usize) {
    assert!(v <= VARINT_MAX);
    let tag = match len {
        1 => 0u8,
        2 => 1,
        4 => 2,
        8 => 3,
        _ => panic!("bad varint len"),
    };
    assert!(len == 8 || v < 1u64 << (8 * len - 2));
    let bytes = v.to_be_bytes();
    let start = out.len();
    out.extend_from_slice(&bytes[8 - len..]);
    out[start] |= tag << 6;
}

pub struct Cur<'a> {
    pub b: &'a [u8],
    pub pos: usize,
    /// set when a varint was seen that was not in its shortest form
    pub non_minimal: bool,
}

impl<'a> Cur<'a> {
    pub fn new(b: &'a [u8]) -> Self {
        Cur {
            b,
            pos: 0,
            non_minimal: false,
        }
    }
    pub fn rest(&self) -> &'a [u8] {
        &self.b[self.pos..]
    }
    pub fn is_empty(&self) -> bool {
        self.pos >= self.b.len()
    }
    pub fn vi(&mut self) -> Res<u64> {
        let (v, l) = varint(self.rest())?;
        if l != varint_len(v) {
            self.non_minimal = true;
        }
        self.pos += l;
        Ok(v)
    }
    pub fn u8(&mut self) -> Res<u8> {
        let v = *self.rest().first().ok_or(WireError::Truncated)?;
        self.pos += 1;
        Ok(v)
    }
    pub fn u16(&mut self) -> Res<u16> {
        let s = self.take(2)?;
        Ok(u16::from_be_bytes([s[0], s[1]]))
    }
    pub fn u32(&mut self) -> Res<u32> {
        let s = self.take(4)?;
        Ok(u32::from_be_bytes([s[0], s[1], s[2], s[3]]))
    }
    pub fn take(&mut self, n: usize) -> Res<&'a [u8]> {
        if self.b.len() - self.pos < n {
            return Err(WireError::Truncated);
        }
        let s = &self.b[self.pos..self.pos + n];
        self.pos += n;
        Ok(s)
    }
    pub fn take_vi_len(&mut self) -> Res<&'a [u8]> {
        let n = self.vi()?;
        if n > (self.b.len() - self.pos) as u64 {
            return Err(WireError::Truncated);
        }
        self.take(n as usize)
    }
}

#[derive(Clone, Debug, PartialEq, Eq)]
pub enum Frame {
    Padding {
        len: usize,
    },
    Ping,
    Ack {
        largest: u64,
        delay: u64,
        /// inclusive ranges, descending
        ranges: Vec<(u64, u64)>,
        ecn: Option<(u64, u64, u64)>,
    },
    ResetStream {
        id: u64,
        code: u64,
        final_size: u64,
    },
    StopSending {
        id: u64,
        code: u64,
    },
    Crypto {
        offset: u64,
        data: Vec<u8>,
    },
    NewToken {
        token: Vec<u8>,
    },
    Stream {
        id: u64,
        offset: u64,
        data: Vec<u8>,
        fin: bool,
        /// whether the frame carried an explicit length (otherwise extends to end of packet)
        has_len: bool,
        has_off: bool,
    },
    MaxData {
        max: u64,
    },
    MaxStreamData {
        id: u64,
        max: u64,
    },
    MaxStreams {
        bidi: bool,
        max: u64,
    },
    DataBlocked {
        limit: u64,
    },
    StreamDataBlocked {
        id: u64,
        limit: u64,
    },
    StreamsBlocked {
        bidi: bool,
        limit: u64,
    },
    NewConnectionId {
        seq: u64,
        retire_prior_to: u64,
        cid: Vec<u8>,
        token: [u8; 16],
    },
    RetireConnectionId {
        seq: u64,
    },
    PathChallenge {
        data: [u8; 8],
    },
    PathResponse {
        data: [u8; 8],
    },
    ConnectionClose {
        /// true: 0x1c (transport), false: 0x1d (application)
        transport: bool,
        code: u64,
        frame_type: Option<u64>,
        reason: Vec<u8>,
    },
    HandshakeDone,
    Datagram {
        data: Vec<u8>,
        has_len: bool,
    },
    /// s2n-quic private extension frames (type 0xdc0000 / 0xdc0002)
    DcStatelessResetTokens {
        tokens: Vec<[u8; 16]>,
    },
    MtuProbingComplete {
        mtu: u16,
    },
}

impl Frame {
    pub fn name(&self) -> &'static str {
        match self {
            Frame::Padding { .. } => "PADDING",
            Frame::Ping => "PING",
            Frame::Ack { .. } => "ACK",
            Frame::ResetStream { .. } => "RESET_STREAM",
            Frame::StopSending { .. } => "STOP_SENDING",
            Frame::Crypto { .. } => "CRYPTO",
            Frame::NewToken { .. } => "NEW_TOKEN",
            Frame::Stream { .. } => "STREAM",
            Frame::MaxData { .. } => "MAX_DATA",
            Frame::MaxStreamData { .. } => "MAX_STREAM_DATA",
            Frame::MaxStreams { .. } => "MAX_STREAMS",
            Frame::DataBlocked { .. } => "DATA_BLOCKED",
            Frame::StreamDataBlocked { .. } => "STREAM_DATA_BLOCKED",
            Frame::StreamsBlocked { .. } => "STREAMS_BLOCKED",
            Frame::NewConnectionId { .. } => "NEW_CONNECTION_ID",
            Frame::RetireConnectionId { .. } => "RETIRE_CONNECTION_ID",
            Frame::PathChallenge { .. } => "PATH_CHALLENGE",
            Frame::PathResponse { .. } => "PATH_RESPONSE",
            Frame::ConnectionClose { .. } => "CONNECTION_CLOSE",
            Frame::HandshakeDone => "HANDSHAKE_DONE",
            Frame::Datagram { .. } => "DATAGRAM",
            Frame::DcStatelessResetTokens { .. } => "DC_STATELESS_RESET_TOKENS",
            Frame::MtuProbingComplete { .. } => "MTU_PROBING_COMPLETE",
        }
    }

    /// RFC 9002 section 2: all frames other than ACK, PADDING and CONNECTION_CLOSE
    pub fn ack_eliciting(&self) -> bool {
        !matches!(
            self,
            Frame::Ack { .. } | Frame::Padding { .. } | Frame::ConnectionClose { .. }
        )
    }
}

/// Things a *lenient* parse noticed. RFC 9000 attaches a connection error to
/// these conditions but does not say which layer has to raise it (the frame
/// codec or the code that acts on the frame), or merely allows rejecting them.
/// `frame()` / `frames()` turn the first note into a hard `Invalid` error;
/// `frame_ex()` keeps parsing so that a layout comparison can still check every
/// field when the decoder under test chose to accept the frame.
#[derive(Clone, Copy, Debug, Default, PartialEq, Eq)]
pub struct Notes {
    /// first value constraint that was violated (None: none)
    pub soft: Option<&'static str>,
    /// the frame type varint was not in its shortest form (RFC 9000 12.4: MAY reject)
    pub type_non_minimal: bool,
}

impl Notes {
    fn soft(&mut self, why: &'static str) {
        if self.soft.is_none() {
            self.soft = Some(why);
        }
    }
}

/// Parse one frame at the cursor. PADDING runs are coalesced into one frame.
pub fn frame(c: &mut Cur) -> Res<Frame> {
    let mut n = Notes::default();
    let f = frame_ex(c, &mut n)?;
    match n.soft {
        Some(why) => Err(WireError::Invalid(why)),
        None => Ok(f),
    }
}

/// Lenient variant of [`frame`]: structural errors (truncation, unknown type,
/// negative ACK packet numbers) are still errors, value-constraint violations are
/// recorded in `notes` and the frame is returned as it is laid out on the wire.
pub fn frame_ex(c: &mut Cur, notes: &mut Notes) -> Res<Frame> {
    let start = c.pos;
    // RFC 9000 12.4: the frame type is a varint; all standard types fit one byte
    let ty = c.vi()?;
    if c.pos - start != varint_len(ty) {
        notes.type_non_minimal = true;
    }
    let f = match ty {
        0x00 => {
            let mut len = c.pos - start;
            while c.rest().first() == Some(&0) {
                c.pos += 1;
                len += 1;
            }
            Frame::Padding { len }
        }
        0x01 => Frame::Ping,
        0x02 | 0x03 => {
            let largest = c.vi()?;
            let delay = c.vi()?;
            let count = c.vi()?;
            let first = c.vi()?;
            if first > largest {
                return Err(WireError::Invalid("ack first range exceeds largest"));
            }
            let mut ranges = Vec::new();
            let mut smallest = largest - first;
            ranges.push((smallest, largest));
            for _ in 0..count {
                let gap = c.vi()?;
                let len = c.vi()?;
                // RFC 9000 19.3.1: largest = previous_smallest - gap - 2
                let hi = smallest
                    .checked_sub(gap)
                    .and_then(|v| v.checked_sub(2))
                    .ok_or(WireError::Invalid("ack gap underflow"))?;
                let lo = hi
                    .checked_sub(len)
                    .ok_or(WireError::Invalid("ack range underflow"))?;
                ranges.push((lo, hi));
                smallest = lo;
            }
            let ecn = if ty == 0x03 {
                Some((c.vi()?, c.vi()?, c.vi()?))
            } else {
                None
            };
            Frame::Ack {
                largest,
                delay,
                ranges,
                ecn,
            }
        }
        0x04 => Frame::ResetStream {
            id: c.vi()?,
            code: c.vi()?,
            final_size: c.vi()?,
        },
        0x05 => Frame::StopSending {
            id: c.vi()?,
            code: c.vi()?,
        },
        0x06 => {
            let offset = c.vi()?;
            let data = c.take_vi_len()?.to_vec();
            if offset + data.len() as u64 > VARINT_MAX {
                notes.soft("crypto offset overflow");
            }
            Frame::Crypto { offset, data }
        }
        0x07 => {
            let token = c.take_vi_len()?.to_vec();
            if token.is_empty() {
                notes.soft("empty NEW_TOKEN");
            }
            Frame::NewToken { token }
        }
        0x08..=0x0f => {
            let has_off = ty & 0x04 != 0;
            let has_len = ty & 0x02 != 0;
            let fin = ty & 0x01 != 0;
            let id = c.vi()?;
            let offset = if has_off { c.vi()? } else { 0 };
            let data = if has_len {
                c.take_vi_len()?.to_vec()
            } else {
                let r = c.rest().to_vec();
                c.pos = c.b.len();
                r
            };
            if offset + data.len() as u64 > VARINT_MAX {
                notes.soft("stream offset overflow");
            }
            Frame::Stream {
                id,
                offset,
                data,
                fin,
                has_len,
                has_off,
            }
        }
        0x10 => Frame::MaxData { max: c.vi()? },
        0x11 => Frame::MaxStreamData {
            id: c.vi()?,
            max: c.vi()?,
        },
        0x12 | 0x13 => {
            let max = c.vi()?;
            if max > 1 << 60 {
                notes.soft("MAX_STREAMS above 2^60");
            }
            Frame::MaxStreams {
                bidi: ty == 0x12,
                max,
            }
        }
        0x14 => Frame::DataBlocked { limit: c.vi()? },
        0x15 => Frame::StreamDataBlocked {
            id: c.vi()?,
            limit: c.vi()?,
        },
        0x16 | 0x17 => {
            let limit = c.vi()?;
            if limit > 1 << 60 {
                notes.soft("STREAMS_BLOCKED above 2^60");
            }
            Frame::StreamsBlocked {
                bidi: ty == 0x16,
                limit,
            }
        }
        0x18 => {
            let seq = c.vi()?;
            let retire_prior_to = c.vi()?;
            let len = c.u8()? as usize;
            let cid = c.take(len)?.to_vec();
            let mut token = [0u8; 16];
            token.copy_from_slice(c.take(16)?);
            if !(1..=20).contains(&len) {
                notes.soft("NEW_CONNECTION_ID length");
            }
            if retire_prior_to > seq {
                notes.soft("retire_prior_to above sequence number");
            }
            Frame::NewConnectionId {
                seq,
                retire_prior_to,
                cid,
                token,
            }
        }
        0x19 => Frame::RetireConnectionId { seq: c.vi()? },
        0x1a | 0x1b => {
            let mut data = [0u8; 8];
            data.copy_from_slice(c.take(8)?);
            if ty == 0x1a {
                Frame::PathChallenge { data }
            } else {
                Frame::PathResponse { data }
            }
        }
        0x1c | 0x1d => {
            let code = c.vi()?;
            let frame_type = if ty == 0x1c { Some(c.vi()?) } else { None };
            let reason = c.take_vi_len()?.to_vec();
            Frame::ConnectionClose {
                transport: ty == 0x1c,
                code,
                frame_type,
                reason,
            }
        }
        0x1e => Frame::HandshakeDone,
        0x30 | 0x31 => {
            let has_len = ty == 0x31;
            let data = if has_len {
                c.take_vi_len()?.to_vec()
            } else {
                let r = c.rest().to_vec();
                c.pos = c.b.len();
                r
            };
            Frame::Datagram { data, has_len }
        }
        0xdc0000 => {
            // s2n-quic private frame, layout as documented in
            // quic/s2n-quic-core/src/frame/dc_stateless_reset_tokens.rs:
            //   Type (i) = 0xdc0000, Count (i), Stateless Reset Tokens [(128)] x Count
            let count = c.vi()?;
            if count > ((c.b.len() - c.pos) / 16) as u64 {
                return Err(WireError::Truncated);
            }
            let tokens = c
                .take(count as usize * 16)?
                .chunks(16)
                .map(|t| {
                    let mut a = [0u8; 16];
                    a.copy_from_slice(t);
                    a
                })
                .collect();
            if count == 0 {
                notes.soft("dc stateless reset tokens: zero tokens");
            }
            if count > DC_MAX_TOKENS {
                notes.soft("dc stateless reset tokens: more than the implementation limit");
            }
            Frame::DcStatelessResetTokens { tokens }
        }
        0xdc0002 => Frame::MtuProbingComplete { mtu: c.u16()? },
        other => return Err(WireError::UnknownFrame(other)),
    };
    Ok(f)
}

/// Parse a whole cleartext packet payload into frames.
pub fn frames(payload: &[u8]) -> Res<Vec<Frame>> {
    let mut c = Cur::new(payload);
    let mut out = Vec::new();
    while !c.is_empty() {
        out.push(frame(&mut c)?);
    }
    Ok(out)
}

// ---------------------------------------------------------------------------
// Reference frame encoder (used by the layout / round-trip oracle of C05).

/// numeric frame type of `f` as it has to appear on the wire
pub fn frame_type(f: &Frame) -> u64 {
    match f {
        Frame::Padding { .. } => 0x00,
        Frame::Ping => 0x01,
        Frame::Ack { ecn, .. } => {
            if ecn.is_some() {
                0x03
            } else {
                0x02
            }
        }
        Frame::ResetStream { .. } => 0x04,
        Frame::StopSending { .. } => 0x05,
        Frame::Crypto { .. } => 0x06,
        Frame::NewToken { .. } => 0x07,
        Frame::Stream {
            fin,
            has_len,
            has_off,
            ..
        } => 0x08 | (*has_off as u64) << 2 | (*has_len as u64) << 1 | *fin as u64,
        Frame::MaxData { .. } => 0x10,
        Frame::MaxStreamData { .. } => 0x11,
        Frame::MaxStreams { bidi, .. } => {
            if *bidi {
                0x12
            } else {
                0x13
            }
        }
        Frame::DataBlocked { .. } => 0x14,
        Frame::StreamDataBlocked { .. } => 0x15,
        Frame::StreamsBlocked { bidi, .. } => {
            if *bidi {
                0x16
            } else {
                0x17
            }
        }
        Frame::NewConnectionId { .. } => 0x18,
        Frame::RetireConnectionId { .. } => 0x19,
        Frame::PathChallenge { .. } => 0x1a,
        Frame::PathResponse { .. } => 0x1b,
        Frame::ConnectionClose { transport, .. } => {
            if *transport {
                0x1c
            } else {
                0x1d
            }
        }
        Frame::HandshakeDone => 0x1e,
        Frame::Datagram { has_len, .. } => 0x30 | *has_len as u64,
        Frame::DcStatelessResetTokens { .. } => 0xdc0000,
        Frame::MtuProbingComplete { .. } => 0xdc0002,
    }
}

/// Encode `f` exactly as RFC 9000 section 19 lays it out. `pick_len(value)` chooses the
/// number of bytes (1/2/4/8, at least `varint_len(value)`) for every varint *field*; the
/// frame type always uses its shortest form (RFC 9000 12.4).
///
/// Panics when `f` cannot be represented (ACK ranges not strictly descending with a gap,
/// STREAM without OFF bit but a non-zero offset, a field above 2^62-1).
pub fn put_frame_with(out: &mut Vec<u8>, f: &Frame, pick_len: &mut dyn FnMut(u64) -> usize) {
    let mut vi = |out: &mut Vec<u8>, v: u64| {
        let l = pick_len(v);
        put_varint_len(out, v, l)
    };
    if let Frame::Padding { len } = f {
        out.resize(out.len() + *len, 0);
        return;
    }
    put_varint(out, frame_type(f));
    match f {
        Frame::Padding { .. } => unreachable!(),
        Frame::Ping | Frame::HandshakeDone => {}
        Frame::Ack {
            largest,
            delay,
            ranges,
            ecn,
        } => {
            assert!(!ranges.is_empty() && ranges[0].1 == *largest);
            vi(out, *largest);
            vi(out, *delay);
            vi(out, ranges.len() as u64 - 1);
            let (mut smallest, hi) = ranges[0];
            assert!(smallest <= hi);
            vi(out, hi - smallest);
            for (lo, hi) in &ranges[1..] {
                assert!(lo <= hi && *hi + 2 <= smallest);
                vi(out, smallest - *hi - 2);
                vi(out, *hi - *lo);
                smallest = *lo;
            }
            if let Some((a, b, c)) = ecn {
                vi(out, *a);
                vi(out, *b);
                vi(out, *c);
            }
        }
        Frame::ResetStream {
            id,
            code,
            final_size,
        } => {
            vi(out, *id);
            vi(out, *code);
            vi(out, *final_size);
        }
        Frame::StopSending { id, code } => {
            vi(out, *id);
            vi(out, *code);
        }
        Frame::Crypto { offset, data } => {
            vi(out, *offset);
            vi(out, data.len() as u64);
            out.extend_from_slice(data);
        }
        Frame::NewToken { token } => {
            vi(out, token.len() as u64);
            out.extend_from_slice(token);
        }
        Frame::Stream {
            id,
            offset,
            data,
            has_len,
            has_off,
            ..
        } => {
            vi(out, *id);
            if *has_off {
                vi(out, *offset);
            } else {
                assert_eq!(*offset, 0);
            }
            if *has_len {
                vi(out, data.len() as u64);
            }
            out.extend_from_slice(data);
        }
        Frame::MaxData { max } => vi(out, *max),
        Frame::MaxStreamData { id, max } => {
            vi(out, *id);
            vi(out, *max);
        }
        Frame::MaxStreams { max, .. } => vi(out, *max),
        Frame::DataBlocked { limit } => vi(out, *limit),
        Frame::StreamDataBlocked { id, limit } => {
            vi(out, *id);
            vi(out, *limit);
        }
        Frame::StreamsBlocked { limit, .. } => vi(out, *limit),
        Frame::NewConnectionId {
            seq,
            retire_prior_to,
            cid,
            token,
        } => {
            vi(out, *seq);
            vi(out, *retire_prior_to);
            assert!(cid.len() < 256);
            out.push(cid.len() as u8);
            out.extend_from_slice(cid);
            out.extend_from_slice(token);
        }
        Frame::RetireConnectionId { seq } => vi(out, *seq),
        Frame::PathChallenge { data } | Frame::PathResponse { data } => out.extend_from_slice(data),
        Frame::ConnectionClose {
            code,
            frame_type,
            reason,
            transport,
        } => {
            vi(out, *code);
            assert_eq!(*transport, frame_type.is_some());
            if let Some(t) = frame_type {
                vi(out, *t);
            }
            vi(out, reason.len() as u64);
            out.extend_from_slice(reason);
        }
        Frame::Datagram { data, has_len } => {
            if *has_len {
                vi(out, data.len() as u64);
            }
            out.extend_from_slice(data);
        }
        Frame::DcStatelessResetTokens { tokens } => {
            vi(out, tokens.len() as u64);
            for t in tokens {
                out.extend_from_slice(t);
            }
        }
        Frame::MtuProbingComplete { mtu } => out.extend_from_slice(&mtu.to_be_bytes()),
    }
}

/// canonical encoding: every varint in its shortest form
pub fn put_frame(out: &mut Vec<u8>, f: &Frame) {
    put_frame_with(out, f, &mut varint_len)
}

// ---------------------------------------------------------------------------
// Packet headers: only the parts that are NOT covered by header protection.

#[derive(Clone, Copy, Debug, PartialEq, Eq, Hash, PartialOrd, Ord)]
pub enum LongType {
    Initial,
    ZeroRtt,
    Handshake,
    Retry,
}

#[derive(Clone, Debug, PartialEq, Eq)]
pub enum Header {
    VersionNegotiation {
        dcid: Vec<u8>,
        scid: Vec<u8>,
        versions: Vec<u32>,
    },
    Long {
        ty: LongType,
        version: u32,
        dcid: Vec<u8>,
        scid: Vec<u8>,
        /// Initial only
        token: Vec<u8>,
        /// offset of the packet-number field (start of protected part) within the datagram slice
        pn_offset: usize,
        /// total length of this packet within the datagram slice (header + Length)
        packet_len: usize,
    },
    /// short header: everything after the first byte up to the end of the datagram
    Short { dcid: Vec<u8>, packet_len: usize },
}

/// What a lenient header parse noticed (see [`header_ex`]).
#[derive(Clone, Copy, Debug, Default, PartialEq, Eq)]
pub struct HeaderNotes {
    /// first reason a receiver may (or, for version 1, must at some layer) drop the
    /// packet although its structure could be parsed
    pub soft: Option<&'static str>,
}

impl HeaderNotes {
    fn soft(&mut self, why: &'static str) {
        if self.soft.is_none() {
            self.soft = Some(why);
        }
    }
}

/// length of the Retry Integrity Tag (RFC 9000 17.2.5)
pub const RETRY_TAG_LEN: usize = 16;

/// Parse the first packet of `b`. `short_dcid_len` is the receiver's connection-id length.
pub fn header(b: &[u8], short_dcid_len: usize) -> Res<Header> {
    let mut n = HeaderNotes::default();
    let h = header_ex(b, short_dcid_len, &mut n)?;
    match n.soft {
        // historical behaviour of this function: only the version-1 connection-id bound is
        // enforced, the other notes are advisory
        Some(why @ ("dcid longer than 20" | "scid longer than 20")) => Err(WireError::Invalid(why)),
        _ => Ok(h),
    }
}

/// Lenient variant of [`header`]: returns the fields as laid out even when the packet is one
/// that RFC 9000 tells the receiver to drop (fixed bit clear, connection id longer than 20
/// bytes in a non-version-negotiation long header, Retry without token, ...), and says so in
/// `notes`. For Retry, `token` holds everything after the SCID *including* the 16-byte
/// integrity tag (at least `RETRY_TAG_LEN` bytes are required).
pub fn header_ex(b: &[u8], short_dcid_len: usize, notes: &mut HeaderNotes) -> Res<Header> {
    let mut c = Cur::new(b);
    let first = c.u8()?;
    if first & 0x80 == 0 {
        // short header
        if first & 0x40 == 0 {
            notes.soft("fixed bit clear");
        }
        let dcid = c.take(short_dcid_len)?.to_vec();
        return Ok(Header::Short {
            dcid,
            packet_len: b.len(),
        });
    }
    let version = c.u32()?;
    let dlen = c.u8()? as usize;
    let dcid = c.take(dlen)?.to_vec();
    let slen = c.u8()? as usize;
    let scid = c.take(slen)?.to_vec();
    if version == 0 {
        // RFC 9000 17.2.1: the remaining bits of the first byte are unused, connection ids
        // may be longer than 20 bytes, Supported Version (32) ...
        if dlen > 20 || slen > 20 {
            notes.soft("version negotiation with a connection id longer than 20");
        }
        let rest = c.rest();
        if rest.len() < 4 {
            notes.soft("version negotiation without a version");
        }
        if rest.len() % 4 != 0 {
            notes.soft("version negotiation with trailing bytes");
        }
        let versions = rest
            .chunks_exact(4)
            .map(|v| u32::from_be_bytes([v[0], v[1], v[2], v[3]]))
            .collect();
        return Ok(Header::VersionNegotiation {
            dcid,
            scid,
            versions,
        });
    }
    if first & 0x40 == 0 {
        notes.soft("fixed bit clear");
    }
    if dlen > 20 {
        notes.soft("dcid longer than 20");
    }
    if slen > 20 {
        notes.soft("scid longer than 20");
    }
    let ty = match (first >> 4) & 0x3 {
        0 => LongType::Initial,
        1 => LongType::ZeroRtt,
        2 => LongType::Handshake,
        _ => LongType::Retry,
    };
    if ty == LongType::Retry {
        if c.rest().len() < RETRY_TAG_LEN {
            return Err(WireError::Truncated);
        }
        if c.rest().len() == RETRY_TAG_LEN {
            notes.soft("retry with an empty token");
        }
        return Ok(Header::Long {
            ty,
            version,
            dcid,
            scid,
            token: c.rest().to_vec(),
            pn_offset: b.len(),
            packet_len: b.len(),
        });
    }
    let token = if ty == LongType::Initial {
        c.take_vi_len()?.to_vec()
    } else {
        Vec::new()
    };
    let length = c.vi()?;
    let pn_offset = c.pos;
    if length > (b.len() - c.pos) as u64 {
        return Err(WireError::Truncated);
    }
    Ok(Header::Long {
        ty,
        version,
        dcid,
        scid,
        token,
        pn_offset,
        packet_len: pn_offset + length as usize,
    })
}

/// Split a datagram into its coalesced packets (unprotected header view).
pub fn datagram(b: &[u8], short_dcid_len: usize) -> Vec<(usize, Res<Header>)> {
    let mut out = Vec::new();
    let mut off = 0;
    while off < b.len() {
        let h = header(&b[off..], short_dcid_len);
        let adv = match &h {
            Ok(Header::Long { packet_len, .. }) => *packet_len,
            _ => b.len() - off,
        };
        let bad = h.is_err();
        out.push((off, h));
        if bad || adv == 0 {
            break;
        }
        off += adv;
    }
    out
}

// ---------------------------------------------------------------------------
// Packet numbers: RFC 9000 appendix A.2 / A.3, transcribed.

/// A.3 DecodePacketNumber
pub fn pn_decode(largest_pn: Option<u64>, truncated_pn: u64, pn_nbits: u32) -> u64 {
    let expected_pn = largest_pn.map(|l| l + 1).unwrap_or(0);
    let pn_win = 1u64 << pn_nbits;
    let pn_hwin = pn_win / 2;
    let pn_mask = pn_win - 1;
    let candidate_pn = (expected_pn & !pn_mask) | truncated_pn;
    if candidate_pn.wrapping_add(pn_hwin) <= expected_pn && candidate_pn < (1u64 << 62) - pn_win {
        return candidate_pn + pn_win;
    }
    if candidate_pn > expected_pn.wrapping_add(pn_hwin) && candidate_pn >= pn_win {
        return candidate_pn - pn_win;
    }
    candidate_pn
}

/// A.2 EncodePacketNumber: minimum number of bytes the sender must use
pub fn pn_min_bytes(full_pn: u64, largest_acked: Option<u64>) -> u32 {
    let num_unacked = match largest_acked {
        None => full_pn + 1,
        Some(l) => full_pn - l,
    };
    // min_bits = log(num_unacked, 2) + 1 ; num_bytes = ceil(min_bits / 8)
    let ceil_log2 = if num_unacked <= 1 {
        0
    } else {
        64 - (num_unacked - 1).leading_zeros()
    };
    (ceil_log2 + 1).div_ceil(8).max(1)
}

#[cfg(test)]
mod tests {
    use super::*;

    #[test]
    fn rfc_examples() {
        // RFC 9000 A.1 examples
        assert_eq!(
            varint(&[0xc2, 0x19, 0x7c, 0x5e, 0xff, 0x14, 0xe8, 0x8c]).unwrap(),
            (151_288_809_941_952_652, 8)
        );
        assert_eq!(varint(&[0x9d, 0x7f, 0x3e, 0x7d]).unwrap(), (494_878_333, 4));
        assert_eq!(varint(&[0x7b, 0xbd]).unwrap(), (15_293, 2));
        assert_eq!(varint(&[0x25]).unwrap(), (37, 1));
        assert_eq!(varint(&[0x40, 0x25]).unwrap(), (37, 2));
        // A.3 example
        assert_eq!(pn_decode(Some(0xa82f30ea), 0x9b32, 16), 0xa82f9b32);
        // A.2 examples
        assert_eq!(pn_min_bytes(0xac5c02, Some(0xabe8b3)), 2);
        assert_eq!(pn_min_bytes(0xace8fe, Some(0xabe8b3)), 3);
        let mut v = vec![];
        put_varint(&mut v, 15293);
        assert_eq!(v, [0x7b, 0xbd]);
    }

    #[test]
    fn encoder_and_parser_agree() {
        let want = vec![
            Frame::Padding { len: 3 },
            Frame::Ping,
            Frame::Ack {
                largest: 100,
                delay: 16384,
                ranges: vec![(90, 100), (80, 88), (0, 0)],
                ecn: Some((1, 2, 1 << 30)),
            },
            Frame::Crypto {
                offset: 63,
                data: vec![1, 2, 3],
            },
            Frame::NewConnectionId {
                seq: 5,
                retire_prior_to: 2,
                cid: vec![9; 20],
                token: [7; 16],
            },
            Frame::ConnectionClose {
                transport: true,
                code: 0x0a,
                frame_type: Some(0x1e),
                reason: b"bye".to_vec(),
            },
            Frame::DcStatelessResetTokens {
                tokens: vec![[1; 16], [2; 16]],
            },
            Frame::MtuProbingComplete { mtu: 1500 },
            Frame::Stream {
                id: 4,
                offset: 1 << 14,
                data: vec![0xaa; 5],
                fin: true,
                has_len: false,
                has_off: true,
            },
        ];
        let mut b = Vec::new();
        for f in &want {
            put_frame(&mut b, f);
        }
        assert_eq!(frames(&b).unwrap(), want);
        // type 0x03 (ECN), largest 100 (2 bytes), delay 16384 (4 bytes), range count 2
        assert_eq!(&b[4..12], &[0x03, 0x40, 100, 0x80, 0, 0x40, 0, 2]);
        // the same frames with every field in its longest form parse to the same values
        let mut l = Vec::new();
        for f in &want {
            put_frame_with(&mut l, f, &mut |_| 8);
        }
        assert!(l.len() > b.len());
        assert_eq!(frames(&l).unwrap(), want);
    }

    #[test]
    fn lenient_notes() {
        // MAX_STREAMS 2^60 + 1
        let mut b = vec![0x12];
        put_varint(&mut b, (1 << 60) + 1);
        assert!(matches!(frames(&b), Err(WireError::Invalid(_))));
        let mut n = Notes::default();
        let f = frame_ex(&mut Cur::new(&b), &mut n).unwrap();
        assert_eq!(
            f,
            Frame::MaxStreams {
                bidi: true,
                max: (1 << 60) + 1
            }
        );
        assert!(n.soft.is_some() && !n.type_non_minimal);
        // PING with a two-byte frame type
        let mut n = Notes::default();
        assert_eq!(
            frame_ex(&mut Cur::new(&[0x40, 0x01]), &mut n),
            Ok(Frame::Ping)
        );
        assert!(n.type_non_minimal);
        // ACK whose first range reaches below zero stays a hard error
        assert!(frame_ex(&mut Cur::new(&[0x02, 1, 0, 0, 2]), &mut Notes::default()).is_err());
        // Retry needs room for the integrity tag
        let mut r = vec![0xf0, 0, 0, 0, 1, 0, 0];
        r.extend_from_slice(&[0; 15]);
        assert_eq!(header(&r, 0), Err(WireError::Truncated));
        r.push(0);
        let mut hn = HeaderNotes::default();
        assert!(header_ex(&r, 0, &mut hn).is_ok());
        assert_eq!(hn.soft, Some("retry with an empty token"));
    }
}
