//! Shared helpers for the /verif harness binaries: a tiny deterministic PRNG,
//! the position-keyed payload PRF, signature hashing and the per-shard summary
//! format every binary prints on stdout (one JSON object per line, prefix `SUMMARY `).

use std::collections::{BTreeMap, BTreeSet};

pub use serde_json::{json, Value};

/// SplitMix64 — deterministic, seedable, no dependencies.
#[derive(Clone, Debug)]
pub struct Rng(pub u64);

impl Rng {
    pub fn new(seed: u64) -> Self {
        Rng(seed ^ 0x9E37_79B9_7F4A_7C15)
    }
    #[inline]
    pub fn next(&mut self) -> u64 {
        self.0 = self.0.wrapping_add(0x9E37_79B9_7F4A_7C15);
        let mut z = self.0;
        z = (z ^ (z >> 30)).wrapping_mul(0xBF58_476D_1CE4_E5B9);
        z = (z ^ (z >> 27)).wrapping_mul(0x94D0_49BB_1331_11EB);
        z ^ (z >> 31)
    }
    /// uniform in [0, n) (n > 0)
    #[inline]
    pub fn below(&mut self, n: u64) -> u64 {
        debug_assert!(n > 0);
        self.next() % n
    }
    /// uniform in [lo, hi] inclusive
    #[inline]
    pub fn range(&mut self, lo: u64, hi: u64) -> u64 {
        debug_assert!(lo <= hi);
        if hi - lo == u64::MAX {
            return self.next();
        }
        lo + self.below(hi - lo + 1)
    }
    #[inline]
    pub fn chance(&mut self, num: u64, den: u64) -> bool {
        self.below(den) < num
    }
    #[inline]
    pub fn f64(&mut self) -> f64 {
        (self.next() >> 11) as f64 / (1u64 << 53) as f64
    }
    pub fn pick<'a, T>(&mut self, xs: &'a [T]) -> &'a T {
        &xs[self.below(xs.len() as u64) as usize]
    }
    pub fn fill(&mut self, buf: &mut [u8]) {
        for c in buf.chunks_mut(8) {
            let v = self.next().to_le_bytes();
            c.copy_from_slice(&v[..c.len()]);
        }
    }
    pub fn fork(&mut self) -> Rng {
        Rng::new(self.next())
    }
    pub fn shuffle<T>(&mut self, xs: &mut [T]) {
        for i in (1..xs.len()).rev() {
            let j = self.below(i as u64 + 1) as usize;
            xs.swap(i, j);
        }
    }
}

/// mix two words (used to derive sub-seeds and signatures)
#[inline]
pub fn mix(a: u64, b: u64) -> u64 {
    let mut z = a ^ b.wrapping_mul(0x9E37_79B9_7F4A_7C15).rotate_left(23);
    z = (z ^ (z >> 30)).wrapping_mul(0xBF58_476D_1CE4_E5B9);
    z = (z ^ (z >> 27)).wrapping_mul(0x94D0_49BB_1331_11EB);
    z ^ (z >> 31)
}

/// Position-keyed pseudo-random payload: byte at position `p` of stream keyed `key`.
/// Not 256-periodic: any displaced / duplicated / lost range shows up.
#[inline]
pub fn prf_byte(key: u64, p: u64) -> u8 {
    let w = mix(key, p >> 3);
    (w >> ((p & 7) * 8)) as u8
}

pub fn prf_fill(key: u64, pos: u64, out: &mut [u8]) {
    for (i, b) in out.iter_mut().enumerate() {
        *b = prf_byte(key, pos + i as u64);
    }
}

pub fn prf_vec(key: u64, pos: u64, len: usize) -> Vec<u8> {
    let mut v = vec![0u8; len];
    prf_fill(key, pos, &mut v);
    v
}

/// first mismatching index between `got` and the PRF stream at `pos`
pub fn prf_check(key: u64, pos: u64, got: &[u8]) -> Option<usize> {
    got.iter()
        .enumerate()
        .find(|(i, b)| **b != prf_byte(key, pos + *i as u64))
        .map(|(i, _)| i)
}

pub fn fnv(bytes: &[u8]) -> u64 {
    let mut h: u64 = 0xcbf29ce484222325;
    for b in bytes {
        h ^= *b as u64;
        h = h.wrapping_mul(0x100000001b3);
    }
    h
}

pub fn hash_str(s: &str) -> u64 {
    fnv(s.as_bytes())
}

/// A violation found by a monitor.
#[derive(Clone, Debug)]
pub struct Violation {
    /// property id (C01 …)
    pub property: String,
    /// stable machine-readable signature (used to match known findings)
    pub signature: String,
    /// human-readable description
    pub what: String,
    /// everything needed to replay: seed, params, witness window
    pub replay: Value,
}

/// Per-shard summary printed as one `SUMMARY {json}` line.
#[derive(Default, Debug)]
pub struct Summary {
    pub evaluations: u64,
    /// signatures of non-trivial executions (distinct ones are counted by the driver)
    pub signatures: BTreeSet<u64>,
    pub trivial: u64,
    pub counters: BTreeMap<String, u64>,
    pub maxima: BTreeMap<String, i64>,
    pub minima: BTreeMap<String, i64>,
    pub sets: BTreeMap<String, BTreeSet<String>>,
    pub samples: Vec<Value>,
    pub violations: Vec<Violation>,
    pub inconclusive: Vec<String>,
}

impl Summary {
    pub fn count(&mut self, k: &str, n: u64) {
        *self.counters.entry(k.to_string()).or_insert(0) += n;
    }
    pub fn max(&mut self, k: &str, v: i64) {
        let e = self.maxima.entry(k.to_string()).or_insert(i64::MIN);
        if v > *e {
            *e = v;
        }
    }
    pub fn min(&mut self, k: &str, v: i64) {
        let e = self.minima.entry(k.to_string()).or_insert(i64::MAX);
        if v < *e {
            *e = v;
        }
    }
    pub fn set(&mut self, k: &str, v: impl Into<String>) {
        let s = self.sets.entry(k.to_string()).or_default();
        if s.len() < 256 {
            s.insert(v.into());
        }
    }
    pub fn sample(&mut self, v: Value) {
        if self.samples.len() < 6 {
            self.samples.push(v);
        }
    }
    pub fn violation(&mut self, v: Violation) {
        if self.violations.len() < 64 {
            self.violations.push(v);
        } else {
            self.count("violations_truncated", 1);
        }
    }
    pub fn merge(&mut self, o: Summary) {
        self.evaluations += o.evaluations;
        self.trivial += o.trivial;
        self.signatures.extend(o.signatures);
        for (k, v) in o.counters {
            *self.counters.entry(k).or_insert(0) += v;
        }
        for (k, v) in o.maxima {
            self.max(&k, v);
        }
        for (k, v) in o.minima {
            self.min(&k, v);
        }
        for (k, v) in o.sets {
            let s = self.sets.entry(k).or_default();
            for x in v {
                if s.len() < 256 {
                    s.insert(x);
                }
            }
        }
        for s in o.samples {
            self.sample(s);
        }
        for v in o.violations {
            self.violation(v);
        }
        self.inconclusive.extend(o.inconclusive);
    }
    pub fn to_json(&self) -> Value {
        json!({
            "evaluations": self.evaluations,
            "trivial": self.trivial,
            "signatures": self.signatures.iter().map(|s| format!("{s:016x}")).collect::<Vec<_>>(),
            "counters": self.counters,
            "maxima": self.maxima,
            "minima": self.minima,
            "sets": self.sets,
            "samples": self.samples,
            "inconclusive": self.inconclusive,
            "violations": self.violations.iter().map(|v| json!({
                "property": v.property, "signature": v.signature, "what": v.what, "replay": v.replay,
            })).collect::<Vec<_>>(),
        })
    }
    pub fn print(&self) {
        println!("SUMMARY {}", self.to_json());
    }
}

/// Parse `--key value` / `--flag` command lines into a map (tiny, no deps).
pub fn parse_args() -> BTreeMap<String, String> {
    parse_args_from(std::env::args().skip(1).collect())
}

pub fn parse_args_from(args: Vec<String>) -> BTreeMap<String, String> {
    let mut m = BTreeMap::new();
    let mut i = 0;
    let mut pos = 0;
    while i < args.len() {
        let a = &args[i];
        if let Some(k) = a.strip_prefix("--") {
            if let Some((k, v)) = k.split_once('=') {
                m.insert(k.to_string(), v.to_string());
            } else if i + 1 < args.len() && !args[i + 1].starts_with("--") {
                m.insert(k.to_string(), args[i + 1].clone());
                i += 1;
            } else {
                m.insert(k.to_string(), "1".to_string());
            }
        } else {
            m.insert(format!("_{pos}"), a.clone());
            pos += 1;
        }
        i += 1;
    }
    m
}

pub fn arg_u64(m: &BTreeMap<String, String>, k: &str, d: u64) -> u64 {
    m.get(k).and_then(|v| v.parse().ok()).unwrap_or(d)
}

pub fn arg_str<'a>(m: &'a BTreeMap<String, String>, k: &str, d: &'a str) -> &'a str {
    m.get(k).map(|s| s.as_str()).unwrap_or(d)
}
