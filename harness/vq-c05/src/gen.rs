//! Grammar-based, boundary-biased input generators (reference side only: nothing in here
//! calls s2n code).

use vq_util::Rng;
use vq_wire::{Frame, VARINT_MAX};

/// Boundary values of the QUIC varint encoding and of the value constraints in RFC 9000.
pub const EDGES: &[u64] = &[
    0,
    1,
    2,
    (1 << 6) - 2,
    (1 << 6) - 1,
    1 << 6,
    (1 << 6) + 1,
    (1 << 14) - 2,
    (1 << 14) - 1,
    1 << 14,
    (1 << 14) + 1,
    (1 << 30) - 2,
    (1 << 30) - 1,
    1 << 30,
    (1 << 30) + 1,
    (1 << 60) - 1,
    1 << 60,
    (1 << 60) + 1,
    (1 << 62) - 2,
    (1 << 62) - 1,
];

/// index into EDGES of the closest edge if `v` is one, for the evidence counters
pub fn edge_index(v: u64) -> Option<usize> {
    EDGES.iter().position(|e| *e == v)
}

/// Per-input bookkeeping of what the generator did (feeds signatures and counters).
#[derive(Default, Clone, Debug)]
pub struct Trace {
    /// bit i set: EDGES[i] was used as a field value
    pub edges: u32,
    /// some varint was written in a longer than necessary form
    pub non_minimal: bool,
    /// deliberately violates a value constraint / structural rule (tag for the counters)
    pub spice: Option<&'static str>,
}

pub struct Gen<'a> {
    pub rng: &'a mut Rng,
    pub trace: Trace,
    /// cap on opaque payload sizes (kept tiny under Miri)
    pub max_data: usize,
}

impl<'a> Gen<'a> {
    pub fn new(rng: &'a mut Rng, max_data: usize) -> Self {
        Gen {
            rng,
            trace: Trace::default(),
            max_data,
        }
    }

    /// boundary-biased value in [0, 2^62)
    pub fn v62(&mut self) -> u64 {
        self.v_below(VARINT_MAX)
    }

    /// boundary-biased value in [0, max]
    pub fn v_below(&mut self, max: u64) -> u64 {
        match self.rng.below(10) {
            0..=4 => {
                for _ in 0..4 {
                    let i = self.rng.below(EDGES.len() as u64) as usize;
                    if EDGES[i] <= max {
                        self.trace.edges |= 1 << i;
                        return EDGES[i];
                    }
                }
                max
            }
            5 => max - self.rng.below(3).min(max),
            6 => self.rng.below(256).min(max),
            _ => {
                let bits = self.rng.range(1, 62);
                (self.rng.next() >> (64 - bits)).min(max)
            }
        }
    }

    pub fn bytes(&mut self, n: usize) -> Vec<u8> {
        let mut v = vec![0u8; n];
        self.rng.fill(&mut v);
        v
    }

    /// opaque data with a length biased to 0, 1, the varint edge 63/64 and the cap
    pub fn data(&mut self) -> Vec<u8> {
        let cap = self.max_data;
        let n = match self.rng.below(8) {
            0 => 0,
            1 => 1,
            2 => 63.min(cap),
            3 => 64.min(cap),
            4 => cap,
            _ => self.rng.below(cap as u64 + 1) as usize,
        };
        self.bytes(n)
    }

    pub fn cid(&mut self) -> Vec<u8> {
        let n = match self.rng.below(8) {
            0 => 1,
            1 => 20,
            2 => 8,
            _ => self.rng.range(1, 20),
        };
        self.bytes(n as usize)
    }

    /// a valid ACK range list: descending, inclusive, separated by at least one missing pn
    fn ack_ranges(&mut self, largest: u64) -> Vec<(u64, u64)> {
        let count = match self.rng.below(10) {
            0..=3 => 0,
            4..=7 => self.rng.range(1, 4),
            8 => self.rng.range(5, 40),
            _ => 63,
        };
        let first = match self.rng.below(4) {
            0 => 0,
            1 => largest,
            _ => self.v_below(largest),
        };
        let mut smallest = largest - first;
        let mut out = vec![(smallest, largest)];
        for _ in 0..count {
            if smallest < 2 {
                break;
            }
            let room = smallest - 2;
            let gap = match self.rng.below(4) {
                0 => 0,
                1 => room,
                2 => self.v_below(room),
                _ => self.rng.below(room.min(300) + 1),
            };
            let hi = smallest - gap - 2;
            let len = match self.rng.below(4) {
                0 => 0,
                1 => hi,
                2 => self.v_below(hi),
                _ => self.rng.below(hi.min(300) + 1),
            };
            out.push((hi - len, hi));
            smallest = hi - len;
        }
        out
    }

    pub const KINDS: usize = 23;

    /// A frame that satisfies every RFC 9000 section 19 constraint (`kind` selects the type).
    pub fn frame(&mut self, kind: usize, last: bool) -> Frame {
        match kind {
            0 => Frame::Padding {
                len: self.rng.range(1, 12) as usize,
            },
            1 => Frame::Ping,
            2 => {
                let largest = self.v62();
                let ranges = self.ack_ranges(largest);
                Frame::Ack {
                    largest,
                    delay: self.v62(),
                    ranges,
                    ecn: if self.rng.chance(1, 2) {
                        Some((self.v62(), self.v62(), self.v62()))
                    } else {
                        None
                    },
                }
            }
            3 => Frame::ResetStream {
                id: self.v62(),
                code: self.v62(),
                final_size: self.v62(),
            },
            4 => Frame::StopSending {
                id: self.v62(),
                code: self.v62(),
            },
            5 => {
                let data = self.data();
                Frame::Crypto {
                    offset: self.v_below(VARINT_MAX - data.len() as u64),
                    data,
                }
            }
            6 => {
                let mut token = self.data();
                if token.is_empty() {
                    token.push(self.rng.next() as u8);
                }
                Frame::NewToken { token }
            }
            7 => {
                let data = self.data();
                let has_off = self.rng.chance(2, 3);
                let offset = if has_off {
                    self.v_below(VARINT_MAX - data.len() as u64)
                } else {
                    0
                };
                Frame::Stream {
                    id: self.v62(),
                    offset,
                    data,
                    fin: self.rng.chance(1, 2),
                    has_len: !last || self.rng.chance(1, 2),
                    has_off,
                }
            }
            8 => Frame::MaxData { max: self.v62() },
            9 => Frame::MaxStreamData {
                id: self.v62(),
                max: self.v62(),
            },
            10 => Frame::MaxStreams {
                bidi: self.rng.chance(1, 2),
                max: self.v_below(1 << 60),
            },
            11 => Frame::DataBlocked { limit: self.v62() },
            12 => Frame::StreamDataBlocked {
                id: self.v62(),
                limit: self.v62(),
            },
            13 => Frame::StreamsBlocked {
                bidi: self.rng.chance(1, 2),
                limit: self.v_below(1 << 60),
            },
            14 => {
                let seq = self.v62();
                let mut token = [0u8; 16];
                self.rng.fill(&mut token);
                Frame::NewConnectionId {
                    seq,
                    retire_prior_to: match self.rng.below(3) {
                        0 => seq,
                        1 => 0,
                        _ => self.v_below(seq),
                    },
                    cid: self.cid(),
                    token,
                }
            }
            15 => Frame::RetireConnectionId { seq: self.v62() },
            16 | 17 => {
                let mut data = [0u8; 8];
                self.rng.fill(&mut data);
                if kind == 16 {
                    Frame::PathChallenge { data }
                } else {
                    Frame::PathResponse { data }
                }
            }
            18 => {
                let transport = self.rng.chance(1, 2);
                Frame::ConnectionClose {
                    transport,
                    code: self.v62(),
                    frame_type: if transport { Some(self.v62()) } else { None },
                    reason: self.data(),
                }
            }
            19 => Frame::HandshakeDone,
            20 => Frame::Datagram {
                data: self.data(),
                has_len: !last || self.rng.chance(1, 2),
            },
            21 => {
                let n = match self.rng.below(4) {
                    0 => 1,
                    1 => 4,
                    _ => self.rng.range(1, 6),
                };
                Frame::DcStatelessResetTokens {
                    tokens: (0..n)
                        .map(|_| {
                            let mut t = [0u8; 16];
                            self.rng.fill(&mut t);
                            t
                        })
                        .collect(),
                }
            }
            _ => Frame::MtuProbingComplete {
                mtu: *self.rng.pick(&[0u16, 1, 1199, 1200, 1500, 9000, 65535]),
            },
        }
    }

    /// Make `f` break exactly one value constraint (returns false if this frame type has none).
    pub fn spice(&mut self, f: &mut Frame) -> bool {
        let tag: &'static str;
        match f {
            Frame::Crypto { offset, data } if !data.is_empty() => {
                *offset = VARINT_MAX - self.rng.below(data.len() as u64);
                tag = "crypto-offset-overflow";
            }
            Frame::Stream {
                offset,
                data,
                has_off,
                ..
            } if !data.is_empty() => {
                *has_off = true;
                *offset = VARINT_MAX - self.rng.below(data.len() as u64);
                tag = "stream-offset-overflow";
            }
            Frame::NewToken { token } => {
                token.clear();
                tag = "empty-new-token";
            }
            Frame::MaxStreams { max, .. } => {
                *max = *self.rng.pick(&[(1u64 << 60) + 1, (1 << 61), VARINT_MAX]);
                tag = "max-streams-above-2^60";
            }
            Frame::StreamsBlocked { limit, .. } => {
                *limit = *self.rng.pick(&[(1u64 << 60) + 1, (1 << 61), VARINT_MAX]);
                tag = "streams-blocked-above-2^60";
            }
            Frame::NewConnectionId {
                seq,
                retire_prior_to,
                cid,
                ..
            } => {
                if self.rng.chance(1, 2) {
                    let n = *self.rng.pick(&[0usize, 21, 22, 255]);
                    *cid = self.bytes(n);
                    tag = "ncid-length";
                } else {
                    if *seq == VARINT_MAX {
                        *seq -= 1;
                    }
                    *retire_prior_to = *seq + 1 + self.rng.below(2).min(VARINT_MAX - *seq - 1);
                    tag = "ncid-retire-above-seq";
                }
            }
            Frame::DcStatelessResetTokens { tokens } => {
                tokens.clear();
                tag = "dc-zero-tokens";
            }
            _ => return false,
        }
        self.trace.spice = Some(tag);
        true
    }

    /// Encode with random (sometimes non-minimal) varint lengths.
    pub fn encode(&mut self, f: &Frame, out: &mut Vec<u8>, non_minimal_chance: u64) {
        let rng = &mut *self.rng;
        let mut nm = false;
        vq_wire::put_frame_with(out, f, &mut |v| {
            let min = vq_wire::varint_len(v);
            if non_minimal_chance > 0 && rng.below(100) < non_minimal_chance {
                let opts: &[usize] = match min {
                    1 => &[2, 4, 8],
                    2 => &[4, 8],
                    4 => &[8],
                    _ => &[8],
                };
                let l = *rng.pick(opts);
                if l != min {
                    nm = true;
                }
                l
            } else {
                min
            }
        });
        self.trace.non_minimal |= nm;
    }
}

pub const MUTATIONS: &[&str] = &[
    "set-byte",
    "set-bytes-2-4",
    "truncate",
    "extend",
    "flip-bit",
    "edge-byte",
    "insert",
    "delete",
    "dup-chunk",
];

const EDGE_BYTES: &[u8] = &[
    0x00, 0x01, 0x3f, 0x40, 0x7f, 0x80, 0xbf, 0xc0, 0xff, 0x14, 0x15,
];

/// Apply one mutation; returns its index into MUTATIONS.
pub fn mutate(rng: &mut Rng, b: &mut Vec<u8>) -> usize {
    let kind = rng.below(MUTATIONS.len() as u64) as usize;
    if b.is_empty() {
        b.push(rng.next() as u8);
        return 3;
    }
    let n = b.len() as u64;
    match kind {
        0 => {
            let i = rng.below(n) as usize;
            b[i] = rng.next() as u8;
        }
        1 => {
            for _ in 0..rng.range(2, 4) {
                let i = rng.below(n) as usize;
                b[i] = rng.next() as u8;
            }
        }
        2 => {
            let keep = rng.below(n) as usize;
            b.truncate(keep);
        }
        3 => {
            for _ in 0..rng.range(1, 8) {
                b.push(if rng.chance(1, 3) {
                    0
                } else {
                    rng.next() as u8
                });
            }
        }
        4 => {
            let i = rng.below(n) as usize;
            b[i] ^= 1 << rng.below(8);
        }
        5 => {
            let i = rng.below(n) as usize;
            b[i] = *rng.pick(EDGE_BYTES);
        }
        6 => {
            let i = rng.below(n + 1) as usize;
            b.insert(i, rng.next() as u8);
        }
        7 => {
            let i = rng.below(n) as usize;
            b.remove(i);
        }
        _ => {
            let i = rng.below(n) as usize;
            let l = rng.range(1, 8).min(n - i as u64) as usize;
            let chunk = b[i..i + l].to_vec();
            let at = rng.below(n + 1) as usize;
            for (k, x) in chunk.into_iter().enumerate() {
                b.insert(at + k, x);
            }
        }
    }
    kind
}

/// Uniformly random bytes whose first byte is biased towards something that starts a frame.
pub fn random_frame_bytes(rng: &mut Rng, max: usize) -> Vec<u8> {
    let n = rng.range(0, max as u64) as usize;
    let mut v = vec![0u8; n];
    rng.fill(&mut v);
    if n > 0 && rng.chance(3, 4) {
        v[0] = match rng.below(8) {
            0 => 0x30 + rng.below(2) as u8,
            1 => 0x80, // start of a 4-byte frame type
            _ => rng.below(0x1f) as u8,
        };
        if v[0] == 0x80 && n >= 4 {
            v[1] = 0xdc;
            v[2] = 0;
            v[3] = *rng.pick(&[0u8, 2, 1]);
        }
    }
    v
}

// ---------------------------------------------------------------------------------------
// packet headers (bytes are assembled by hand from RFC 9000 section 17)

#[derive(Clone, Debug)]
pub struct HeaderInput {
    pub bytes: Vec<u8>,
    pub short_dcid_len: usize,
    pub largest: u64,
    /// which generator produced it (for signatures)
    pub shape: &'static str,
}

fn cid_len(rng: &mut Rng) -> usize {
    match rng.below(12) {
        0 => 0,
        1 => 20,
        2 => 21,
        3 => 255,
        4 => 4,
        _ => rng.range(0, 20) as usize,
    }
}

fn put_vi(rng: &mut Rng, out: &mut Vec<u8>, v: u64) {
    let min = vq_wire::varint_len(v);
    let l = if rng.chance(1, 5) {
        *rng.pick(&[min, 8, 4.max(min)])
    } else {
        min
    };
    vq_wire::put_varint_len(out, v, l);
}

/// One long-header packet; `room` is how the Length field relates to the bytes that follow.
fn long_packet(rng: &mut Rng, out: &mut Vec<u8>, ty: u8, last: bool) {
    let fixed = if rng.chance(1, 16) { 0 } else { 0x40 };
    let low = if rng.chance(3, 4) {
        rng.below(4) as u8 // reserved bits clear
    } else {
        rng.below(16) as u8
    };
    out.push(0x80 | fixed | ty << 4 | low);
    let version = match rng.below(8) {
        0 => 0xff00_001d,
        1 => rng.next() as u32 | 1,
        2 => 0x6b33_43cf,
        _ => 1,
    };
    out.extend_from_slice(&version.to_be_bytes());
    for _ in 0..2 {
        let n = cid_len(rng);
        out.push(n as u8);
        let mut c = vec![0u8; n];
        rng.fill(&mut c);
        out.extend_from_slice(&c);
    }
    if ty == 3 {
        // Retry: token + 16 byte tag, runs to the end of the datagram
        let n = match rng.below(6) {
            0 => 0,
            1 => 15,
            2 => 16,
            3 => 17,
            _ => rng.range(17, 60) as usize,
        };
        let mut c = vec![0u8; n];
        rng.fill(&mut c);
        out.extend_from_slice(&c);
        return;
    }
    if ty == 0 {
        let n = match rng.below(6) {
            0 | 1 => 0,
            2 => 63,
            3 => 64,
            _ => rng.range(1, 40) as usize,
        };
        put_vi(rng, out, n as u64);
        let mut c = vec![0u8; n];
        rng.fill(&mut c);
        out.extend_from_slice(&c);
    }
    let body = match rng.below(10) {
        0 => 0,
        1 => 3,
        2 => 4,
        3 => 5,
        4 => 63,
        5 => 64,
        _ => rng.range(4, 80) as usize,
    };
    let claimed = if rng.chance(1, 10) {
        // Length lies: longer than what follows (only meaningful for the last packet)
        body as u64 + *rng.pick(&[1u64, 2, 1 << 14, 1 << 30, (1 << 62) - 1 - body as u64])
    } else {
        body as u64
    };
    put_vi(rng, out, if last { claimed } else { body as u64 });
    let mut c = vec![0u8; body];
    rng.fill(&mut c);
    out.extend_from_slice(&c);
}

pub fn header_input(rng: &mut Rng) -> HeaderInput {
    let short_dcid_len = *rng.pick(&[0usize, 4, 8, 16, 20]);
    let largest = match rng.below(4) {
        0 => 0,
        1 => (1 << 62) - 1,
        2 => rng.next() >> 2,
        _ => rng.below(1 << 20),
    };
    let mut bytes = Vec::new();
    let shape;
    match rng.below(10) {
        0 => {
            shape = "random";
            let n = rng.range(0, 80) as usize;
            bytes = vec![0u8; n];
            rng.fill(&mut bytes);
        }
        1 | 2 => {
            shape = "short";
            let fixed = if rng.chance(1, 16) { 0 } else { 0x40 };
            let low = if rng.chance(3, 4) {
                rng.below(8) as u8 & 0x27 // reserved bits clear
            } else {
                rng.below(64) as u8
            };
            bytes.push(fixed | low);
            let n = short_dcid_len + rng.range(0, 40) as usize;
            let mut c = vec![0u8; n.saturating_sub(rng.below(3) as usize * 3)];
            rng.fill(&mut c);
            bytes.extend_from_slice(&c);
        }
        3 => {
            shape = "version-negotiation";
            bytes.push(0x80 | rng.below(128) as u8);
            bytes.extend_from_slice(&[0, 0, 0, 0]);
            for _ in 0..2 {
                let n = cid_len(rng);
                bytes.push(n as u8);
                let mut c = vec![0u8; n];
                rng.fill(&mut c);
                bytes.extend_from_slice(&c);
            }
            let n = *rng.pick(&[0usize, 3, 4, 5, 8, 12, 16, 7]);
            let mut c = vec![0u8; n];
            rng.fill(&mut c);
            bytes.extend_from_slice(&c);
        }
        4 => {
            shape = "retry";
            long_packet(rng, &mut bytes, 3, true);
        }
        5..=7 => {
            shape = "long";
            let ty = rng.below(3) as u8;
            long_packet(rng, &mut bytes, ty, true);
        }
        _ => {
            shape = "coalesced";
            let n = rng.range(2, 4);
            for i in 0..n {
                let ty = rng.below(3) as u8;
                long_packet(rng, &mut bytes, ty, false);
                let _ = i;
            }
            if rng.chance(1, 2) {
                bytes.push(0x40 | rng.below(8) as u8 & 0x27);
                let mut c = vec![0u8; short_dcid_len + rng.range(4, 30) as usize];
                rng.fill(&mut c);
                bytes.extend_from_slice(&c);
            }
        }
    }
    HeaderInput {
        bytes,
        short_dcid_len,
        largest,
        shape,
    }
}
