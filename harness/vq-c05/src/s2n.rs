//! Adapters around the code under test: every call into s2n-codec / s2n-quic-core made by
//! this crate goes through this module, wrapped in `catch_unwind`, and comes back as plain
//! data (`vq_wire` types, byte vectors) so that the comparison code never touches s2n types.

use s2n_codec::{DecoderBuffer, DecoderBufferMut, Encoder, EncoderBuffer, EncoderValue};
use s2n_quic_core::{
    connection::id::ConnectionInfo,
    crypto::key::testing as nullcrypto,
    frame::{self, FrameMut},
    inet::SocketAddress,
    packet::{
        encoding::PacketEncoder,
        number::{PacketNumber, PacketNumberSpace},
        ProtectedPacket,
    },
    stream::StreamType,
    transport::parameters::{ClientTransportParameters, ServerTransportParameters},
    varint::VarInt,
};
use std::{
    cell::RefCell,
    ops::RangeInclusive,
    panic::{catch_unwind, AssertUnwindSafe},
};
use vq_wire::Frame;

thread_local! {
    static LAST_PANIC: RefCell<Option<String>> = const { RefCell::new(None) };
}

/// Install a panic hook that records `message @ file:line` instead of printing it.
pub fn install_panic_hook() {
    std::panic::set_hook(Box::new(|info| {
        let msg = if let Some(s) = info.payload().downcast_ref::<&str>() {
            (*s).to_string()
        } else if let Some(s) = info.payload().downcast_ref::<String>() {
            s.clone()
        } else {
            "<non-string panic>".to_string()
        };
        let loc = info
            .location()
            .map(|l| format!("{}:{}", l.file(), l.line()))
            .unwrap_or_default();
        LAST_PANIC.with(|p| *p.borrow_mut() = Some(format!("{msg} @ {loc}")));
    }));
}

/// A panic inside the library under test.
#[derive(Debug, Clone)]
pub struct Panicked(pub String);

/// Run `f`, turning a panic into `Err(Panicked(message @ location))`.
pub fn guarded<T>(f: impl FnOnce() -> T) -> Result<T, Panicked> {
    match catch_unwind(AssertUnwindSafe(f)) {
        Ok(v) => Ok(v),
        Err(_) => Err(Panicked(
            LAST_PANIC
                .with(|p| p.borrow_mut().take())
                .unwrap_or_else(|| "<unknown panic>".into()),
        )),
    }
}

/// `true` if the panic message comes from a file of the library under test (as opposed to
/// this harness' own bookkeeping).
pub fn panic_in_library(msg: &str) -> bool {
    msg.contains("/repo/") || msg.contains("s2n-quic-core") || msg.contains("s2n-codec")
}

// ---------------------------------------------------------------------------------------
// varint

pub struct VarintDecoded {
    pub value: u64,
    pub consumed: usize,
}

pub fn varint_decode(b: &[u8]) -> Result<Option<VarintDecoded>, Panicked> {
    guarded(|| match DecoderBuffer::new(b).decode::<VarInt>() {
        Ok((v, rest)) => Some(VarintDecoded {
            value: v.as_u64(),
            consumed: b.len() - rest.len(),
        }),
        Err(_) => None,
    })
}

pub struct Encoded {
    /// `EncoderValue::encoding_size()` announced before encoding
    pub announced: usize,
    /// bytes actually written (into a buffer with slack)
    pub bytes: Vec<u8>,
    /// the same value encoded into a buffer of exactly `announced` bytes (only attempted when
    /// `bytes.len() == announced`); `false` if it differs from `bytes` or the guard bytes behind
    /// the slice were touched
    pub exact_fit_ok: bool,
}

const CANARY: u8 = 0xa5;

fn encode_value<T: EncoderValue>(v: &T) -> Encoded {
    encode_value_announced(v, v.encoding_size())
}

/// `encoding_size()` of the concrete frame struct inside the `Frame` enum: that is what the
/// transmission code asks before it writes a frame (the enum itself falls back to the
/// estimator-based default and would hide a wrong hand-written size).
fn inner_size<A: frame::ack::AckRanges, D: EncoderValue>(f: &frame::Frame<'_, A, D>) -> usize {
    use frame::Frame as F;
    match f {
        F::Padding(x) => x.encoding_size(),
        F::Ping(x) => x.encoding_size(),
        F::Ack(x) => x.encoding_size(),
        F::ResetStream(x) => x.encoding_size(),
        F::StopSending(x) => x.encoding_size(),
        F::Crypto(x) => x.encoding_size(),
        F::NewToken(x) => x.encoding_size(),
        F::Stream(x) => x.encoding_size(),
        F::MaxData(x) => x.encoding_size(),
        F::MaxStreamData(x) => x.encoding_size(),
        F::MaxStreams(x) => x.encoding_size(),
        F::DataBlocked(x) => x.encoding_size(),
        F::StreamDataBlocked(x) => x.encoding_size(),
        F::StreamsBlocked(x) => x.encoding_size(),
        F::NewConnectionId(x) => x.encoding_size(),
        F::RetireConnectionId(x) => x.encoding_size(),
        F::PathChallenge(x) => x.encoding_size(),
        F::PathResponse(x) => x.encoding_size(),
        F::ConnectionClose(x) => x.encoding_size(),
        F::HandshakeDone(x) => x.encoding_size(),
        F::Datagram(x) => x.encoding_size(),
        F::DcStatelessResetTokens(x) => x.encoding_size(),
        F::MtuProbingComplete(x) => x.encoding_size(),
    }
}

fn encode_frame<A: frame::ack::AckRanges, D: EncoderValue>(f: &frame::Frame<'_, A, D>) -> Encoded {
    let inner = inner_size(f);
    let outer = f.encoding_size();
    let mut e = encode_value_announced(f, inner);
    if e.announced == e.bytes.len() && outer != e.bytes.len() {
        e.announced = outer;
    }
    e
}

fn encode_value_announced<T: EncoderValue>(v: &T, announced: usize) -> Encoded {
    // 16 bytes of slack: an encoder that writes more than it announced must not run off
    // the buffer (EncoderBuffer only debug-asserts its capacity)
    let mut buf = vec![CANARY; announced + 64];
    let written = {
        let mut e = EncoderBuffer::new(&mut buf[..announced + 32]);
        v.encode(&mut e);
        e.len()
    };
    let tail_ok = buf[announced + 32..].iter().all(|b| *b == CANARY);
    let bytes = buf[..written].to_vec();
    let mut exact_fit_ok = tail_ok;
    if written == announced {
        let mut buf2 = vec![CANARY; announced + 16];
        let w2 = {
            let mut e = EncoderBuffer::new(&mut buf2[..announced]);
            v.encode(&mut e);
            e.len()
        };
        exact_fit_ok &= w2 == announced
            && buf2[..announced] == bytes[..]
            && buf2[announced..].iter().all(|b| *b == CANARY);
    }
    Encoded {
        announced,
        bytes,
        exact_fit_ok,
    }
}

/// `VarInt::new(v)` then encode. `Ok(None)`: the constructor refused the value.
pub fn varint_encode(v: u64) -> Result<Option<Encoded>, Panicked> {
    guarded(|| VarInt::new(v).ok().map(|v| encode_value(&v)))
}

// ---------------------------------------------------------------------------------------
// frames

fn vi(v: u64) -> VarInt {
    VarInt::new(v).expect("generator keeps values below 2^62")
}

fn stream_type(bidi: bool) -> StreamType {
    if bidi {
        StreamType::Bidirectional
    } else {
        StreamType::Unidirectional
    }
}

/// Copy every field of a decoded s2n frame into the reference representation.
fn view(f: FrameMut) -> Frame {
    use frame::Frame as F;
    match f {
        F::Padding(p) => Frame::Padding { len: p.length },
        F::Ping(_) => Frame::Ping,
        F::Ack(a) => Frame::Ack {
            largest: a.largest_acknowledged().as_u64(),
            delay: a.ack_delay.as_u64(),
            ranges: a
                .ack_ranges()
                .map(|r| (r.start().as_u64(), r.end().as_u64()))
                .collect(),
            ecn: a.ecn_counts.map(|e| {
                (
                    e.ect_0_count.as_u64(),
                    e.ect_1_count.as_u64(),
                    e.ce_count.as_u64(),
                )
            }),
        },
        F::ResetStream(r) => Frame::ResetStream {
            id: r.stream_id.as_u64(),
            code: r.application_error_code.as_u64(),
            final_size: r.final_size.as_u64(),
        },
        F::StopSending(s) => Frame::StopSending {
            id: s.stream_id.as_u64(),
            code: s.application_error_code.as_u64(),
        },
        F::Crypto(c) => Frame::Crypto {
            offset: c.offset.as_u64(),
            data: c.data.as_less_safe_slice().to_vec(),
        },
        F::NewToken(t) => Frame::NewToken {
            token: t.token.to_vec(),
        },
        F::Stream(s) => Frame::Stream {
            id: s.stream_id.as_u64(),
            offset: s.offset.as_u64(),
            data: s.data.as_less_safe_slice().to_vec(),
            fin: s.is_fin,
            has_len: !s.is_last_frame,
            // not retained by s2n; normalised on both sides before comparing
            has_off: s.offset.as_u64() != 0,
        },
        F::MaxData(m) => Frame::MaxData {
            max: m.maximum_data.as_u64(),
        },
        F::MaxStreamData(m) => Frame::MaxStreamData {
            id: m.stream_id.as_u64(),
            max: m.maximum_stream_data.as_u64(),
        },
        F::MaxStreams(m) => Frame::MaxStreams {
            bidi: m.stream_type == StreamType::Bidirectional,
            max: m.maximum_streams.as_u64(),
        },
        F::DataBlocked(d) => Frame::DataBlocked {
            limit: d.data_limit.as_u64(),
        },
        F::StreamDataBlocked(d) => Frame::StreamDataBlocked {
            id: d.stream_id.as_u64(),
            limit: d.stream_data_limit.as_u64(),
        },
        F::StreamsBlocked(s) => Frame::StreamsBlocked {
            bidi: s.stream_type == StreamType::Bidirectional,
            limit: s.stream_limit.as_u64(),
        },
        F::NewConnectionId(n) => Frame::NewConnectionId {
            seq: n.sequence_number.as_u64(),
            retire_prior_to: n.retire_prior_to.as_u64(),
            cid: n.connection_id.to_vec(),
            token: *n.stateless_reset_token,
        },
        F::RetireConnectionId(r) => Frame::RetireConnectionId {
            seq: r.sequence_number.as_u64(),
        },
        F::PathChallenge(p) => Frame::PathChallenge { data: *p.data },
        F::PathResponse(p) => Frame::PathResponse { data: *p.data },
        F::ConnectionClose(c) => Frame::ConnectionClose {
            transport: c.frame_type.is_some(),
            code: c.error_code.as_u64(),
            frame_type: c.frame_type.map(|t| t.as_u64()),
            reason: c.reason.map(|r| r.to_vec()).unwrap_or_default(),
        },
        F::HandshakeDone(_) => Frame::HandshakeDone,
        F::Datagram(d) => Frame::Datagram {
            data: d.data.as_less_safe_slice().to_vec(),
            has_len: !d.is_last_frame,
        },
        F::DcStatelessResetTokens(t) => Frame::DcStatelessResetTokens {
            tokens: t.into_iter().map(|t| t.into_inner()).collect(),
        },
        F::MtuProbingComplete(m) => Frame::MtuProbingComplete { mtu: m.mtu },
    }
}

pub struct DecodedFrame {
    pub frame: Frame,
    /// offset just behind this frame in the input
    pub end: usize,
    /// `encoding_size()` of the decoded value
    pub announced: usize,
    /// the decoded value re-encoded by the s2n encoder
    pub reencoded: Vec<u8>,
    pub exact_fit_ok: bool,
}

pub struct DecodedFrames {
    pub frames: Vec<DecodedFrame>,
    /// decode error that ended the sequence (None: whole input consumed)
    pub error: Option<String>,
    /// a successful decode consumed nothing: the caller's `while !payload.is_empty()` loop
    /// (s2n-quic-transport/src/space/mod.rs) would spin forever
    pub no_progress: bool,
}

/// The loop of `handle_cleartext_payload`: decode `FrameMut`s until the payload is empty.
pub fn decode_frames(input: &[u8], reencode: bool) -> Result<DecodedFrames, Panicked> {
    let mut buf = input.to_vec();
    let total = buf.len();
    guarded(move || {
        let mut out = DecodedFrames {
            frames: Vec::new(),
            error: None,
            no_progress: false,
        };
        let mut payload = DecoderBufferMut::new(&mut buf);
        // every frame consumes at least one byte, so `total` rounds are enough
        let mut rounds = 0usize;
        while !payload.is_empty() {
            let before = payload.len();
            match payload.decode::<FrameMut>() {
                Ok((f, remaining)) => {
                    let end = total - remaining.len();
                    let (announced, reencoded, exact_fit_ok) = if reencode {
                        let e = encode_frame(&f);
                        (e.announced, e.bytes, e.exact_fit_ok)
                    } else {
                        (0, Vec::new(), true)
                    };
                    out.frames.push(DecodedFrame {
                        frame: view(f),
                        end,
                        announced,
                        reencoded,
                        exact_fit_ok,
                    });
                    if remaining.len() >= before {
                        out.no_progress = true;
                        break;
                    }
                    payload = remaining;
                }
                Err(e) => {
                    out.error = Some(e.to_string());
                    break;
                }
            }
            rounds += 1;
            if rounds > total {
                out.no_progress = true;
                break;
            }
        }
        out
    })
}

struct RefRanges<'a>(&'a [(u64, u64)]);

fn to_range(r: &(u64, u64)) -> RangeInclusive<VarInt> {
    vi(r.0)..=vi(r.1)
}

impl<'a> frame::ack::AckRanges for RefRanges<'a> {
    type Iter =
        std::iter::Map<std::slice::Iter<'a, (u64, u64)>, fn(&(u64, u64)) -> RangeInclusive<VarInt>>;
    fn ack_ranges(&self) -> Self::Iter {
        self.0.iter().map(to_range as fn(&(u64, u64)) -> _)
    }
}

/// Build the s2n value for `f` from scratch (not via its decoder) and encode it.
/// `Ok(None)`: the s2n constructor refused the value.
pub fn encode_frame_value(f: &Frame) -> Result<Option<Encoded>, Panicked> {
    use frame::Frame as F;
    type Fr<'a> = frame::Frame<'a, RefRanges<'a>, &'a [u8]>;
    guarded(|| {
        let tokens;
        let v: Fr = match f {
            Frame::Padding { len } => F::Padding(frame::Padding { length: *len }),
            Frame::Ping => F::Ping(frame::Ping),
            Frame::Ack {
                delay, ranges, ecn, ..
            } => F::Ack(frame::Ack {
                ack_delay: vi(*delay),
                ack_ranges: RefRanges(ranges),
                ecn_counts: ecn.map(|(a, b, c)| frame::ack::EcnCounts {
                    ect_0_count: vi(a),
                    ect_1_count: vi(b),
                    ce_count: vi(c),
                }),
            }),
            Frame::ResetStream {
                id,
                code,
                final_size,
            } => F::ResetStream(frame::ResetStream {
                stream_id: vi(*id),
                application_error_code: vi(*code),
                final_size: vi(*final_size),
            }),
            Frame::StopSending { id, code } => F::StopSending(frame::StopSending {
                stream_id: vi(*id),
                application_error_code: vi(*code),
            }),
            Frame::Crypto { offset, data } => F::Crypto(frame::Crypto {
                offset: vi(*offset),
                data: &data[..],
            }),
            Frame::NewToken { token } => F::NewToken(frame::NewToken { token }),
            Frame::Stream {
                id,
                offset,
                data,
                fin,
                has_len,
                ..
            } => F::Stream(frame::Stream {
                stream_id: vi(*id),
                offset: vi(*offset),
                is_last_frame: !*has_len,
                is_fin: *fin,
                data: &data[..],
            }),
            Frame::MaxData { max } => F::MaxData(frame::MaxData {
                maximum_data: vi(*max),
            }),
            Frame::MaxStreamData { id, max } => F::MaxStreamData(frame::MaxStreamData {
                stream_id: vi(*id),
                maximum_stream_data: vi(*max),
            }),
            Frame::MaxStreams { bidi, max } => F::MaxStreams(frame::MaxStreams {
                stream_type: stream_type(*bidi),
                maximum_streams: vi(*max),
            }),
            Frame::DataBlocked { limit } => F::DataBlocked(frame::DataBlocked {
                data_limit: vi(*limit),
            }),
            Frame::StreamDataBlocked { id, limit } => {
                F::StreamDataBlocked(frame::StreamDataBlocked {
                    stream_id: vi(*id),
                    stream_data_limit: vi(*limit),
                })
            }
            Frame::StreamsBlocked { bidi, limit } => F::StreamsBlocked(frame::StreamsBlocked {
                stream_type: stream_type(*bidi),
                stream_limit: vi(*limit),
            }),
            Frame::NewConnectionId {
                seq,
                retire_prior_to,
                cid,
                token,
            } => F::NewConnectionId(frame::NewConnectionId {
                sequence_number: vi(*seq),
                retire_prior_to: vi(*retire_prior_to),
                connection_id: cid,
                stateless_reset_token: token,
            }),
            Frame::RetireConnectionId { seq } => F::RetireConnectionId(frame::RetireConnectionId {
                sequence_number: vi(*seq),
            }),
            Frame::PathChallenge { data } => F::PathChallenge(frame::PathChallenge { data }),
            Frame::PathResponse { data } => F::PathResponse(frame::PathResponse { data }),
            Frame::ConnectionClose {
                code,
                frame_type,
                reason,
                ..
            } => F::ConnectionClose(frame::ConnectionClose {
                error_code: vi(*code),
                frame_type: frame_type.map(vi),
                reason: if reason.is_empty() {
                    None
                } else {
                    Some(&reason[..])
                },
            }),
            Frame::HandshakeDone => F::HandshakeDone(frame::HandshakeDone),
            Frame::Datagram { data, has_len } => F::Datagram(frame::Datagram {
                is_last_frame: !*has_len,
                data: &data[..],
            }),
            Frame::DcStatelessResetTokens { tokens: t } => {
                tokens = t
                    .iter()
                    .map(|t| s2n_quic_core::stateless_reset::Token::from(*t))
                    .collect::<Vec<_>>();
                match frame::DcStatelessResetTokens::new(&tokens) {
                    Ok(v) => F::DcStatelessResetTokens(v),
                    Err(_) => return None,
                }
            }
            Frame::MtuProbingComplete { mtu } => {
                F::MtuProbingComplete(frame::MtuProbingComplete::new(*mtu))
            }
        };
        Some(encode_frame(&v))
    })
}

// ---------------------------------------------------------------------------------------
// packets

#[derive(Debug, Clone, PartialEq, Eq)]
pub enum PacketKind {
    Short,
    VersionNegotiation,
    Initial,
    ZeroRtt,
    Handshake,
    Retry,
}

#[derive(Debug, Clone)]
pub struct DecodedPacket {
    pub kind: PacketKind,
    pub version: Option<u32>,
    pub dcid: Vec<u8>,
    pub scid: Option<Vec<u8>>,
    /// Initial: token; Retry: token followed by the integrity tag
    pub token: Vec<u8>,
    pub versions: Vec<u32>,
    /// offset just behind this packet in the datagram
    pub end: usize,
    /// result of removing header protection with the all-zero mask
    pub unprotected: Option<Unprotected>,
}

#[derive(Debug, Clone)]
pub enum Unprotected {
    /// `unprotect` failed (e.g. not enough bytes for packet number + sample)
    UnprotectError(String),
    /// `decrypt` with the null cipher failed (reserved bits)
    DecryptError { pn: u64, why: String },
    Ok {
        pn: u64,
        /// cleartext payload (null cipher, no tag)
        payload: Vec<u8>,
        /// length of header + packet number as handed back by `decrypt`
        header_len: usize,
    },
}

pub struct DecodedDatagram {
    pub packets: Vec<DecodedPacket>,
    pub error: Option<String>,
    pub no_progress: bool,
}

fn space_pn(space: PacketNumberSpace, v: u64) -> PacketNumber {
    space.new_packet_number(vi(v))
}

/// Decode all coalesced packets of `input` like the endpoint does, then push every packet
/// that has a packet number through `unprotect` (all-zero header-protection mask) and
/// `decrypt` (null cipher) with `largest` as the largest packet number received so far.
pub fn decode_datagram(
    input: &[u8],
    short_dcid_len: usize,
    largest: u64,
) -> Result<DecodedDatagram, Panicked> {
    let mut buf = input.to_vec();
    let total = buf.len();
    guarded(move || {
        let addr = SocketAddress::default();
        let info = ConnectionInfo::new(&addr);
        let hk = nullcrypto::HeaderKey::new();
        let key = nullcrypto::Key::new();
        let mut out = DecodedDatagram {
            packets: Vec::new(),
            error: None,
            no_progress: false,
        };
        let mut buffer = DecoderBufferMut::new(&mut buf);
        let mut rounds = 0;
        while !buffer.is_empty() {
            let before = buffer.len();
            let (packet, remaining) = match ProtectedPacket::decode(buffer, &info, &short_dcid_len)
            {
                Ok(v) => v,
                Err(e) => {
                    out.error = Some(e.to_string());
                    break;
                }
            };
            let end = total - remaining.len();
            let dcid = packet.destination_connection_id().to_vec();
            let scid = packet.source_connection_id().map(|s| s.to_vec());
            let version = packet.version();
            let mut p = DecodedPacket {
                kind: PacketKind::Short,
                version,
                dcid,
                scid,
                token: Vec::new(),
                versions: Vec::new(),
                end,
                unprotected: None,
            };
            macro_rules! open {
                ($packet:ident, $space:expr) => {{
                    match $packet.unprotect(&hk, space_pn($space, largest)) {
                        Err(e) => Unprotected::UnprotectError(format!("{e:?}")),
                        Ok(enc) => {
                            let pn = enc.packet_number.as_u64();
                            match enc.decrypt(&key) {
                                Err(e) => Unprotected::DecryptError {
                                    pn,
                                    why: format!("{e:?}"),
                                },
                                Ok(clear) => Unprotected::Ok {
                                    pn,
                                    header_len: (end - (total - before)) - clear.payload.len(),
                                    payload: clear.payload.as_less_safe_slice().to_vec(),
                                },
                            }
                        }
                    }
                }};
            }
            match packet {
                ProtectedPacket::Short(s) => {
                    p.kind = PacketKind::Short;
                    p.unprotected = Some(open!(s, PacketNumberSpace::ApplicationData));
                }
                ProtectedPacket::VersionNegotiation(v) => {
                    p.kind = PacketKind::VersionNegotiation;
                    p.versions = v.iter().collect();
                }
                ProtectedPacket::Initial(i) => {
                    p.kind = PacketKind::Initial;
                    p.token = i.token().to_vec();
                    p.unprotected = Some(open!(i, PacketNumberSpace::Initial));
                }
                ProtectedPacket::ZeroRtt(z) => {
                    p.kind = PacketKind::ZeroRtt;
                    p.unprotected = Some(open!(z, PacketNumberSpace::ApplicationData));
                }
                ProtectedPacket::Handshake(h) => {
                    p.kind = PacketKind::Handshake;
                    p.unprotected = Some(open!(h, PacketNumberSpace::Handshake));
                }
                ProtectedPacket::Retry(r) => {
                    p.kind = PacketKind::Retry;
                    p.token = r.retry_token.to_vec();
                    p.token.extend_from_slice(&r.retry_integrity_tag[..]);
                }
            }
            out.packets.push(p);
            if remaining.len() >= before {
                out.no_progress = true;
                break;
            }
            buffer = remaining;
            rounds += 1;
            if rounds > total {
                out.no_progress = true;
                break;
            }
        }
        out
    })
}

/// What to encode with the s2n packet encoders.
#[derive(Debug, Clone)]
pub struct PacketSpec {
    pub kind: PacketKind,
    pub version: u32,
    pub dcid: Vec<u8>,
    pub scid: Vec<u8>,
    pub token: Vec<u8>,
    pub pn: u64,
    pub largest_acked: u64,
    pub payload: Vec<u8>,
    /// first-byte bits for Version Negotiation / Retry (`tag` field of the s2n structs)
    pub tag: u8,
    pub spin: bool,
    pub key_phase: bool,
    /// capacity of the buffer handed to the encoder
    pub capacity: usize,
}

pub enum EncodedPacket {
    /// packet bytes
    Ok(Vec<u8>),
    /// the encoder declined (`PacketEncodingError`), with its variant name
    Declined(&'static str),
}

pub fn encode_packet(s: &PacketSpec) -> Result<EncodedPacket, Panicked> {
    use s2n_quic_core::packet::{
        encoding::PacketEncodingError as E, handshake::Handshake, initial::Initial, retry::Retry,
        short::Short, version_negotiation::VersionNegotiation, zero_rtt::ZeroRtt, KeyPhase,
    };
    guarded(|| {
        let mut buf = vec![CANARY; s.capacity + 16];
        let mut key = nullcrypto::Key::new();
        let hk = nullcrypto::HeaderKey::new();
        let cap = s.capacity;
        macro_rules! finish {
            ($r:expr) => {
                match $r {
                    Ok((protected, _rest)) => {
                        let n = protected.len();
                        drop(protected);
                        assert!(
                            buf[cap..].iter().all(|b| *b == CANARY),
                            "vq-c05: packet encoder wrote behind its buffer"
                        );
                        EncodedPacket::Ok(buf[..n].to_vec())
                    }
                    Err(E::PacketNumberTruncationError(_)) => {
                        EncodedPacket::Declined("PacketNumberTruncationError")
                    }
                    Err(E::InsufficientSpace(_)) => EncodedPacket::Declined("InsufficientSpace"),
                    Err(E::EmptyPayload(_)) => EncodedPacket::Declined("EmptyPayload"),
                    Err(E::AeadLimitReached(_)) => EncodedPacket::Declined("AeadLimitReached"),
                }
            };
        }
        match s.kind {
            PacketKind::Initial => {
                let space = PacketNumberSpace::Initial;
                let p = Initial {
                    version: s.version,
                    destination_connection_id: &s.dcid[..],
                    source_connection_id: &s.scid[..],
                    token: &s.token[..],
                    packet_number: space_pn(space, s.pn),
                    payload: &s.payload[..],
                };
                finish!(p.encode_packet(
                    &mut key,
                    &hk,
                    space_pn(space, s.largest_acked),
                    None,
                    EncoderBuffer::new(&mut buf[..cap])
                ))
            }
            PacketKind::Handshake => {
                let space = PacketNumberSpace::Handshake;
                let p = Handshake {
                    version: s.version,
                    destination_connection_id: &s.dcid[..],
                    source_connection_id: &s.scid[..],
                    packet_number: space_pn(space, s.pn),
                    payload: &s.payload[..],
                };
                finish!(p.encode_packet(
                    &mut key,
                    &hk,
                    space_pn(space, s.largest_acked),
                    None,
                    EncoderBuffer::new(&mut buf[..cap])
                ))
            }
            PacketKind::ZeroRtt => {
                let space = PacketNumberSpace::ApplicationData;
                let p = ZeroRtt {
                    version: s.version,
                    destination_connection_id: &s.dcid[..],
                    source_connection_id: &s.scid[..],
                    packet_number: space_pn(space, s.pn),
                    payload: &s.payload[..],
                };
                finish!(p.encode_packet(
                    &mut key,
                    &hk,
                    space_pn(space, s.largest_acked),
                    None,
                    EncoderBuffer::new(&mut buf[..cap])
                ))
            }
            PacketKind::Short => {
                let space = PacketNumberSpace::ApplicationData;
                let p = Short {
                    spin_bit: if s.spin {
                        s2n_quic_core::packet::short::SpinBit::One
                    } else {
                        s2n_quic_core::packet::short::SpinBit::Zero
                    },
                    key_phase: if s.key_phase {
                        KeyPhase::One
                    } else {
                        KeyPhase::Zero
                    },
                    destination_connection_id: &s.dcid[..],
                    packet_number: space_pn(space, s.pn),
                    payload: &s.payload[..],
                };
                finish!(p.encode_packet(
                    &mut key,
                    &hk,
                    space_pn(space, s.largest_acked),
                    None,
                    EncoderBuffer::new(&mut buf[..cap])
                ))
            }
            PacketKind::VersionNegotiation => {
                let p = VersionNegotiation {
                    tag: s.tag,
                    destination_connection_id: &s.dcid[..],
                    source_connection_id: &s.scid[..],
                    supported_versions: &s.payload[..],
                };
                let e = encode_value(&p);
                assert_eq!(
                    e.announced,
                    e.bytes.len(),
                    "vq-c05: version negotiation encoding_size"
                );
                EncodedPacket::Ok(e.bytes)
            }
            PacketKind::Retry => {
                let mut tag = [0u8; 16];
                let n = s.payload.len().min(16);
                tag[..n].copy_from_slice(&s.payload[..n]);
                let p = Retry {
                    tag: s.tag,
                    version: s.version,
                    destination_connection_id: &s.dcid[..],
                    source_connection_id: &s.scid[..],
                    retry_token: &s.token[..],
                    retry_integrity_tag: &tag,
                };
                let e = encode_value(&p);
                assert_eq!(e.announced, e.bytes.len(), "vq-c05: retry encoding_size");
                EncodedPacket::Ok(e.bytes)
            }
        }
    })
}

// ---------------------------------------------------------------------------------------
// packet numbers

pub struct Truncated {
    /// bytes on the wire
    pub len: usize,
    /// value of those bytes
    pub value: u64,
}

/// `pn.truncate(largest_acked)`; `Ok(None)` when s2n declines to send.
pub fn pn_truncate(pn: u64, largest_acked: u64) -> Result<Option<Truncated>, Panicked> {
    guarded(|| {
        let space = PacketNumberSpace::ApplicationData;
        let t = space_pn(space, pn).truncate(space_pn(space, largest_acked))?;
        let e = encode_value(&t);
        let mut value = 0u64;
        for b in &e.bytes {
            value = value << 8 | *b as u64;
        }
        assert_eq!(
            e.bytes.len(),
            t.len().bytesize(),
            "vq-c05: truncated pn size"
        );
        Some(Truncated {
            len: e.bytes.len(),
            value,
        })
    })
}

/// Decode `len` wire bytes into a truncated packet number and expand it.
pub fn pn_expand(wire: &[u8], largest_received: u64) -> Result<Option<u64>, Panicked> {
    guarded(|| {
        let space = PacketNumberSpace::ApplicationData;
        // the length comes from the two low bits of the first header byte
        let len = space.new_packet_number_len((wire.len() - 1) as u8);
        let (t, rest) = len
            .decode_truncated_packet_number(DecoderBuffer::new(wire))
            .ok()?;
        if !rest.is_empty() {
            return None;
        }
        Some(t.expand(space_pn(space, largest_received)).as_u64())
    })
}

// ---------------------------------------------------------------------------------------
// transport parameters

#[derive(Debug, Clone, PartialEq, Eq, Default)]
pub struct TpValues {
    pub v: vq_wire::tp::Values,
    /// re-encoded parameters (for the round-trip clause)
    pub reencoded: Vec<u8>,
    pub announced: usize,
    /// decode(encode(decode(b))) == decode(b)
    pub stable: bool,
}

macro_rules! common_fields {
    ($p:ident, $v:ident) => {
        $v.max_idle_timeout = $p.max_idle_timeout.as_u64();
        $v.max_udp_payload_size = $p.max_udp_payload_size.as_u64();
        $v.initial_max_data = $p.initial_max_data.as_u64();
        $v.initial_max_stream_data_bidi_local = $p.initial_max_stream_data_bidi_local.as_u64();
        $v.initial_max_stream_data_bidi_remote = $p.initial_max_stream_data_bidi_remote.as_u64();
        $v.initial_max_stream_data_uni = $p.initial_max_stream_data_uni.as_u64();
        $v.initial_max_streams_bidi = $p.initial_max_streams_bidi.as_u64();
        $v.initial_max_streams_uni = $p.initial_max_streams_uni.as_u64();
        $v.ack_delay_exponent = *$p.ack_delay_exponent as u64;
        $v.max_ack_delay = $p.max_ack_delay.as_u64();
        $v.disable_active_migration = matches!(
            $p.migration_support,
            s2n_quic_core::transport::parameters::MigrationSupport::Disabled
        );
        $v.active_connection_id_limit = $p.active_connection_id_limit.as_u64();
        $v.initial_source_connection_id = $p
            .initial_source_connection_id
            .map(|c| c.as_bytes().to_vec());
        $v.max_datagram_frame_size = $p.max_datagram_frame_size.as_u64();
    };
}

/// `Ok(Err(msg))`: the decoder rejected the block.
pub fn tp_decode(
    block: &[u8],
    sender: vq_wire::tp::Role,
) -> Result<Result<TpValues, String>, Panicked> {
    use vq_wire::tp::Role;
    guarded(|| {
        let mut v = vq_wire::tp::Values::default();
        let buffer = DecoderBuffer::new(block);
        match sender {
            Role::Client => {
                let (p, rest) = buffer
                    .decode::<ClientTransportParameters>()
                    .map_err(|e| e.to_string())?;
                if !rest.is_empty() {
                    return Err("vq-c05: decoder left bytes behind".into());
                }
                common_fields!(p, v);
                let e = encode_value(&p);
                let stable = matches!(
                    DecoderBuffer::new(&e.bytes).decode::<ClientTransportParameters>(),
                    Ok((q, r)) if q == p && r.is_empty()
                );
                Ok(TpValues {
                    v,
                    announced: e.announced,
                    reencoded: e.bytes,
                    stable,
                })
            }
            Role::Server => {
                let (p, rest) = buffer
                    .decode::<ServerTransportParameters>()
                    .map_err(|e| e.to_string())?;
                if !rest.is_empty() {
                    return Err("vq-c05: decoder left bytes behind".into());
                }
                common_fields!(p, v);
                v.original_destination_connection_id = p
                    .original_destination_connection_id
                    .map(|c| c.as_bytes().to_vec());
                v.stateless_reset_token = p.stateless_reset_token.map(|t| t.into_inner());
                v.retry_source_connection_id =
                    p.retry_source_connection_id.map(|c| c.as_bytes().to_vec());
                v.preferred_address = p.preferred_address.map(|a| {
                    // rebuilt field by field from the accessors (not via the s2n encoder)
                    let mut o = Vec::new();
                    match a.ipv4_address {
                        Some(x) => o.extend_from_slice(x.as_bytes()),
                        None => o.extend_from_slice(&[0; 6]),
                    }
                    match a.ipv6_address {
                        Some(x) => o.extend_from_slice(x.as_bytes()),
                        None => o.extend_from_slice(&[0; 18]),
                    }
                    o.push(a.connection_id.len() as u8);
                    o.extend_from_slice(a.connection_id.as_bytes());
                    o.extend_from_slice(a.stateless_reset_token.as_ref());
                    o
                });
                let e = encode_value(&p);
                let stable = matches!(
                    DecoderBuffer::new(&e.bytes).decode::<ServerTransportParameters>(),
                    Ok((q, r)) if q == p && r.is_empty()
                );
                Ok(TpValues {
                    v,
                    announced: e.announced,
                    reencoded: e.bytes,
                    stable,
                })
            }
        }
    })
}
