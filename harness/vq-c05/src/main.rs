mod s2n;
fn main() {
    s2n::install_panic_hook();
}
