//! vq-c05: wire-codec engine of the /verif harness.
//!
//! `vq-c05 --check codec|pn|tp --seed S --iters N [--start I] [--mode native|miri]
//!         [--budget-ms B] [--replay file.json] [--verbose]`
//!
//! Executes the real decoders/encoders of s2n-codec and s2n-quic-core against the independent
//! reference in `vq-wire` and prints exactly one `SUMMARY {json}` line. See README.md.

mod codec;
mod gen;
mod pn;
mod s2n;
mod tp;

use std::{
    collections::BTreeSet,
    sync::{
        atomic::{AtomicU64, Ordering},
        Arc, Mutex,
    },
    time::{Duration, Instant},
};
use vq_util::{arg_str, arg_u64, json, Summary, Value, Violation};

/// Per-worker state handed to the checks.
pub struct Ctx {
    pub sum: Summary,
    pub miri: bool,
    pub verbose_on: bool,
    seen_signatures: BTreeSet<String>,
    /// how many concrete cases may still be written into `samples`
    pub sample_budget: u32,
    current: Arc<Mutex<&'static str>>,
}

impl Ctx {
    fn new(miri: bool, verbose_on: bool, current: Arc<Mutex<&'static str>>) -> Self {
        Ctx {
            sum: Summary::default(),
            miri,
            verbose_on,
            seen_signatures: BTreeSet::new(),
            sample_budget: 4,
            current,
        }
    }

    /// Record a violation; repeats of the same signature are only counted.
    pub fn violation(&mut self, property: &str, signature: String, what: String, replay: Value) {
        self.sum.count(&format!("violation:{signature}"), 1);
        if self.verbose_on {
            eprintln!("VIOLATION {property} {signature}: {what}");
        }
        if self.seen_signatures.insert(signature.clone()) {
            self.sum.violation(Violation {
                property: property.into(),
                signature,
                what,
                replay,
            });
        }
    }

    /// keep a few actual cases as evidence
    pub fn sample(&mut self, f: impl FnOnce() -> Value) {
        if self.sample_budget > 0 {
            self.sample_budget -= 1;
            self.sum.sample(f());
        }
    }

    pub fn verbose(&self, f: impl FnOnce() -> String) {
        if self.verbose_on {
            eprintln!("{}", f());
        }
    }

    /// input class the worker is about to execute (read by the watchdog when it stalls)
    pub fn set_current(&mut self, class: &'static str) {
        *self.current.lock().unwrap() = class;
    }
}

#[derive(Clone, Copy, PartialEq)]
enum Check {
    Codec,
    Pn,
    Tp,
}

/// Self-test knob for the watchdog: `--stall-at I --stall-ms M [--stall-alone]` makes input I
/// take M extra milliseconds in the batch (and also in the solo re-run with --stall-alone).
#[derive(Clone, Copy)]
struct Stall {
    at: u64,
    ms: u64,
    alone: bool,
}

fn run_one(check: Check, ctx: &mut Ctx, seed: u64, index: u64) {
    match check {
        Check::Codec => codec::one(ctx, seed, index),
        Check::Pn => pn::one(ctx, seed, index),
        Check::Tp => tp::one(ctx, seed, index),
    }
}

fn main() {
    let args = vq_util::parse_args();
    let check = match arg_str(&args, "check", "codec") {
        "codec" => Check::Codec,
        "pn" => Check::Pn,
        "tp" => Check::Tp,
        other => {
            eprintln!("vq-c05: unknown --check {other} (codec|pn|tp)");
            std::process::exit(3);
        }
    };
    let miri = arg_str(&args, "mode", if cfg!(miri) { "miri" } else { "native" }) == "miri";
    let seed = arg_u64(&args, "seed", 1);
    let iters = arg_u64(&args, "iters", if miri { 500 } else { 200_000 });
    let start = arg_u64(&args, "start", 0);
    let verbose = args.contains_key("verbose") || args.contains_key("replay");
    // wall-clock budget for a single input before the watchdog steps in
    let budget = Duration::from_millis(arg_u64(
        &args,
        "budget-ms",
        if miri { 120_000 } else { 2_000 },
    ));
    let stall = args.get("stall-at").map(|_| Stall {
        at: arg_u64(&args, "stall-at", 0),
        ms: arg_u64(&args, "stall-ms", 0),
        alone: args.contains_key("stall-alone"),
    });
    s2n::install_panic_hook();

    let current: Arc<Mutex<&'static str>> = Arc::new(Mutex::new("startup"));

    if let Some(path) = args.get("replay") {
        let mut ctx = Ctx::new(miri, true, current.clone());
        let r = std::fs::read_to_string(path)
            .map_err(|e| e.to_string())
            .and_then(|s| serde_json_from_str(&s))
            .and_then(|v: Value| {
                // accept either the bare replay object or a whole violation record
                let v = if v.get("replay").is_some() {
                    v["replay"].clone()
                } else {
                    v
                };
                if v["kind"].as_str() == Some("index") {
                    let check = match v["check"].as_str().unwrap_or("codec") {
                        "pn" => Check::Pn,
                        "tp" => Check::Tp,
                        _ => Check::Codec,
                    };
                    run_one(
                        check,
                        &mut ctx,
                        v["seed"].as_u64().unwrap_or(0),
                        v["index"].as_u64().unwrap_or(0),
                    );
                    return Ok(());
                }
                match v["check"].as_str().unwrap_or("codec") {
                    "pn" => pn::replay(&mut ctx, &v),
                    "tp" => tp::replay(&mut ctx, &v),
                    _ => codec::replay(&mut ctx, &v),
                }
            });
        if let Err(e) = r {
            ctx.sum.inconclusive.push(format!("replay failed: {e}"));
        }
        ctx.sum.print();
        return;
    }

    // The worker publishes its progress; the main thread is the watchdog (T: "never loops").
    let progress = Arc::new(AtomicU64::new(0));
    let shared: Arc<Mutex<Option<Summary>>> = Arc::new(Mutex::new(None));
    let worker = {
        let progress = progress.clone();
        let shared = shared.clone();
        let current = current.clone();
        std::thread::Builder::new()
            .name("worker".into())
            .stack_size(16 << 20)
            .spawn(move || {
                let mut ctx = Ctx::new(miri, verbose, current);
                for i in start..start + iters {
                    if let Some(st) = stall {
                        if st.at == i {
                            ctx.set_current("selftest-stall");
                            std::thread::sleep(Duration::from_millis(st.ms));
                        }
                    }
                    run_one(check, &mut ctx, seed, i);
                    progress.store(i - start + 1, Ordering::Release);
                    if (i - start) % 256 == 255 {
                        // checkpoint so that a later stall does not lose the evidence
                        let mut s = shared.lock().unwrap();
                        let mut snap = Summary::default();
                        std::mem::swap(&mut snap, &mut ctx.sum);
                        match s.as_mut() {
                            Some(acc) => acc.merge(snap),
                            None => *s = Some(snap),
                        }
                    }
                }
                let mut s = shared.lock().unwrap();
                let mut snap = Summary::default();
                std::mem::swap(&mut snap, &mut ctx.sum);
                match s.as_mut() {
                    Some(acc) => acc.merge(snap),
                    None => *s = Some(snap),
                }
            })
            .expect("spawn worker")
    };

    let t0 = Instant::now();
    let mut last = (0u64, Instant::now());
    let mut stalled_at: Option<u64> = None;
    loop {
        if worker.is_finished() {
            break;
        }
        std::thread::sleep(Duration::from_millis(if miri { 200 } else { 20 }));
        let p = progress.load(Ordering::Acquire);
        if p != last.0 {
            last = (p, Instant::now());
        } else if last.1.elapsed() > budget {
            stalled_at = Some(start + p);
            break;
        }
    }

    let mut sum = match stalled_at {
        None => {
            let joined = worker.join();
            let mut sum = shared.lock().unwrap().take().unwrap_or_default();
            if joined.is_err() {
                sum.inconclusive
                    .push("worker thread died outside a guarded call".into());
            }
            sum
        }
        Some(index) => {
            // Budget overrun: re-run that input alone with 100x the budget before calling it
            // a hang; the stalled worker thread is abandoned.
            let class = *current.lock().unwrap();
            let what = format!("class={class} seed={seed} index={index}");
            eprintln!("vq-c05: input {index} ({what}) exceeded {budget:?}; re-running it alone");
            let mut sum = shared.lock().unwrap().take().unwrap_or_default();
            let done = Arc::new(Mutex::new(None::<Summary>));
            {
                let done = done.clone();
                let current: Arc<Mutex<&'static str>> = Arc::new(Mutex::new("rerun"));
                std::thread::Builder::new()
                    .stack_size(16 << 20)
                    .spawn(move || {
                        let mut ctx = Ctx::new(miri, false, current);
                        if let Some(st) = stall {
                            if st.alone {
                                std::thread::sleep(Duration::from_millis(st.ms));
                            }
                        }
                        run_one(check, &mut ctx, seed, index);
                        *done.lock().unwrap() = Some(ctx.sum);
                    })
                    .expect("spawn rerun");
            }
            let deadline = Instant::now() + budget * 100;
            let mut finished = None;
            while Instant::now() < deadline {
                if let Some(s) = done.lock().unwrap().take() {
                    finished = Some(s);
                    break;
                }
                std::thread::sleep(Duration::from_millis(50));
            }
            match finished {
                Some(s) => {
                    sum.merge(s);
                    sum.inconclusive.push(format!(
                        "input {index} ({what}) exceeded the {budget:?} budget in the batch but finished alone; remaining {} inputs not run",
                        (start + iters).saturating_sub(index + 1)
                    ));
                }
                None => {
                    sum.evaluations += 1;
                    let prop = match check {
                        Check::Codec => codec::PROPERTY,
                        Check::Pn => pn::PROPERTY,
                        Check::Tp => tp::PROPERTY,
                    };
                    sum.violation(Violation {
                        property: prop.into(),
                        signature: format!(
                            "hang:{}",
                            what.split_whitespace()
                                .next()
                                .unwrap_or("unknown")
                                .trim_start_matches("class=")
                        ),
                        what: format!(
                            "input {index} ({what}) did not finish within {:?} even when run alone",
                            budget * 100
                        ),
                        replay: json!({"check": match check { Check::Codec => "codec", Check::Pn => "pn", Check::Tp => "tp" },
                            "kind": "index", "seed": seed, "index": index}),
                    });
                }
            }
            sum
        }
    };

    let secs = t0.elapsed().as_secs_f64();
    sum.count("elapsed_ms", (secs * 1000.0) as u64);
    if secs > 0.0 {
        sum.max(
            "inputs_per_minute",
            (sum.evaluations as f64 / secs * 60.0) as i64,
        );
    }
    if sum.evaluations == 0 {
        sum.inconclusive.push("no inputs were executed".into());
    }
    // a few concrete cases as evidence
    sum.sample(json!({"check": match check { Check::Codec => "codec", Check::Pn => "pn", Check::Tp => "tp" },
        "seed": seed, "start": start, "iters": iters, "mode": if miri { "miri" } else { "native" }}));
    sum.print();
    if stalled_at.is_some() {
        // do not wait for the abandoned thread
        std::process::exit(0);
    }
}

fn serde_json_from_str(s: &str) -> Result<Value, String> {
    s.parse::<Value>().map_err(|e| e.to_string())
}
