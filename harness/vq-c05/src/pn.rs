//! `--check pn`: packet-number truncation and expansion (C08, component part (d)).
//!
//! Oracle: RFC 9000 appendix A.2 (`vq_wire::pn_min_bytes`) and A.3 (`vq_wire::pn_decode`),
//! plus the end-to-end statement itself: whatever the sender's `truncate` put on the wire must
//! expand to the packet number that was sent, for every `largest_received` the receiver can
//! legitimately have.

use crate::{codec::slug, s2n, Ctx};
use vq_util::{json, mix, Rng};
use vq_wire as w;

pub const PROPERTY: &str = "C08";

const DIST_EDGES: &[u64] = &[
    1,
    2,
    (1 << 7) - 1,
    1 << 7,
    (1 << 7) + 1,
    (1 << 8) - 1,
    1 << 8,
    (1 << 15) - 1,
    1 << 15,
    (1 << 15) + 1,
    (1 << 16) - 1,
    1 << 16,
    (1 << 23) - 1,
    1 << 23,
    (1 << 23) + 1,
    (1 << 24) - 1,
    1 << 24,
    (1 << 31) - 2,
    (1 << 31) - 1,
    1 << 31,
    (1 << 31) + 1,
    (1 << 32) - 1,
    1 << 32,
];

fn panic_violation(ctx: &mut Ctx, entry: &str, p: &s2n::Panicked, replay: vq_util::Value) {
    if s2n::panic_in_library(&p.0) {
        ctx.violation(
            PROPERTY,
            format!("panic:{entry}:{}", slug(&p.0)),
            format!("{entry} panicked: {}", p.0),
            replay,
        );
    } else {
        ctx.sum
            .inconclusive
            .push(format!("harness panic in {entry}: {}", p.0));
    }
}

/// One (largest_acked, pn) pair with a list of candidate `largest_received` values.
pub fn check_pair(ctx: &mut Ctx, la: u64, pn: u64, lrs: &[u64]) -> (usize, bool) {
    let replay = || json!({"check": "pn", "largest_acked": la, "pn": pn, "largest_received": lrs});
    let t = match s2n::pn_truncate(pn, la) {
        Ok(t) => t,
        Err(p) => {
            panic_violation(ctx, "pn-truncate", &p, replay());
            return (0, false);
        }
    };
    let min = w::pn_min_bytes(pn, Some(la)) as usize;
    ctx.verbose(|| {
        format!(
            "pn={pn} largest_acked={la}: s2n truncates to {:?}, RFC 9000 A.2 needs {min} bytes",
            t.as_ref().map(|t| (t.len, t.value))
        )
    });
    let Some(t) = t else {
        // s2n declines to send: never wrong, but it must only happen when four bytes are
        // not (comfortably) enough
        if min <= 3 {
            ctx.violation(
                PROPERTY,
                "pn:truncate-declines-small-distance".into(),
                format!("pn={pn} largest_acked={la}: truncate() returns None although {min} bytes suffice"),
                replay(),
            );
        } else {
            ctx.sum.count("truncate_declined", 1);
        }
        return (0, true);
    };
    ctx.sum.count(&format!("pn_len:{}", t.len), 1);
    if t.len < min || t.len > 4 {
        ctx.violation(
            PROPERTY,
            "pn:len-too-short".into(),
            format!(
                "pn={pn} largest_acked={la}: s2n uses {} bytes, RFC 9000 17.1/A.2 requires at least {min}",
                t.len
            ),
            replay(),
        );
        return (t.len, false);
    }
    let bits = 8 * t.len as u32;
    let mask = (1u64 << bits) - 1;
    if t.value != pn & mask {
        ctx.violation(
            PROPERTY,
            "pn:truncated-bits-wrong".into(),
            format!(
                "pn={pn} largest_acked={la}: wire value {:#x}, the low {bits} bits are {:#x}",
                t.value,
                pn & mask
            ),
            replay(),
        );
        return (t.len, false);
    }
    let wire = t.value.to_be_bytes()[8 - t.len..].to_vec();
    let hwin = 1u64 << (bits - 1);
    for &lr in lrs {
        let got = match s2n::pn_expand(&wire, lr) {
            Ok(Some(g)) => g,
            Ok(None) => {
                ctx.violation(
                    PROPERTY,
                    "pn:wire-decode-failed".into(),
                    format!("decoding the {}-byte packet number failed", t.len),
                    replay(),
                );
                return (t.len, false);
            }
            Err(p) => {
                panic_violation(ctx, "pn-expand", &p, replay());
                return (t.len, false);
            }
        };
        ctx.sum.count("expansions", 1);
        // the receiver can reconstruct iff pn lies in (lr + 1 - hwin, lr + 1 + hwin]
        let in_window = pn + hwin > lr + 1 && pn <= lr + 1 + hwin;
        let want = w::pn_decode(Some(lr), t.value, bits);
        ctx.verbose(|| {
            format!("  largest_received={lr}: s2n={got} A.3={want} in_window={in_window}")
        });
        if in_window && got != pn {
            ctx.violation(
                PROPERTY,
                "pn:expand-mismatch".into(),
                format!(
                    "pn={pn} sent as {} bytes against largest_acked={la}; receiver with largest_received={lr} reconstructs {got}",
                    t.len
                ),
                replay(),
            );
            return (t.len, false);
        }
        if want <= w::VARINT_MAX && got != want {
            ctx.violation(
                PROPERTY,
                "pn:ref-disagree".into(),
                format!(
                    "truncated {:#x} ({bits} bits), largest_received={lr}: s2n expands to {got}, RFC 9000 A.3 to {want}",
                    t.value
                ),
                replay(),
            );
            return (t.len, false);
        }
        if in_window && want != pn {
            ctx.sum.inconclusive.push(format!(
                "reference A.3 transcription fails for pn={pn} lr={lr} bits={bits}"
            ));
        }
    }
    if t.len >= 2 {
        ctx.sample(|| {
            json!({"pn": pn, "largest_acked": la, "wire_bytes": t.len, "rfc_min_bytes": min,
            "largest_received_tried": lrs.len()})
        });
    }
    (t.len, true)
}

pub fn one(ctx: &mut Ctx, seed: u64, index: u64) {
    let mut rng = Rng::new(mix(seed ^ 0x706e, index));
    ctx.set_current("pn");
    ctx.sum.evaluations += 1;
    let max = w::VARINT_MAX;
    let (dist, edge) = if rng.chance(3, 5) {
        let i = rng.below(DIST_EDGES.len() as u64) as usize;
        (DIST_EDGES[i], i as u64 + 1)
    } else {
        let bits = rng.range(1, 33);
        ((rng.next() >> (64 - bits)).max(1), 0)
    };
    if edge != 0 {
        ctx.sum.count(&format!("boundary:distance:{dist}"), 1);
    }
    let la_class = rng.below(6);
    let la = match la_class {
        0 => 0,
        1 => max.saturating_sub(dist),
        2 => max.saturating_sub(dist + rng.below(1 << 10)),
        3 => rng.below(1 << 16),
        // just below a 2^8k block boundary so that pn crosses it
        4 => ((rng.next() >> 2) & !0xffff_ffff).wrapping_sub(rng.below(4)) & max,
        _ => rng.next() >> rng.range(2, 40),
    };
    let la = la.min(max - 1);
    let pn = la.saturating_add(dist).min(max);
    if pn <= la {
        ctx.sum.trivial += 1;
        return;
    }
    // candidate largest_received values; the window depends on the length s2n picks, so give
    // candidates for every length and let check_pair apply the window rule
    let mut lrs = vec![la, pn - 1, pn, pn.min(max - 1) + 1];
    for bits in [8u32, 16, 24, 32] {
        let hwin = 1u64 << (bits - 1);
        for lr in [
            (pn + hwin).saturating_sub(2),
            (pn + hwin).saturating_sub(1),
            pn + hwin,
            la + rng.below(hwin),
            pn + rng.below(hwin),
        ] {
            if lr >= la && lr <= max {
                lrs.push(lr);
            }
        }
    }
    lrs.retain(|lr| *lr <= max);
    let (len, ok) = check_pair(ctx, la, pn, &lrs);
    if ok {
        ctx.sum
            .signatures
            .insert(mix(mix(len as u64, edge), la_class));
        ctx.sum
            .max("max_distance", dist.min(i64::MAX as u64) as i64);
    }
}

pub fn replay(ctx: &mut Ctx, r: &vq_util::Value) -> Result<(), String> {
    let la = r["largest_acked"].as_u64().ok_or("replay: largest_acked")?;
    let pn = r["pn"].as_u64().ok_or("replay: pn")?;
    let lrs: Vec<u64> = r["largest_received"]
        .as_array()
        .map(|a| a.iter().filter_map(|v| v.as_u64()).collect())
        .unwrap_or_default();
    ctx.sum.evaluations += 1;
    check_pair(ctx, la, pn, &lrs);
    Ok(())
}
