//! `--check tp`: transport-parameter blocks against the RFC 9000 section 7.4 / 18.2 table
//! (`vq_wire::tp::judge`), property C14 part (a).

use crate::{codec::slug, gen, s2n, Ctx};
use vq_util::{json, mix, Rng};
use vq_wire::{
    self as w,
    tp::{self, Role, Verdict},
};

pub const PROPERTY: &str = "C14";

fn hex(b: &[u8]) -> String {
    b.iter().map(|x| format!("{x:02x}")).collect()
}

pub fn name(id: u64) -> String {
    match id {
        tp::ID_ODCID => "original_destination_connection_id".into(),
        tp::ID_MAX_IDLE => "max_idle_timeout".into(),
        tp::ID_SRT => "stateless_reset_token".into(),
        tp::ID_MAX_UDP => "max_udp_payload_size".into(),
        tp::ID_MAX_DATA => "initial_max_data".into(),
        tp::ID_MSD_BIDI_LOCAL => "initial_max_stream_data_bidi_local".into(),
        tp::ID_MSD_BIDI_REMOTE => "initial_max_stream_data_bidi_remote".into(),
        tp::ID_MSD_UNI => "initial_max_stream_data_uni".into(),
        tp::ID_MS_BIDI => "initial_max_streams_bidi".into(),
        tp::ID_MS_UNI => "initial_max_streams_uni".into(),
        tp::ID_ADE => "ack_delay_exponent".into(),
        tp::ID_MAD => "max_ack_delay".into(),
        tp::ID_DAM => "disable_active_migration".into(),
        tp::ID_PREF => "preferred_address".into(),
        tp::ID_ACIL => "active_connection_id_limit".into(),
        tp::ID_ISCID => "initial_source_connection_id".into(),
        tp::ID_RSCID => "retry_source_connection_id".into(),
        tp::ID_DGRAM => "max_datagram_frame_size".into(),
        _ => "unknown-id".into(),
    }
}

/// integer parameters with their bounds: (id, lowest valid, highest valid)
const INT_PARAMS: &[(u64, u64, u64)] = &[
    (tp::ID_MAX_IDLE, 0, w::VARINT_MAX),
    (tp::ID_MAX_UDP, 1200, 65527),
    (tp::ID_MAX_DATA, 0, w::VARINT_MAX),
    (tp::ID_MSD_BIDI_LOCAL, 0, w::VARINT_MAX),
    (tp::ID_MSD_BIDI_REMOTE, 0, w::VARINT_MAX),
    (tp::ID_MSD_UNI, 0, w::VARINT_MAX),
    (tp::ID_MS_BIDI, 0, 1 << 60),
    (tp::ID_MS_UNI, 0, 1 << 60),
    (tp::ID_ADE, 0, 20),
    (tp::ID_MAD, 0, (1 << 14) - 1),
    (tp::ID_ACIL, 2, w::VARINT_MAX),
    (tp::ID_DGRAM, 0, w::VARINT_MAX),
];

#[derive(Clone, Debug)]
struct Item {
    id: u64,
    value: Vec<u8>,
    /// tag of what the generator did for this item
    what: &'static str,
}

fn int_item(rng: &mut Rng, id: u64, lo: u64, hi: u64) -> Item {
    let (v, what) = match rng.below(12) {
        0 => (lo, "at-lower-bound"),
        1 => (hi, "at-upper-bound"),
        2 if lo > 0 => (lo - 1, "below-lower-bound"),
        3 if hi < w::VARINT_MAX => (hi + 1, "above-upper-bound"),
        4 => ((lo + 1).min(hi), "inside-lower-bound"),
        5 => (hi.saturating_sub(1).max(lo), "inside-upper-bound"),
        6 if hi < w::VARINT_MAX => (
            (hi + 1 + (rng.next() >> rng.range(2, 60))).min(w::VARINT_MAX),
            "far-above-upper-bound",
        ),
        7 => (*rng.pick(gen::EDGES), "varint-edge"),
        _ => (lo + rng.below((hi - lo).min(1 << 20) + 1), "inside"),
    };
    let mut value = Vec::new();
    let what = if rng.chance(1, 12) {
        // legal but longer varint
        let min = w::varint_len(v);
        let l = *rng.pick(&[8usize, 4.max(min), 2.max(min)]);
        w::put_varint_len(&mut value, v, l);
        if l != min {
            "non-minimal"
        } else {
            what
        }
    } else {
        w::put_varint(&mut value, v);
        what
    };
    Item { id, value, what }
}

fn bytes(rng: &mut Rng, n: usize) -> Vec<u8> {
    let mut v = vec![0u8; n];
    rng.fill(&mut v);
    v
}

fn cid_item(rng: &mut Rng, id: u64) -> Item {
    let (n, what) = match rng.below(10) {
        0 => (0, "cid-0"),
        1 => (20, "cid-20"),
        2 => (21, "cid-21"),
        3 => (3, "cid-3"),
        4 => (4, "cid-4"),
        5 => (7, "cid-7"),
        6 => (8, "cid-8"),
        7 => (1, "cid-1"),
        _ => (rng.range(8, 20) as usize, "cid"),
    };
    Item {
        id,
        value: bytes(rng, n),
        what,
    }
}

fn preferred_address(rng: &mut Rng) -> Item {
    let mut v = Vec::new();
    let shape = rng.below(8);
    let zero4 = shape == 0 || shape == 2;
    let zero6 = shape == 1 || shape == 2;
    v.extend_from_slice(&if zero4 { vec![0; 6] } else { bytes(rng, 6) });
    v.extend_from_slice(&if zero6 { vec![0; 18] } else { bytes(rng, 18) });
    let (cl, mut what) = match rng.below(8) {
        0 => (0usize, "pref-cid-0"),
        1 => (20, "pref-cid-20"),
        2 => (21, "pref-cid-21"),
        _ => (rng.range(1, 20) as usize, "pref"),
    };
    v.push(cl as u8);
    v.extend_from_slice(&bytes(rng, cl));
    v.extend_from_slice(&bytes(rng, 16));
    match rng.below(10) {
        0 => {
            v.pop();
            what = "pref-short";
        }
        1 => {
            v.push(0);
            what = "pref-long";
        }
        2 => {
            v.truncate(rng.below(40) as usize);
            what = "pref-truncated";
        }
        _ => {}
    }
    if zero4 && zero6 && what == "pref" {
        what = "pref-both-zero";
    }
    Item {
        id: tp::ID_PREF,
        value: v,
        what,
    }
}

fn item(rng: &mut Rng, id: u64) -> Item {
    if let Some((_, lo, hi)) = INT_PARAMS.iter().find(|p| p.0 == id) {
        let mut it = int_item(rng, id, *lo, *hi);
        match rng.below(40) {
            0 => {
                it.value.clear();
                it.what = "zero-length";
            }
            1 => {
                it.value.push(rng.next() as u8);
                it.what = "trailing-byte";
            }
            2 if it.value.len() > 1 => {
                it.value.pop();
                it.what = "truncated-value";
            }
            _ => {}
        }
        return it;
    }
    match id {
        tp::ID_ODCID | tp::ID_ISCID | tp::ID_RSCID => cid_item(rng, id),
        tp::ID_SRT => {
            let (n, what) = match rng.below(8) {
                0 => (15, "srt-15"),
                1 => (17, "srt-17"),
                2 => (0, "srt-0"),
                _ => (16, "srt"),
            };
            Item {
                id,
                value: bytes(rng, n),
                what,
            }
        }
        tp::ID_DAM => {
            if rng.chance(1, 8) {
                Item {
                    id,
                    value: bytes(rng, 1),
                    what: "dam-non-empty",
                }
            } else {
                Item {
                    id,
                    value: vec![],
                    what: "dam",
                }
            }
        }
        tp::ID_PREF => preferred_address(rng),
        _ => unreachable!(),
    }
}

fn unknown_item(rng: &mut Rng) -> Item {
    let (id, what) = match rng.below(6) {
        // reserved "grease" ids 31*N+27
        0 | 1 => {
            let bits = rng.range(1, 40);
            (31 * rng.below(1 << bits) + 27, "reserved-31n+27")
        }
        2 => (rng.range(0x11, 0x1f), "unassigned-small"),
        3 => (rng.range(0x21, 0x3f), "unassigned-small"),
        4 => (*rng.pick(&[0xdc0000u64, 0xdc0002, 0xdc0001]), "s2n-private"),
        _ => (rng.next() >> rng.range(2, 50), "unassigned-random"),
    };
    let n = *rng.pick(&[0usize, 1, 4, 63, 64, 100]);
    Item {
        id: id.min(w::VARINT_MAX),
        value: bytes(rng, n),
        what,
    }
}

const KNOWN: &[u64] = &[
    0x00, 0x01, 0x02, 0x03, 0x04, 0x05, 0x06, 0x07, 0x08, 0x09, 0x0a, 0x0b, 0x0c, 0x0d, 0x0e, 0x0f,
    0x10, 0x20,
];
const SERVER_ONLY: &[u64] = &[tp::ID_ODCID, tp::ID_SRT, tp::ID_PREF, tp::ID_RSCID];

pub struct Block {
    pub bytes: Vec<u8>,
    pub role: Role,
    /// tags of the non-plain things in this block
    pub tags: Vec<(u64, &'static str)>,
}

fn encode_items(rng: &mut Rng, items: &[Item], tags: &mut Vec<(u64, &'static str)>) -> Vec<u8> {
    let mut out = Vec::new();
    for it in items {
        // ids and lengths may legally use longer varints as well
        if rng.chance(1, 30) {
            let min = w::varint_len(it.id);
            w::put_varint_len(&mut out, it.id, 8.max(min));
            tags.push((it.id, "non-minimal-id"));
        } else {
            w::put_varint(&mut out, it.id);
        }
        let len = it.value.len() as u64;
        if rng.chance(1, 30) {
            w::put_varint_len(
                &mut out,
                len,
                *rng.pick(&[2usize, 4, 8]).max(&w::varint_len(len)),
            );
            tags.push((it.id, "non-minimal-length"));
        } else {
            w::put_varint(&mut out, len);
        }
        out.extend_from_slice(&it.value);
    }
    out
}

pub fn gen_block(rng: &mut Rng) -> Block {
    let role = if rng.chance(1, 2) {
        Role::Client
    } else {
        Role::Server
    };
    let mut items: Vec<Item> = Vec::new();
    // subset of the known parameters
    let density = *rng.pick(&[0u64, 1, 2, 4, 8, 16]);
    for &id in KNOWN {
        let server_only = SERVER_ONLY.contains(&id);
        let p = if server_only && role == Role::Client {
            // server-only parameters in client blocks: occasionally
            if density == 0 {
                0
            } else {
                1
            }
        } else {
            density
        };
        if rng.below(16) < p {
            items.push(item(rng, id));
        }
    }
    // one focus parameter is always present so that empty blocks stay rare
    if rng.chance(7, 8) {
        let id = *rng.pick(KNOWN);
        if !(SERVER_ONLY.contains(&id) && role == Role::Client && rng.chance(3, 4))
            && !items.iter().any(|i| i.id == id)
        {
            items.push(item(rng, id));
        }
    }
    for _ in 0..*rng.pick(&[0u64, 0, 1, 1, 2, 5]) {
        items.push(unknown_item(rng));
    }
    let mut tags: Vec<(u64, &'static str)> = items.iter().map(|i| (i.id, i.what)).collect();
    // duplicates
    if !items.is_empty() && rng.chance(1, 8) {
        let i = rng.below(items.len() as u64) as usize;
        let mut d = items[i].clone();
        if rng.chance(1, 2) && INT_PARAMS.iter().any(|p| p.0 == d.id) {
            d = item(rng, d.id);
        }
        tags.push((d.id, "duplicate"));
        items.push(d);
    }
    rng.shuffle(&mut items);
    let mut bytes = encode_items(rng, &items, &mut tags);
    // structural damage
    match rng.below(40) {
        0 if !bytes.is_empty() => {
            let keep = rng.below(bytes.len() as u64) as usize;
            bytes.truncate(keep);
            tags.push((u64::MAX, "block-truncated"));
        }
        1 => {
            // over-long length on a trailing item
            w::put_varint(&mut bytes, *rng.pick(KNOWN));
            w::put_varint(
                &mut bytes,
                *rng.pick(&[1u64, 64, 1 << 14, 1 << 30, w::VARINT_MAX]),
            );
            tags.push((u64::MAX, "over-long-length"));
        }
        2 => {
            bytes.push(rng.next() as u8);
            tags.push((u64::MAX, "dangling-byte"));
        }
        _ => {}
    }
    Block { bytes, role, tags }
}

fn bucket(v: u64) -> String {
    const NOTABLE: &[u64] = &[
        0, 1, 2, 3, 20, 21, 25, 63, 64, 1199, 1200, 65527, 65528, 16383, 16384, 16385,
    ];
    if NOTABLE.contains(&v) {
        return format!("{v}");
    }
    for (e, n) in [(14u32, "2^14"), (30, "2^30"), (60, "2^60"), (62, "2^62")] {
        let b = 1u64 << e;
        if v == b {
            return n.to_string();
        }
        if v == b - 1 {
            return format!("{n}-1");
        }
        if v == b + 1 {
            return format!("{n}+1");
        }
    }
    "other".into()
}

/// describe one (id, value) item for a signature
fn describe(id: u64, value: &[u8], rejected_valid: bool) -> String {
    let n = name(id);
    if INT_PARAMS.iter().any(|p| p.0 == id) {
        match w::varint(value) {
            Ok((x, l)) if l == value.len() => {
                if rejected_valid && l != w::varint_len(x) {
                    format!("{n}:non-minimal")
                } else {
                    format!("{n}={}", bucket(x))
                }
            }
            _ => format!("{n}:malformed"),
        }
    } else if matches!(id, tp::ID_ODCID | tp::ID_ISCID | tp::ID_RSCID) {
        let l = match value.len() {
            0..=3 => "len<4",
            4..=7 => "len<8",
            8..=20 => "len<=20",
            _ => "len>20",
        };
        format!("{n}:{l}")
    } else {
        format!("{n}:len={}", value.len().min(99))
    }
}

fn role_str(r: Role) -> &'static str {
    if r == Role::Client {
        "client"
    } else {
        "server"
    }
}

/// Which single items does s2n refuse / accept when they are the only content of a block?
fn blame(block: &[u8], role: Role, want_rejected: bool) -> Vec<String> {
    let Ok(items) = tp::split(block) else {
        return vec![];
    };
    let mut out = Vec::new();
    for (id, value) in &items {
        let mut one = Vec::new();
        tp::put(&mut one, *id, value);
        let alone_verdict = tp::judge(&one, role);
        let s2n_alone = matches!(s2n::tp_decode(&one, role), Ok(Ok(_)));
        let disagree = match alone_verdict {
            Verdict::Accept(_) => want_rejected && !s2n_alone,
            Verdict::Reject(_) => !want_rejected && s2n_alone,
            Verdict::DontCare(_) => false,
        };
        if disagree {
            out.push(describe(*id, value, want_rejected));
        }
    }
    out.sort();
    out.dedup();
    out
}

/// Compare s2n's decision on `block` with the table. Returns (verdict class, s2n accepted).
pub fn check_block(ctx: &mut Ctx, block: &[u8], role: Role) -> (u8, bool) {
    let replay = || json!({"check": "tp", "role": role_str(role), "hex": hex(block)});
    let got = match s2n::tp_decode(block, role) {
        Ok(g) => g,
        Err(p) => {
            if s2n::panic_in_library(&p.0) {
                ctx.violation(
                    // totality is C05's clause, the table is C14's; a panic here is reported
                    // under the property this check decides
                    PROPERTY,
                    format!("panic:tp-decode:{}", slug(&p.0)),
                    format!("transport parameter decode panicked: {}", p.0),
                    replay(),
                );
            } else {
                ctx.sum.inconclusive.push(format!("harness panic: {}", p.0));
            }
            return (3, false);
        }
    };
    let verdict = tp::judge(block, role);
    ctx.verbose(|| {
        format!(
            "block {} from {}\n  table: {:?}\n  s2n:   {:?}",
            hex(block),
            role_str(role),
            verdict,
            got
        )
    });
    let accepted = got.is_ok();
    match (&verdict, &got) {
        (Verdict::Accept(want), Ok(v)) => {
            ctx.sum.count("accepted_as_expected", 1);
            if *want != v.v {
                let field = first_difference(want, &v.v);
                ctx.violation(
                    PROPERTY,
                    format!("tp-field-mismatch:{field}"),
                    format!(
                        "{} block {}: declared {:?}, s2n decoded {:?}",
                        role_str(role),
                        hex(block),
                        want,
                        v.v
                    ),
                    replay(),
                );
            }
            (0, accepted)
        }
        (Verdict::Accept(_), Err(e)) => {
            let culprits = blame(block, role, true);
            let sig = if culprits.is_empty() {
                "tp-rejects-valid:combination".to_string()
            } else {
                format!("tp-rejects-valid:{}", culprits[0])
            };
            ctx.violation(
                PROPERTY,
                sig,
                format!(
                    "{} block {} is valid per RFC 9000 7.4/18.2 but s2n rejects it: {e}",
                    role_str(role),
                    hex(block)
                ),
                replay(),
            );
            (0, accepted)
        }
        (Verdict::Reject(why), Ok(v)) => {
            let culprits = blame(block, role, false);
            let sig = if culprits.is_empty() {
                format!("tp-accepts-invalid:{}", slug(why))
            } else {
                format!("tp-accepts-invalid:{}", culprits[0])
            };
            ctx.violation(
                PROPERTY,
                sig,
                format!(
                    "{} block {} must be rejected ({why}) but s2n accepts it as {:?}",
                    role_str(role),
                    hex(block),
                    v.v
                ),
                replay(),
            );
            (1, accepted)
        }
        (Verdict::Reject(why), Err(e)) => {
            if block.len() < 24 {
                ctx.sample(
                    || json!({"role": role_str(role), "hex": hex(block), "table": why, "s2n": e}),
                );
            }
            ctx.sum.count("rejected_as_expected", 1);
            ctx.sum.count(&format!("reject:{why}"), 1);
            (1, accepted)
        }
        (Verdict::DontCare(why), r) => {
            ctx.sum.count(
                &format!(
                    "dontcare:{why}:{}",
                    if r.is_ok() {
                        "s2n-accepts"
                    } else {
                        "s2n-rejects"
                    }
                ),
                1,
            );
            (2, accepted)
        }
    }
}

fn first_difference(a: &tp::Values, b: &tp::Values) -> &'static str {
    macro_rules! cmp {
        ($($f:ident),*) => { $( if a.$f != b.$f { return stringify!($f); } )* };
    }
    cmp!(
        original_destination_connection_id,
        max_idle_timeout,
        stateless_reset_token,
        max_udp_payload_size,
        initial_max_data,
        initial_max_stream_data_bidi_local,
        initial_max_stream_data_bidi_remote,
        initial_max_stream_data_uni,
        initial_max_streams_bidi,
        initial_max_streams_uni,
        ack_delay_exponent,
        max_ack_delay,
        disable_active_migration,
        preferred_address,
        active_connection_id_limit,
        initial_source_connection_id,
        retry_source_connection_id,
        max_datagram_frame_size
    );
    "none"
}

pub fn one(ctx: &mut Ctx, seed: u64, index: u64) {
    let mut rng = Rng::new(mix(seed ^ 0x7470, index));
    ctx.set_current("tp");
    ctx.sum.evaluations += 1;
    let class = rng.below(20);
    let (mut block, role, mut tags, cname) = if class == 0 {
        // plain random bytes
        let n = rng.range(0, 48) as usize;
        let role = if rng.chance(1, 2) {
            Role::Client
        } else {
            Role::Server
        };
        (bytes(&mut rng, n), role, vec![], "random")
    } else {
        let b = gen_block(&mut rng);
        (b.bytes, b.role, b.tags, "grammar")
    };
    let mut mutation = 0u64;
    if class == 1 || class == 2 {
        mutation = 1 + gen::mutate(&mut rng, &mut block) as u64;
        tags.push((u64::MAX, "mutated"));
    }
    ctx.sum.count(
        &format!(
            "inputs:{cname}{}",
            if mutation != 0 { "-mutated" } else { "" }
        ),
        1,
    );
    ctx.sum.count(&format!("role:{}", role_str(role)), 1);
    for (id, t) in &tags {
        if *id == u64::MAX {
            ctx.sum.count(&format!("block:{t}"), 1);
        } else if tp::is_known(*id) {
            ctx.sum.count(&format!("boundary:{}:{t}", name(*id)), 1);
        } else {
            ctx.sum.count(&format!("unknown-id:{t}"), 1);
        }
    }
    let (verdict, accepted) = check_block(ctx, &block, role);
    ctx.sum.count(
        [
            "verdict:accept",
            "verdict:reject",
            "verdict:dontcare",
            "verdict:panic",
        ][verdict as usize],
        1,
    );
    if block.is_empty() {
        ctx.sum.trivial += 1;
        return;
    }
    // signature: the set of (parameter, what) tags + verdict + outcome
    let mut h = mix(
        verdict as u64,
        accepted as u64 | (role == Role::Client) as u64 * 2 | ((mutation != 0) as u64) << 4,
    );
    let mut ts: Vec<u64> = tags
        .iter()
        .filter(|(_, t)| !matches!(*t, "inside" | "cid" | "srt" | "dam" | "pref"))
        .map(|(id, t)| {
            mix(
                if tp::is_known(*id) { *id } else { 0xffff },
                vq_util::hash_str(t),
            )
        })
        .collect();
    ts.sort();
    ts.dedup();
    // the class is named by its most unusual ingredient (smallest hash: arbitrary but stable)
    if let Some(t) = ts.first() {
        h = mix(h, *t);
    }
    ctx.sum.signatures.insert(h);
}

pub fn replay(ctx: &mut Ctx, r: &vq_util::Value) -> Result<(), String> {
    let h = r["hex"].as_str().ok_or("replay: no hex")?;
    let block: Vec<u8> = (0..h.len() / 2)
        .map(|i| u8::from_str_radix(&h[2 * i..2 * i + 2], 16).map_err(|e| e.to_string()))
        .collect::<Result<_, _>>()?;
    let role = if r["role"].as_str() == Some("client") {
        Role::Client
    } else {
        Role::Server
    };
    ctx.sum.evaluations += 1;
    check_block(ctx, &block, role);
    Ok(())
}
